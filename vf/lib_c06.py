"""C06 -- declarator grammar: type terms, validity, C++ rendering, name-lookup contexts.

A type term is a nested tuple, innermost = base:

    ('b', base)          base type symbol (see BASES)
    ('p', t)             pointer to t                      *
    ('c', t)             const t        (east spelling)    T const / * const
    ('C', t)             const t        (west spelling, only directly on the base)   const T
    ('v', t)             volatile t     (east)
    ('W', t)             volatile t     (west, only directly on the base)
    ('r', t)             lvalue reference to t             &
    ('a', t)             array of 3 t                      [3]
    ('f', t)             function (int, long) returning t  -> `(*)(int, long)` is p over f
    ('m', t)             pointer to member of S of type t  S::*   (member function pointer if t is f)

The key of a term is  base ':' modifier letters innermost-first, e.g. `int:fp` is a pointer
to function (int,long) returning int, `int:fpf` a function returning such a pointer.
"""
import itertools

MODS = "pcCvWrafm"

# base symbol -> (spelling in the global context, fully qualified spelling for the checker)
BASES = {
    "int": ("int", "int"),
    "ulong": ("unsigned long", "unsigned long"),
    "char": ("char", "char"),
    "bool": ("bool", "bool"),
    "double": ("double", "double"),
    "S": ("S", "::S"),
    "N::T": ("N::T", "::N::T"),
    "N::T::In": ("N::T::In", "::N::T::In"),
    "E": ("E", "::E"),
    "Alias": ("Alias", "::Alias"),
    "V<int>": ("V<int>", "::V<int, 3>"),
    "V<N::T*,4>": ("V<N::T*, 4>", "::V< ::N::T*, 4>"),
    "V<V<int>,2>": ("V<V<int>, 2>", "::V< ::V<int, 3>, 2>"),
}
BASE_ORDER = list(BASES)

PRELUDE = """\
struct S { int m; void meth(int a); };
namespace N { struct T { struct In { int i; }; int t; }; }
enum E { e0, e1 };
typedef int Alias;
template<class X, int n = 3> struct V { X a[n]; };
"""


def base_of(t):
    while t[0] != "b":
        t = t[1]
    return t[1]


def mods_of(t):
    out = []
    while t[0] != "b":
        out.append(t[0])
        t = t[1]
    return "".join(reversed(out))


def key(t):
    return "%s:%s" % (base_of(t), mods_of(t))


def parse_key(k):
    base, mods = k.rsplit(":", 1)
    t = ("b", base)
    for m in mods:
        t = (m, t)
    return t


def depth(t):
    return len(mods_of(t))


def is_cv(t):
    return t[0] in "cCvW"


def strip_cv(t):
    while t[0] in "cCvW":
        t = t[1]
    return t


def has_const(t):
    while t[0] in "cCvW":
        if t[0] in "cC":
            return True
        t = t[1]
    return False


def has_volatile(t):
    while t[0] in "cCvW":
        if t[0] in "vW":
            return True
        t = t[1]
    return False


def can_apply(m, t):
    """May modifier m be applied to the (valid) term t?  C++ rules plus a canonical order
    for cv so that each type is produced once per spelling."""
    k = t[0]
    core = strip_cv(t)[0]
    if m == "p":
        return core != "r"
    if m == "m":
        return core != "r"
    if m == "r":
        return core != "r"
    if m == "a":
        return core not in ("r", "f")
    if m == "f":
        return core not in ("f", "a")
    if m in "cC":
        if core in ("r", "f", "a") or has_const(t):
            return False
        if m == "C":
            return k == "b"
        return k != "v"           # canonical: volatile is applied after const (W may precede)
    if m in "vW":
        if core in ("r", "f", "a") or has_volatile(t):
            return False
        if m == "W":
            return k == "b"
        return True
    raise ValueError(m)


def terms(base, d):
    """All valid terms over the base with at most d modifiers, canonical order
    (shorter first, then alphabet order)."""
    level = [("b", base)]
    yield level[0]
    for _ in range(d):
        nxt = []
        for t in level:
            for m in MODS:
                if can_apply(m, t):
                    nxt.append((m, t))
        for t in nxt:
            yield t
        level = nxt


def role_ok(role, t):
    core = strip_cv(t)[0]
    if role == "var":
        return core != "f"
    if role == "ret":
        return core not in ("f", "a")
    return True          # param, typedef


# ------------------------------------------------------------------------- rendering
def render(t, name, spell=None, qualified=False, mclass="S"):
    """C++ declaration `specifiers declarator` of a name (or an abstract declarator if name is
    empty) with type t.  spell: base symbol -> text (default: BASES, global or qualified)."""
    d = name
    prefix_last = False        # was the last thing added to d a prefix operator?
    quals = []                 # cv-qualifiers waiting for the thing they qualify
    west = []
    while True:
        k = t[0]
        if k in "cv":
            quals.append("const" if k == "c" else "volatile")
        elif k in "CW":
            west.append("const" if k == "C" else "volatile")
        elif k == "b":
            b = spell(t[1]) if spell is not None else BASES[t[1]][1 if qualified else 0]
            s = " ".join(west + [b] + quals)
            return s + (" " + d if d else "")
        elif k == "p":
            d = "*" + _qs(quals) + d
            quals = []
            prefix_last = True
        elif k == "m":
            # (qualified: an alias, because `::S ::S::*` would be read as one nested name)
            d = ("McS" if qualified else mclass) + "::*" + _qs(quals) + d
            quals = []
            prefix_last = True
        else:
            assert not quals, "cv-qualified reference/array/function"
            if k == "r":
                d = "&" + d
                prefix_last = True
            else:
                if prefix_last:
                    d = "(" + d + ")"
                d += "[3]" if k == "a" else "(int, long)"
                prefix_last = False
        t = t[1]


def _qs(quals):
    """cv-qualifiers of a pointer, followed by a space."""
    if not quals:
        return ""
    return " " + " ".join(quals) + " "


# ----------------------------------------------------------------- deviation models
def volatile_variants(t):
    """Every term obtained from t by removing a non-empty subset of its volatile qualifiers."""
    def rec(x):
        if x[0] == "b":
            return [(x, False)]
        out = []
        for sub, changed in rec(x[1]):
            out.append(((x[0], sub), changed))
            if x[0] in "vW":
                out.append((sub, True))
        return out
    return [x for x, changed in rec(t) if changed]


def member_to_plain_pointer(t):
    """Pointers to data members become plain pointers (member function pointers are kept)."""
    if t[0] == "b":
        return t
    if t[0] == "m" and strip_cv(t[1])[0] != "f":
        return ("p", member_to_plain_pointer(t[1]))
    return (t[0], member_to_plain_pointer(t[1]))


def drop_west_const(t):
    if t[0] == "b":
        return t
    if t[0] == "C":
        return drop_west_const(t[1])
    return (t[0], drop_west_const(t[1]))


def prefix_binds_before_suffix(t):
    """The declarator printed without the parentheses that make a pointer/reference bind
    before an array suffix: `int (*x)[3]` printed as `int *x[3]`, i.e. pointer-to-array
    becomes array-of-pointer (for references the result is ill-formed: None)."""
    if t[0] == "b":
        return t
    if t[0] in "pm" and strip_cv(t[1])[0] == "a":
        inner = prefix_binds_before_suffix(strip_cv(t[1])[1])
        if inner is None:
            return None
        return ("a", (t[0], inner))
    if t[0] == "r" and strip_cv(t[1])[0] == "a":
        return None
    sub = prefix_binds_before_suffix(t[1])
    if sub is None:
        return None
    return (t[0], sub)


# name, transform; volatile is handled separately (any non-empty subset may be dropped)
DEVIATIONS = [
    ("member-pointer-as-pointer", member_to_plain_pointer),
    ("array-suffix-unparenthesised", prefix_binds_before_suffix),
    ("west-const-dropped", drop_west_const),
]


def alternatives(t, allowed=None):
    """[(names, term)]: the types a known-wrong rendering of t would denote.  names is the
    tuple of deviation models applied.  allowed: names that may be used (None = all but
    west-const-dropped, which needs a syntactic precondition the caller checks)."""
    if allowed is None:
        allowed = {"volatile-dropped", "member-pointer-as-pointer", "array-suffix-unparenthesised"}
    out = []
    seen = {t}
    starts = [((), t)]
    if "volatile-dropped" in allowed:
        starts += [(("volatile-dropped",), v) for v in volatile_variants(t)]
    devs = [d for d in DEVIATIONS if d[0] in allowed]
    for names0, t0 in starts:
        for r in range(0, len(devs) + 1):
            for combo in itertools.combinations(devs, r):
                x = t0
                for _, fn in combo:
                    if x is not None:
                        x = fn(x)
                if x is None or x in seen or not _valid_loose(x):
                    continue
                seen.add(x)
                out.append((names0 + tuple(n for n, _ in combo), x))
    return out


def _valid_loose(t):
    """C++ validity of a transformed term (cv order is irrelevant here)."""
    if t[0] == "b":
        return True
    if not _valid_loose(t[1]):
        return False
    m, x = t[0], t[1]
    core = strip_cv(x)[0]
    if m in "pm":
        return core != "r"
    if m == "r":
        return core != "r"
    if m == "a":
        return core not in ("r", "f")
    if m == "f":
        return core not in ("f", "a")
    if m in "cC":
        return core not in ("r", "f", "a") and not has_const(x)
    if m in "vW":
        return core not in ("r", "f", "a") and not has_volatile(x)
    return False
