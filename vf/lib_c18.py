"""C18 support: build harness/fpconv from the number formatter/parser sources of the tree
under test, with the tree's own compiler flags (read from the build's build.ninja)."""
import hashlib
import os
import re
import shlex
import subprocess

from vf import build
from vf.core import HarnessError

HARN = os.path.join(build.VERIF, "harness")


def dtoolbase_flags(b):
    """DEFINES/FLAGS/INCLUDES the tree's build uses for src/dtoolbase (where pdtoa.cxx and
    pstrtod.cxx are compiled)."""
    nin = os.path.join(b["dir"], "build.ninja")
    txt = open(nin).read()
    m = re.search(r"^build cmake/src/dtoolbase/CMakeFiles/dtoolbase\.dir/[^\n]*\.o:[^\n]*\n((?:  [^\n]*\n)+)",
                  txt, re.M)
    if not m:
        raise HarnessError("cannot find the dtoolbase compile statement in %s" % nin)
    d = {}
    for line in m.group(1).splitlines():
        k, _, v = line.strip().partition(" = ")
        d[k] = v
    if "FLAGS" not in d:
        raise HarnessError("no FLAGS for dtoolbase in %s" % nin)
    flags = shlex.split(d.get("DEFINES", "")) + shlex.split(d["FLAGS"]) + shlex.split(d.get("INCLUDES", ""))
    return flags


def _run(cmd):
    p = subprocess.run(cmd, stdout=subprocess.PIPE, stderr=subprocess.STDOUT, text=True)
    if p.returncode != 0:
        raise HarnessError("compiling fpconv failed: %s\n%s" % (" ".join(cmd), p.stdout[-4000:]))


def build_fpconv(b):
    """Returns (path of fpconv, dict of facts).  Recompiled when any source, the seam
    header or the tree's flags changed."""
    r = b["repo"]
    src_pd = os.path.join(r, "src", "dtoolbase", "pdtoa.cxx")
    src_ps = os.path.join(r, "src", "dtoolbase", "pstrtod.cxx")
    main = os.path.join(HARN, "fpconv.cxx")
    seam = os.path.join(HARN, "fpconv_comma.h")
    flags = dtoolbase_flags(b)
    outd = os.path.join(b["dir"], "harness")
    out = os.path.join(outd, "fpconv")
    stamp = out + ".stamp"
    hdrs = [os.path.join(r, "src", "dtoolbase", h) for h in ("pdtoa.h", "pstrtod.h", "dtoolbase.h")]
    sig = hashlib.sha1((" ".join(flags) + "|" + "|".join(
        "%s:%s" % (f, os.path.getmtime(f)) for f in [src_pd, src_ps, main, seam] + hdrs)).encode()).hexdigest()
    with build.lock("harness-" + os.path.basename(b["dir"]) + "-fpconv"):
        os.makedirs(outd, exist_ok=True)
        if not (os.path.exists(out) and os.path.exists(stamp) and open(stamp).read() == sig):
            o1, o2, o3 = out + ".pdtoa.o", out + ".pstrtod.o", out + ".pstrtod_comma.o"
            _run(["g++"] + flags + ["-w", "-c", src_pd, "-o", o1])
            _run(["g++"] + flags + ["-w", "-c", src_ps, "-o", o2])
            _run(["g++"] + flags + ["-w", "-include", seam, "-Dpstrtod=pstrtod_comma",
                                    "-Dpatof=patof_comma", "-c", src_ps, "-o", o3])
            inc = [f for f in flags if f.startswith("-I") or f.startswith("-D")]
            _run(["g++", "-std=gnu++17", "-O2", "-w", "-pthread"] + inc +
                 [main, o1, o2, o3, "-o", out + ".tmp"])
            os.replace(out + ".tmp", out)
            with open(stamp, "w") as f:
                f.write(sig)
    # which libc conversion / locale functions does the tree's pstrtod object import?
    p = subprocess.run(["nm", "-u", out + ".pstrtod.o"], stdout=subprocess.PIPE, text=True)
    und = sorted(set(l.split()[-1] for l in p.stdout.splitlines() if l.strip()))
    p = subprocess.run(["nm", "-u", out + ".pstrtod_comma.o"], stdout=subprocess.PIPE, text=True)
    und_c = sorted(set(l.split()[-1] for l in p.stdout.splitlines() if l.strip()))
    return out, {"flags": " ".join(f for f in flags if not f.startswith("-I")),
                 "pstrtod_imports": und, "pstrtod_comma_imports": und_c}


# libc entry points whose result depends on the process locale and that the seam does NOT
# model: if the tree's pstrtod starts using one of them the locale axis is unexplored.
UNMODELLED = ("sscanf", "__isoc99_sscanf", "__isoc23_sscanf", "vsscanf", "__isoc99_vsscanf",
              "setlocale", "uselocale", "scanf", "fscanf", "__isoc23_strtod", "__strtod_internal")
# seen through the seam
MODELLED = ("strtod", "strtof", "strtold", "atof", "localeconv")


def build_comma_locale():
    """Compile a minimal real locale `xx_XX` whose LC_NUMERIC decimal point is ',' (none is
    installed in the image; localedef works with a hand-written ASCII charmap).  Returns the
    LOCPATH directory, or None when localedef cannot do it (then only the seam is used)."""
    root = os.path.join(build.build_root(), "locales")
    out = os.path.join(root, "xx_XX")
    with build.lock("c18-locale"):
        if os.path.exists(os.path.join(out, "LC_NUMERIC")):
            return root
        os.makedirs(root, exist_ok=True)
        cm = os.path.join(root, "ASCII.cm")
        src = os.path.join(root, "xx_XX.src")
        with open(cm, "w") as f:
            f.write("<code_set_name> ANSI_X3.4-1968\n<comment_char> %\n<escape_char> /\n"
                    "<mb_cur_min> 1\n<mb_cur_max> 1\nCHARMAP\n")
            for i in range(128):
                f.write("<U%04X>     /x%02x         CH%d\n" % (i, i, i))
            f.write("END CHARMAP\n")
        with open(src, "w") as f:
            f.write('LC_NUMERIC\ndecimal_point ","\nthousands_sep "."\ngrouping -1\nEND LC_NUMERIC\n')
        subprocess.run(["localedef", "-c", "-f", cm, "-i", src, out],
                       stdout=subprocess.PIPE, stderr=subprocess.STDOUT, text=True)
        if not os.path.exists(os.path.join(out, "LC_NUMERIC")):
            return None
    return root
