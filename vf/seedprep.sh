#!/bin/bash
# seedprep.sh <PID> [suffix]: create scratch worktree /tmp/mut-<PID><suffix> of /repo HEAD with _TASK.txt (property text only)
PID=$1; SUF=${2:-}; WT=/tmp/mut-$PID$SUF
git -C /repo worktree add -q --detach $WT HEAD || exit 2
python3 - "$PID" "$WT" <<'PY'
import json,sys
pid,wt=sys.argv[1:]
props={json.loads(l)['id']:json.loads(l) for l in open('/verif/properties.jsonl')}
p=props[pid]
s=open('/verif/vf/seed_task_template.txt').read().format(WT=wt,TITLE=p['title'],STATEMENT=p['statement'],QUANT=p['quantifier']['text'],FILES=', '.join(p['anchors']['files']),PID=pid)
open(wt+'/_TASK.txt','w').write(s)
PY
echo $WT
