"""MANIFEST.setup_cmd: build both flavours of the tree under test and the harnesses,
from files on disk only (offline)."""
import sys
from vf import build, harness


def main():
    for fl in ("rel", "asan"):
        b = build.build(fl)
        print("built", fl, "in", b["build_s"], "s ->", b["dir"], flush=True)
        harness.idbdump(b)
    print("setup ok")


if __name__ == "__main__":
    main()
