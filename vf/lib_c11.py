"""C11 helper: independent reader of the .in database text format *as written* (no load-time
renumbering), the referential-closure oracle over it, and the synthesis of C declarations
from type records only.

The reader is written from InterrogateDatabase::write / the records' output() methods.
It deliberately knows nothing about how interrogate computes anything.
"""
import re

# InterrogateType flags
F_global, F_atomic, F_unsigned, F_signed, F_long, F_longlong, F_short = 1, 2, 4, 8, 0x10, 0x20, 0x40
F_wrapped, F_pointer, F_const, F_struct, F_class, F_union = 0x80, 0x100, 0x200, 0x400, 0x800, 0x1000
F_fully_defined, F_nested, F_enum, F_unpublished, F_typedef, F_array = 0x2000, 0x40000, 0x80000, 0x100000, 0x200000, 0x400000
F_scoped_enum = 0x800000
AT_int, AT_float, AT_double, AT_bool, AT_char, AT_void, AT_string, AT_longlong, AT_null = 1, 2, 3, 4, 5, 6, 7, 8, 9
# derivation flags
DF_upcast, DF_downcast = 1, 2
# wrapper flags / parameter flags
WF_caller_manages, WF_has_return, WF_callable_by_name = 1, 2, 4
PF_has_name, PF_is_this, PF_is_optional = 1, 2, 4


class FormatError(Exception):
    pass


class _In:
    """Emulates the subset of std::istream the database reader uses, on bytes."""

    def __init__(self, data):
        self.d = data
        self.p = 0

    def ws(self):
        d, p = self.d, self.p
        n = len(d)
        while p < n and d[p] in b" \t\r\n\f\v":
            p += 1
        self.p = p

    def int(self):
        self.ws()
        m = re.compile(rb"[+-]?\d+").match(self.d, self.p)
        if not m:
            raise FormatError("integer expected at byte %d: %r" % (self.p, self.d[self.p:self.p + 30]))
        self.p = m.end()
        return int(m.group())

    def string(self):
        n = self.int()
        if n < 0:
            raise FormatError("negative string length at %d" % self.p)
        if n == 0:
            # idf_output_string writes only "0<ws>" for an empty string, but the reader
            # still skips one character
            self.p += 1
            return ""
        self.p += 1
        s = self.d[self.p:self.p + n]
        if len(s) != n:
            raise FormatError("string runs past end of file")
        self.p += n
        return s.decode("latin-1")

    def vec_int(self):
        return [self.int() for _ in range(self.int())]

    def at_end(self):
        self.ws()
        return self.p >= len(self.d)


def _component(i):
    name = i.string()
    alts = [i.string() for _ in range(i.int())]
    return {"name": name, "alt_names": alts}


def parse_in(data):
    """Parse a .in file (bytes) -> dict with the raw indices exactly as written."""
    i = _In(data)
    db = {"file_identifier": i.int(), "major": i.int(), "minor": i.int()}
    if db["major"] != 3:
        raise FormatError("unsupported major version %d" % db["major"])
    minor = db["minor"]
    db["library_name"] = i.string()
    db["library_hash_name"] = i.string()
    db["module_name"] = i.string()
    order = []          # (kind, index) in file order
    fns = {}
    for _ in range(i.int()):
        idx = i.int()
        r = _component(i)
        r["flags"] = i.int()
        r["class"] = i.int()
        r["scoped_name"] = i.string()
        r["c_wrappers"] = i.vec_int()
        r["python_wrappers"] = i.vec_int()
        r["comment"] = i.string()
        r["prototype"] = i.string()
        if idx in fns:
            raise FormatError("function index %d written twice" % idx)
        fns[idx] = r
        order.append(("function", idx))
    wr = {}
    for _ in range(i.int()):
        idx = i.int()
        r = _component(i)
        r["flags"] = i.int()
        r["function"] = i.int()
        r["return_type"] = i.int()
        r["return_value_destructor"] = i.int()
        r["unique_name"] = i.string()
        r["comment"] = i.string()
        ps = []
        for _k in range(i.int()):
            n = i.string()
            ps.append({"name": n, "flags": i.int(), "type": i.int()})
        r["parameters"] = ps
        if idx in wr:
            raise FormatError("wrapper index %d written twice" % idx)
        wr[idx] = r
        order.append(("wrapper", idx))
    ty = {}
    for _ in range(i.int()):
        idx = i.int()
        r = _component(i)
        r["flags"] = i.int()
        r["scoped_name"] = i.string()
        r["true_name"] = i.string()
        r["outer_class"] = i.int()
        r["atomic_token"] = i.int()
        r["wrapped_type"] = i.int()
        r["array_size"] = i.int() if r["flags"] & F_array else 0
        r["constructors"] = i.vec_int()
        r["destructor"] = i.int()
        r["elements"] = i.vec_int()
        r["methods"] = i.vec_int()
        r["make_seqs"] = i.vec_int()
        r["casts"] = i.vec_int()
        ds = []
        for _k in range(i.int()):
            ds.append({"flags": i.int(), "base": i.int(), "upcast": i.int(), "downcast": i.int()})
        r["derivations"] = ds
        ev = []
        for _k in range(i.int()):
            n, sn, c = i.string(), i.string(), i.string()
            ev.append({"name": n, "scoped_name": sn, "comment": c, "value": i.int()})
        r["enum_values"] = ev
        r["nested_types"] = i.vec_int()
        r["comment"] = i.string()
        if idx in ty:
            raise FormatError("type index %d written twice" % idx)
        ty[idx] = r
        order.append(("type", idx))
    mf = {}
    for _ in range(i.int()):
        idx = i.int()
        r = _component(i)
        r["flags"] = i.int()
        r["int_value"] = i.int()
        r["type"] = i.int()
        r["getter"] = i.int()
        r["definition"] = i.string()
        mf[idx] = r
        order.append(("manifest", idx))
    el = {}
    for _ in range(i.int()):
        idx = i.int()
        r = _component(i)
        r["flags"] = i.int()
        r["type"] = i.int()
        r["getter"] = i.int()
        r["setter"] = i.int()
        for k, need in (("has_function", 1), ("clear_function", 1), ("del_function", 2),
                        ("length_function", 2), ("insert_function", 3), ("getkey_function", 3)):
            r[k] = i.int() if minor >= need else 0
        r["scoped_name"] = i.string()
        r["comment"] = i.string()
        el[idx] = r
        order.append(("element", idx))
    ms = {}
    for _ in range(i.int()):
        idx = i.int()
        r = _component(i)
        r["length_getter"] = i.int()
        r["element_getter"] = i.int()
        r["scoped_name"] = i.string()
        r["comment"] = i.string()
        ms[idx] = r
        order.append(("make_seq", idx))
    if not i.at_end():
        raise FormatError("trailing data after the last record at byte %d" % i.p)
    db.update(functions=fns, wrappers=wr, types=ty, manifests=mf, elements=el, make_seqs=ms,
              order=order)
    return db


def from_dump(d):
    """idbdump JSON -> same shape as parse_in (indices as ints)."""
    def conv(m):
        return {int(k): v for k, v in m.items()}
    out = {k: conv(d[k]) for k in ("functions", "wrappers", "types", "manifests", "elements",
                                   "make_seqs")}
    return out


# --------------------------------------------------------------------------- closure
ELEMENT_FN_SLOTS = ("getter", "setter", "has_function", "clear_function", "del_function",
                    "length_function", "insert_function", "getkey_function")

# every index-valued field: (record kind, field label, expected kind of the target)
INDEX_FIELDS = [
    ("function", "class", "type"), ("function", "c_wrappers", "wrapper"),
    ("function", "python_wrappers", "wrapper"),
    ("wrapper", "function", "function"), ("wrapper", "return_type", "type"),
    ("wrapper", "return_value_destructor", "function"), ("wrapper", "parameters.type", "type"),
    ("type", "outer_class", "type"), ("type", "wrapped_type", "type"),
    ("type", "constructors", "function"), ("type", "destructor", "function"),
    ("type", "elements", "element"), ("type", "methods", "function"),
    ("type", "make_seqs", "make_seq"), ("type", "casts", "function"),
    ("type", "derivations.base", "type"), ("type", "derivations.upcast", "function"),
    ("type", "derivations.downcast", "function"), ("type", "nested_types", "type"),
    ("manifest", "type", "type"), ("manifest", "getter", "function"),
    ("element", "type", "type"),
] + [("element", s, "function") for s in ELEMENT_FN_SLOTS] + [
    ("make_seq", "length_getter", "function"), ("make_seq", "element_getter", "function"),
]

KIND_MAP = {"function": "functions", "wrapper": "wrappers", "type": "types",
            "manifest": "manifests", "element": "elements", "make_seq": "make_seqs"}


def iter_refs(db):
    """Yield (src_kind, src_index, field_label, target_kind, value) for EVERY index-valued
    field of every record, zero values included."""
    for idx, r in db["functions"].items():
        yield "function", idx, "class", "type", r["class"]
        for w in r["c_wrappers"]:
            yield "function", idx, "c_wrappers", "wrapper", w
        for w in r["python_wrappers"]:
            yield "function", idx, "python_wrappers", "wrapper", w
    for idx, r in db["wrappers"].items():
        yield "wrapper", idx, "function", "function", r["function"]
        yield "wrapper", idx, "return_type", "type", r["return_type"]
        yield "wrapper", idx, "return_value_destructor", "function", r["return_value_destructor"]
        for p in r["parameters"]:
            yield "wrapper", idx, "parameters.type", "type", p["type"]
    for idx, r in db["types"].items():
        yield "type", idx, "outer_class", "type", r["outer_class"]
        yield "type", idx, "wrapped_type", "type", r["wrapped_type"]
        for f in r["constructors"]:
            yield "type", idx, "constructors", "function", f
        yield "type", idx, "destructor", "function", r["destructor"]
        for f in r["elements"]:
            yield "type", idx, "elements", "element", f
        for f in r["methods"]:
            yield "type", idx, "methods", "function", f
        for f in r["make_seqs"]:
            yield "type", idx, "make_seqs", "make_seq", f
        for f in r["casts"]:
            yield "type", idx, "casts", "function", f
        for d in r["derivations"]:
            yield "type", idx, "derivations.base", "type", d["base"]
            yield "type", idx, "derivations.upcast", "function", d["upcast"]
            yield "type", idx, "derivations.downcast", "function", d["downcast"]
        for f in r["nested_types"]:
            yield "type", idx, "nested_types", "type", f
    for idx, r in db["manifests"].items():
        yield "manifest", idx, "type", "type", r["type"]
        yield "manifest", idx, "getter", "function", r["getter"]
    for idx, r in db["elements"].items():
        yield "element", idx, "type", "type", r["type"]
        for s in ELEMENT_FN_SLOTS:
            yield "element", idx, s, "function", r[s]
    for idx, r in db["make_seqs"].items():
        yield "make_seq", idx, "length_getter", "function", r["length_getter"]
        yield "make_seq", idx, "element_getter", "function", r["element_getter"]


# vector-valued fields in which a zero entry is never meaningful
_VECTOR_FIELDS = {"c_wrappers", "python_wrappers", "constructors", "elements", "methods",
                  "make_seqs", "casts", "nested_types", "derivations.base"}

_IDENT = re.compile(r"^[A-Za-z_][A-Za-z0-9_]*$")


def closure_problems(db, enum_vectors=None, check_consecutive=True):
    """Return (problems, coverage) for one database in parse_in shape.

    problems: list of short strings, empty when referentially closed and consistent.
    coverage: {field label: number of non-zero occurrences}."""
    probs = []
    cov = {"%s.%s" % (k, f): 0 for k, f, _t in INDEX_FIELDS}
    # one index space: no index may name two records
    seen = {}
    for kind, key in KIND_MAP.items():
        for idx in db[key]:
            if idx <= 0:
                probs.append("%s record at non-positive index %d" % (kind, idx))
            if idx in seen:
                probs.append("index %d names both a %s and a %s" % (idx, seen[idx], kind))
            seen[idx] = kind
    # wrapper indices are the consecutive integers starting at 1
    if check_consecutive:
        w = sorted(db["wrappers"])
        if w != list(range(1, len(w) + 1)):
            bad = [x for n, x in enumerate(w, 1) if x != n][:3]
            probs.append("wrapper indices are not 1..%d (first deviations %s)" % (len(w), bad))
    for sk, si, fld, tk, v in iter_refs(db):
        lab = "%s.%s" % (sk, fld)
        if v == 0:
            if fld in _VECTOR_FIELDS:
                probs.append("%s %d: zero entry in %s" % (sk, si, fld))
            continue
        cov[lab] += 1
        if v not in db[KIND_MAP[tk]]:
            probs.append("%s %d: %s=%d is not a %s (it is %s)"
                         % (sk, si, fld, v, tk, seen.get(v, "nothing")))
    # --- back-links
    fns, wr, ty, el, ms = db["functions"], db["wrappers"], db["types"], db["elements"], db["make_seqs"]
    for wi, w in wr.items():
        f = fns.get(w["function"])
        if w["function"] == 0:
            probs.append("wrapper %d has no function" % wi)
        elif f is not None:
            n = f["c_wrappers"].count(wi) + f["python_wrappers"].count(wi)
            if n != 1:
                probs.append("wrapper %d names function %d which lists it %d times"
                             % (wi, w["function"], n))
    listed = {}
    for fi, f in fns.items():
        for w in f["c_wrappers"] + f["python_wrappers"]:
            if w in listed:
                probs.append("wrapper %d listed by functions %d and %d" % (w, listed[w], fi))
            listed[w] = fi
            if w in wr and wr[w]["function"] != fi:
                probs.append("function %d lists wrapper %d whose function is %d"
                             % (fi, w, wr[w]["function"]))
    for ti, t in ty.items():
        for fld in ("constructors", "methods", "casts"):
            for f in t[fld]:
                if f in fns and fns[f]["class"] != ti:
                    probs.append("type %d %s contains function %d whose class is %d"
                                 % (ti, fld, f, fns[f]["class"]))
            if len(set(t[fld])) != len(t[fld]):
                probs.append("type %d lists a function twice in %s" % (ti, fld))
        if t["destructor"] in fns and not (t["flags"] & 0x10000):   # not inherited
            if fns[t["destructor"]]["class"] != ti:
                probs.append("type %d destructor %d has class %d"
                             % (ti, t["destructor"], fns[t["destructor"]]["class"]))
        for n in t["nested_types"]:
            if n in ty and ty[n]["outer_class"] != ti:
                probs.append("type %d lists nested type %d whose outer class is %d"
                             % (ti, n, ty[n]["outer_class"]))
        if t["outer_class"] in ty and (ty[t["outer_class"]]["flags"] & F_fully_defined) \
                and (t["flags"] & F_fully_defined) and (t["flags"] & (F_struct | F_class | F_union | F_enum | F_typedef)):
            pass    # nested-type listing depends on visibility; only the forward direction is judged
        for d in t["derivations"]:
            if d["upcast"] in fns and fns[d["upcast"]]["class"] != ti:
                probs.append("type %d upcast %d belongs to class %d" % (ti, d["upcast"], fns[d["upcast"]]["class"]))
            if d["downcast"] in fns and fns[d["downcast"]]["class"] != d["base"]:
                probs.append("type %d downcast %d belongs to class %d, base is %d"
                             % (ti, d["downcast"], fns[d["downcast"]]["class"], d["base"]))
            if bool(d["flags"] & DF_upcast) != (d["upcast"] != 0):
                probs.append("type %d derivation flag/upcast mismatch" % ti)
            if bool(d["flags"] & DF_downcast) != (d["downcast"] != 0):
                probs.append("type %d derivation flag/downcast mismatch" % ti)
        if (t["flags"] & F_wrapped) and (t["flags"] & F_fully_defined) and t["wrapped_type"] == 0:
            pass    # pointer to an unrepresentable type (function type): recorded as 0 by design
    # an element/make_seq belongs to exactly the types that list it
    owner = {}
    for ti, t in ty.items():
        for e in t["elements"]:
            if e in owner:
                probs.append("element %d listed by types %d and %d" % (e, owner[e], ti))
            owner[e] = ti
    sowner = {}
    for ti, t in ty.items():
        for s in t["make_seqs"]:
            if s in sowner:
                probs.append("make_seq %d listed by types %d and %d" % (s, sowner[s], ti))
            sowner[s] = ti
    for si, s in ms.items():
        if si in sowner:
            for g in ("length_getter", "element_getter"):
                f = fns.get(s[g])
                if f is not None and f["class"] != sowner[si]:
                    probs.append("make_seq %d of type %d: %s %d belongs to class %d"
                                 % (si, sowner[si], g, s[g], f["class"]))
    # every make_seq belongs to exactly one type, every non-global element to exactly one
    for si in ms:
        if si not in sowner:
            probs.append("make_seq %d is listed by no type" % si)
    for ei, e in el.items():
        if not (e["flags"] & 1) and ei not in owner:          # F_global
            probs.append("element %d (%s) is not global and is listed by no type" % (ei, e["scoped_name"]))

    def bases_of(ti, seen=None):
        seen = seen if seen is not None else set()
        if ti in seen or ti not in ty:
            return seen
        seen.add(ti)
        for d in ty[ti]["derivations"]:
            bases_of(d["base"], seen)
        return seen
    # an element's accessor functions belong to the type that lists it, or to one of its bases
    for ei, e in el.items():
        if ei not in owner:
            continue
        ok_classes = bases_of(owner[ei])
        for slot in ELEMENT_FN_SLOTS:
            f = fns.get(e[slot])
            if f is not None and f["class"] not in ok_classes:
                probs.append("element %d (%s) of type %d: %s %d belongs to class %d"
                             % (ei, e["scoped_name"], owner[ei], slot, e[slot], f["class"]))

    # a wrapper's `this` parameter is (a pointer to) the class of its function
    def strip(ti, depth=0):
        t = ty.get(ti)
        while t is not None and (t["flags"] & F_wrapped) and depth < 8:
            ti = t["wrapped_type"]
            t = ty.get(ti)
            depth += 1
        return ti
    for wi, w in wr.items():
        f = fns.get(w["function"])
        if f is None or f["class"] == 0:
            continue
        for prm in w["parameters"]:
            if prm["flags"] & PF_is_this and prm["type"] != 0:
                tt = ty.get(strip(prm["type"]))
                if tt is not None and (tt["flags"] & F_atomic):
                    continue      # -c passes TypeHandle/ButtonHandle objects as their int index, `this` included
                if strip(prm["type"]) != f["class"]:
                    probs.append("wrapper %d of function %d (%s): `this` has type %d, the function's class is %d"
                                 % (wi, w["function"], f["scoped_name"], strip(prm["type"]), f["class"]))
    # --- wrapper names (the symbols the code must define): pairwise distinct identifiers
    wn = {}
    for wi, w in wr.items():
        n = w["name"]
        if n == "":
            continue
        if not _IDENT.match(n):
            probs.append("wrapper %d name %r is not an identifier" % (wi, n))
        if n in wn:
            probs.append("wrappers %d and %d share the name %s" % (wn[n], wi, n))
        wn[n] = wi
    # --- unique names
    un = {}
    for wi, w in wr.items():
        u = w["unique_name"]
        if u == "":
            continue
        if not _IDENT.match(u):
            probs.append("wrapper %d unique name %r is not an identifier" % (wi, u))
        if u in un:
            probs.append("wrappers %d and %d share unique name %s" % (un[u], wi, u))
        un[u] = wi
    # --- enumeration vectors (after load)
    if enum_vectors is not None:
        for name, kind in (("global_types", "types"), ("all_types", "types"),
                           ("global_functions", "functions"), ("all_functions", "functions"),
                           ("global_manifests", "manifests"), ("global_elements", "elements")):
            vec = enum_vectors[name]
            for v in vec:
                if v not in enum_vectors["db"][kind]:
                    probs.append("%s holds %d which is not a live %s index" % (name, v, kind))
            if len(set(vec)) != len(vec):
                probs.append("%s holds an index twice" % name)
    return probs, cov


# ---------------------------------------------------------------- C declarations
class NoCType(Exception):
    pass


def _atomic(t):
    tok, fl = t["atomic_token"], t["flags"]
    if tok == AT_string:
        return "const char *"
    if tok == AT_null:
        return "decltype(nullptr)"
    base = {AT_int: "int", AT_float: "float", AT_double: "double", AT_bool: "bool",
            AT_char: "char", AT_void: "void", AT_longlong: "long long"}.get(tok)
    if base is None:
        raise NoCType("atomic token %d" % tok)
    words = []
    if fl & F_unsigned:
        words.append("unsigned")
    if fl & F_signed:
        words.append("signed")
    if tok == AT_int:
        if fl & F_short:
            words.append("short")
        elif fl & F_long:
            words.append("long")
        words.append("int")
    elif tok == AT_longlong:
        words.append("long long")
    elif tok == AT_double and (fl & F_long):
        words += ["long", "double"]
    else:
        words.append(base)
    return " ".join(words)


def c_type(db, ti, depth=0):
    """Spell the C++ type that a type record describes, using only the record contents:
    atomic token + flags, pointer/const wrappers, and for named types the scoped name."""
    if depth > 20:
        raise NoCType("type nesting too deep")
    t = db["types"].get(ti)
    if t is None:
        raise NoCType("type %d does not exist" % ti)
    fl = t["flags"]
    if fl & F_atomic:
        return _atomic(t)
    if fl & F_wrapped:
        if t["wrapped_type"] == 0:
            raise NoCType("wrapped type 0")
        inner = c_type(db, t["wrapped_type"], depth + 1)
        if fl & F_pointer:
            return inner + " *"
        if fl & F_const:
            return inner + " const"
        raise NoCType("wrapped but neither pointer nor const")
    if fl & F_array:
        # only meaningful in parameter position, where it decays to a pointer
        if t["wrapped_type"] == 0:
            raise NoCType("array of type 0")
        return "%s [%d]" % (c_type(db, t["wrapped_type"], depth + 1), t["array_size"])
    if fl & (F_struct | F_class | F_union | F_enum | F_typedef) or t["true_name"]:
        n = t["true_name"] or t["scoped_name"]
        if not n:
            raise NoCType("unnamed")
        return "::" + n if re.match(r"^[A-Za-z_]", n) else n
    raise NoCType("flags %#x" % fl)


def c_signature(db, wi):
    """(return type, [parameter types]) of wrapper wi from the database alone."""
    w = db["wrappers"][wi]
    ret = c_type(db, w["return_type"]) if (w["flags"] & WF_has_return) else "void"
    return ret, [c_type(db, p["type"]) for p in w["parameters"]]


def c_signature_ext(db, wi):
    """c_signature, refusing what cannot be a C function signature."""
    w = db["wrappers"][wi]
    ret, params = c_signature(db, wi)
    if "[" in ret:
        raise NoCType("array return type")
    for p in w["parameters"]:
        if p["type"] == 0:
            raise NoCType("parameter type 0")
    if (w["flags"] & WF_has_return) and w["return_type"] == 0:
        raise NoCType("return type 0")
    return ret, params
