#!/bin/bash
# applyfix.sh <patch-file> <commit message (starts with fix:)> : apply one repair to /repo as its own commit
P=$1; shift; MSG="$*"
cd /repo || exit 2
if ! git apply --check "$P" 2>/dev/null; then
  if ! git apply --3way "$P"; then echo "CONFLICT applying $P"; git status --short | grep -v _build; exit 1; fi
else
  git apply "$P" || exit 1
fi
git add -A src cmake parser-inc 2>/dev/null
git commit -q -m "$MSG" || exit 1
echo "$(git rev-parse --short HEAD) $(basename $P)"
