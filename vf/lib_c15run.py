"""C15 execution layer: packs cases for harness/runmany.c, runs shards of them in parallel
(one process per case; fork server or plain exec), parses the per-case results."""
import os
import struct
import subprocess
import threading
import time

from vf import build, harness
from vf.core import HarnessError

# needles searched in stderr by runmany (bit index = position)
NEEDLES = [
    b"ERROR: AddressSanitizer",      # 0
    b"runtime error:",               # 1  UBSan
    b"terminate called",             # 2  uncaught exception / std::terminate
    b" error: ",                     # 3  CPPPreprocessor::error() diagnostics
    b"Assertion",                    # 4  assert() in the Debug (asan) flavour
    b"Error in parsing",             # 5  parse_file
    b"failed to parse file",         # 6  interrogate
    b"Error in preprocessing",       # 7  parse_file -E
    b"ERROR: LeakSanitizer",         # 8
    b"warning: ",                    # 9
    b"pure virtual method called",   # 10
    b"SUMMARY: UndefinedBehaviorSanitizer",  # 11
    b" expanded to: ",               # 12 error inside a macro expansion
    b"Unclosed string",              # 13 the diagnostics of the hand-written scanners ...
    b"unterminated",                 # 14
    b"Not enough arguments",         # 15
    b"Too many arguments",           # 16
    b"missing terminating",          # 17
    b"Ignoring invalid expression",  # 18
    b"digit separator",              # 19
    b"literal suffix",               # 20
    b"missing ')'",                  # 21
]
(N_ASAN, N_UBSAN, N_TERMINATE, N_ERROR, N_ASSERT, N_EPARSE, N_IFAIL, N_EPRE, N_LSAN, N_WARN, N_PUREV,
 N_UBSUM, N_EXPANDED) = [1 << i for i in range(13)]
N_SCANNER = sum(1 << i for i in range(12, len(NEEDLES)))
INTERESTING = N_ASAN | N_UBSAN | N_TERMINATE | N_ASSERT | N_LSAN | N_PUREV | N_UBSUM

OUTPUTS = ["o.cxx", "o.in", "o.txt"]


def _s(b):
    if isinstance(b, str):
        b = b.encode("latin-1")
    return struct.pack("<I", len(b)) + b


def pack(cases, outputs=OUTPUTS):
    """cases: list of (keep, [(name, bytes)], [arg, ...])"""
    out = [b"C15\n", struct.pack("<I", len(outputs))]
    out += [_s(o) for o in outputs]
    out.append(struct.pack("<I", len(NEEDLES)))
    out += [_s(n) for n in NEEDLES]
    out.append(struct.pack("<I", INTERESTING))
    out.append(struct.pack("<I", len(cases)))
    for keep, files, args in cases:
        out.append(struct.pack("<BI", 1 if keep else 0, len(files)))
        for name, content in files:
            out.append(_s(name))
            out.append(_s(content))
        out.append(struct.pack("<I", len(args)))
        for a in args:
            if isinstance(a, str):
                a = a.encode("latin-1")
            if b"\0" in a:
                raise HarnessError("NUL byte in an argv string")
            out.append(_s(a))
    return b"".join(out)


class Res:
    __slots__ = ("rc", "sig", "timeout", "mask", "errlen", "outmask", "us", "memkill", "err")

    def __init__(self, line):
        f = line.split(" ")
        self.rc, self.sig, self.timeout, self.mask = int(f[1]), int(f[2]), int(f[3]), int(f[4])
        self.errlen, self.outmask, self.us, self.memkill = int(f[5]), int(f[6]), float(f[7]), int(f[8])
        self.err = bytes.fromhex(f[9]).decode("latin-1") if len(f) > 9 and f[9] else ("" if len(f) > 9 else None)

    def as_dict(self):
        return {"rc": self.rc, "sig": self.sig, "timeout": self.timeout, "mask": self.mask,
                "stderr_len": self.errlen, "outmask": self.outmask, "memkill": self.memkill,
                "stderr": self.err}


_tools = {}
_tools_lock = threading.Lock()


def launcher():
    """Compile harness/runmany.c (plain C, no sanitizer) and harness/c15fs.c."""
    with _tools_lock:
        if "runmany" not in _tools:
            src = os.path.join(harness.HARN, "runmany.c")
            outd = os.path.join(build.build_root(), "seams")
            out = os.path.join(outd, "runmany")
            with build.lock("seam-runmany"):
                os.makedirs(outd, exist_ok=True)
                if (not os.path.exists(out)) or os.path.getmtime(src) > os.path.getmtime(out):
                    p = subprocess.run(["gcc", "-O2", "-Wall", "-o", out + ".tmp", src],
                                       stdout=subprocess.PIPE, stderr=subprocess.STDOUT, text=True)
                    if p.returncode != 0:
                        raise HarnessError("compiling runmany failed:\n" + p.stdout[-3000:])
                    os.replace(out + ".tmp", out)
            _tools["runmany"] = out
            _tools["fs"] = harness.compile_so("c15fs")
        return _tools["runmany"], _tools["fs"]


def tool_env(b):
    env = build.tool_env(b)
    env["ASAN_OPTIONS"] += ":verify_asan_link_order=0:handle_abort=0:detect_stack_use_after_return=0"
    # the UBSan message names file:line itself; symbolised stack traces cost ~0.1 s per report
    env["UBSAN_OPTIONS"] = "print_stacktrace=0:halt_on_error=1:exitcode=98"
    return env


class Runner:
    """Runs shards of cases with one worker directory per thread slot."""

    def __init__(self, scratch, mode="fs", timeout_ms=10000, rss_limit_mb=2048):
        self.scratch = scratch
        self.mode = mode
        self.timeout_ms = timeout_ms
        self.rss = rss_limit_mb
        self.runmany, self.fs = launcher()
        self.n = 0
        self.retries = 0
        self.lock = threading.Lock()

    def run_shard(self, b, tool, cases, mode=None, timeout_ms=None):
        """cases: list of (keep, files, args) -> list of Res (same order)."""
        if not cases:
            return []
        mode = mode or self.mode
        with self.lock:
            self.n += 1
            tag = "w%06d" % self.n
        wd = os.path.join(self.scratch, tag)
        os.makedirs(wd, exist_ok=True)
        cf = os.path.join(self.scratch, tag + ".cases")
        rf = os.path.join(self.scratch, tag + ".res")
        with open(cf, "wb") as f:
            f.write(pack(cases))
        env = tool_env(b)
        env["C15FS_SO"] = self.fs
        cmd = [self.runmany, mode, wd, cf, rf, str(timeout_ms or self.timeout_ms), str(self.rss), b[tool]]
        # the builds under .build/<flavour> are shared: another check starting up may relink the tool
        # while this shard launches it (exec then fails for a moment); such a shard is simply run again
        for attempt in range(4):
            p = subprocess.run(cmd, env=env, stdout=subprocess.PIPE, stderr=subprocess.PIPE, text=True)
            if p.returncode == 0 or "did not come up" not in p.stderr:
                break
            with self.lock:
                self.retries += 1
            time.sleep(5 * (attempt + 1))
        if p.returncode != 0:
            raise HarnessError("runmany failed (%s): %s" % (p.returncode, p.stderr[-2000:]))
        lines = open(rf).read().splitlines()
        if len(lines) != len(cases):
            raise HarnessError("runmany returned %d results for %d cases" % (len(lines), len(cases)))
        res = [Res(l) for l in lines]
        for fn in (cf, rf):
            os.unlink(fn)
        try:
            os.rmdir(wd)
        except OSError:
            import shutil
            shutil.rmtree(wd, ignore_errors=True)
        return res
