"""Run checks against a seeded property-breaking change kept under /verif/seeded/<id>/.

  python3 -m vf.seedtest <seeded-id> [--checks C19,C20] [--tier quick] [--inplace]

default   : fresh scratch worktree of /repo HEAD + patch, checks run with VERIF_REPO
            pointing at it (own build dirs), everything removed afterwards.
--inplace : the prescribed way - `git -C /repo apply`, run the checks, `git -C /repo
            checkout -- .` (only when nothing else is using /repo's working tree).

Appends the outcome to seeded/<id>/runs.jsonl:  which checks printed VIOLATION.
"""
import argparse
import glob
import hashlib
import json
import os
import shutil
import subprocess
import sys
import time

VERIF = os.path.dirname(os.path.dirname(os.path.abspath(__file__)))


def sh(cmd, **kw):
    return subprocess.run(cmd, stdout=subprocess.PIPE, stderr=subprocess.STDOUT, text=True, **kw)


def main():
    ap = argparse.ArgumentParser()
    ap.add_argument("sid")
    ap.add_argument("--checks", default=None)
    ap.add_argument("--tier", default="quick")
    ap.add_argument("--inplace", action="store_true")
    ap.add_argument("--deadline", default="1200")
    a = ap.parse_args()
    sd = os.path.join(VERIF, "seeded", a.sid)
    meta = json.load(open(os.path.join(sd, "meta.json")))
    checks = a.checks.split(",") if a.checks else [meta["property"]]
    patch = os.path.join(sd, "patch.diff")
    env = dict(os.environ, VERIF_DEADLINE_S=a.deadline,
               VERIF_EVIDENCE_DIR=os.path.join(VERIF, ".build", "seed-evidence"))
    wt = None
    if a.inplace:
        p = sh(["git", "-C", "/repo", "apply", patch])
        if p.returncode != 0:
            print("patch does not apply to /repo:\n" + p.stdout)
            return 2
    else:
        wt = "/tmp/seedrun-" + a.sid
        sh(["git", "-C", "/repo", "worktree", "remove", "--force", wt])
        shutil.rmtree(wt, ignore_errors=True)
        p = sh(["git", "-C", "/repo", "worktree", "add", "--detach", wt, "HEAD"])
        if p.returncode != 0:
            print(p.stdout)
            return 2
        p = sh(["git", "-C", wt, "apply", patch])
        if p.returncode != 0:
            print("patch does not apply to /repo HEAD:\n" + p.stdout)
            sh(["git", "-C", "/repo", "worktree", "remove", "--force", wt])
            return 2
        env["VERIF_REPO"] = wt
    results = {}
    try:
        for c in checks:
            t0 = time.time()
            p = sh([os.path.join(VERIF, "check"), c, "--tier", a.tier], env=env, cwd=VERIF)
            viol = [l for l in p.stdout.splitlines() if l.startswith("VIOLATION")]
            results[c] = {"exit": p.returncode, "violations": len(viol),
                          "first": viol[:3], "wall_s": round(time.time() - t0, 1),
                          "tail": p.stdout.splitlines()[-3:]}
            print(c, "exit", p.returncode, "violations", len(viol), "%.0fs" % (time.time() - t0), flush=True)
            if p.returncode not in (0, 1):
                print(p.stdout[-3000:])
    finally:
        if a.inplace:
            sh(["git", "-C", "/repo", "checkout", "--", "."])
        else:
            sh(["git", "-C", "/repo", "worktree", "remove", "--force", wt])
            shutil.rmtree(wt, ignore_errors=True)
            tag = hashlib.sha1(wt.encode()).hexdigest()[:8]
            for d in glob.glob(os.path.join(VERIF, ".build", "*-" + tag + "*")):
                if os.path.isdir(d):
                    shutil.rmtree(d, ignore_errors=True)
                else:
                    os.unlink(d)
    head = sh(["git", "-C", "/repo", "rev-parse", "--short", "HEAD"]).stdout.strip()
    vhead = sh(["git", "-C", VERIF, "rev-parse", "--short", "HEAD"]).stdout.strip()
    with open(os.path.join(sd, "runs.jsonl"), "a") as f:
        f.write(json.dumps({"repo_head": head, "verif_head": vhead, "tier": a.tier,
                            "inplace": a.inplace, "results": results}) + "\n")
    return 0


if __name__ == "__main__":
    sys.exit(main())
