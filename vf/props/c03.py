"""C03 -- whenever interrogate exits 0, what it wrote compiles, links and initialises, and
all wrapper symbols / unique names are distinct valid identifiers.

Shape S (small-scope program x configuration enumeration), executed on the real tools.

  programs        headers built from *atoms* (vf/lib_c03.py): "plain" atoms (classes,
                  inheritance, properties, sequences, nested types, namespaces, enums,
                  operators, typedef'd templates, globals, manifests, scalars, arrays,
                  function pointers, strings) and "nasty" atoms (names that are Python
                  keywords or collide with generated locals, string/char constants and
                  comments with quotes / backslashes / newlines / ??/ / */, every kind of
                  default-argument expression, macros exported as constants, types that
                  need qualification, name-mangling collisions, overload sets)
  configurations  {-c,-python,-python-native} x {none,-fnames,-fptrs} x subsets of
                  {-string,-true-names,-unique-names,-nodb,-do-module,-promiscuous,
                  -nomangle,-assert}; quick = all sets within 2 deviations of a back-end's
                  default, thorough = the whole lattice
  collisions      one 20 000-function library; colliding 24-bit signature hashes are read
                  off its database; every colliding group is rebuilt as a reduced library
                  in every declaration order, for the two back-ends that use hash names

  across libraries  two library names whose 24-bit hashes collide are found by probing the
                  tool with 4 000 names; a module is built from two such libraries, each
                  wrapping one member of a colliding signature pair
  batching        every atom is also run alone under six option sets, and every header that
                  fails is split into its atoms

Oracle: exit 0 => g++ accepts the -oc file against the original header; every wrapper
name recorded in the database is defined exactly once in the object (nm); wrapper names
and unique names are pairwise distinct valid identifiers; interrogate_module output
compiles, links with the code files into one .so and `import` runs the module init.
A batched header that fails is split into its atoms; failures are grouped by
(atom, back-end, normalised first compiler error) and reported once, for the smallest
option set of the group, after two confirming re-runs in isolation.
"""
import itertools
import os
import re
import shutil
import sys

from vf import build, lib_c03 as L, lib_c11 as D, pynative, tools
from vf.core import Check, HarnessError, pmap, run_main

PID = "C03"
IDENT = re.compile(r"^[A-Za-z_][A-Za-z0-9_]*$")


def norm_sig(text):
    s = L.first_error(text)
    s = re.sub(r"_in[CP][A-Za-z0-9_]{8,}", "_inX", s)
    s = re.sub(r"'[^']*\b_inX\([^']*\)'", "'_inX(...)'", s)      # a wrapper's declaration, whatever its types
    s = re.sub(r"\b(Dtool_\w+?)_\d+\b", r"\1_N", s)
    return s


# ------------------------------------------------------------------ one evaluation
def evaluate(b, root, names, opt, tag, mode):
    """Run one (atoms, option set).  mode: 'syntax' | 'object'.
    Returns dict(status, sig, detail...).  status in:
      rejected      interrogate refused the option set (exit != 0)
      noexit0       interrogate exited != 0 on a header g++ accepts (C03 does not apply)
      ok | compile | names | symbols"""
    c = L.Case(b, root, names, opt, tag=tag)
    res = {"opt": opt.key, "atoms": list(c.names), "status": "ok", "sig": "", "wrappers": 0,
           "cmd": None}
    if not c.names:
        res["status"] = "empty"
        return res
    r = c.interrogate()
    res["cmd"] = " ".join(r.cmd)
    res["rc"] = r.rc
    if r.timeout or r.rc is None or r.rc < 0:
        res.update(status="crash", sig="interrogate %s" % ("timeout" if r.timeout else "signal %s" % r.rc),
                   stderr=r.err[-800:])
        return res
    if r.rc != 0:
        res.update(status="rejected" if opt.rejected() else "noexit0", stderr=r.err[-600:])
        if os.path.exists(c.oc) and False:
            pass
        c.cleanup()
        return res
    if not os.path.exists(c.oc):
        res.update(status="compile", sig="exit 0 but no code file")
        return res
    code = open(c.oc, errors="replace").read()
    # --- database names
    db = None
    if not opt.has("nodb"):
        try:
            db = D.parse_in(open(c.od, "rb").read())
        except (D.FormatError, OSError) as e:
            res.update(status="names", sig="database unreadable: %s" % e)
            return res
        names_seen, uniq_seen = {}, {}
        for wi, w in sorted(db["wrappers"].items()):
            for fld, seen in (("name", names_seen), ("unique_name", uniq_seen)):
                v = w[fld]
                if v == "":
                    continue
                if not IDENT.match(v):
                    res.update(status="names", sig="wrapper %s %r is not an identifier" % (fld, v))
                    return res
                if v in seen:
                    res.update(status="names", sig="two wrappers share %s" % fld,
                               detail="%s: wrappers %d and %d" % (v, seen[v], wi))
                    return res
                seen[v] = wi
        res["wrappers"] = len(db["wrappers"])
    else:
        res["wrappers"] = len(set(re.findall(r"^(_in[CP]\w+)\(", code, re.M))) or \
            len(re.findall(r"^static PyObject \*Dtool_\w+\(", code, re.M))
    # --- the compiler
    if mode == "object":
        obj = os.path.join(c.dir, "igate.o")
        rc, out = L.compile_obj(b, c.dir, c.oc, obj)
    else:
        rc, out = L.syntax_only(b, c.dir, c.oc)
    if rc != 0:
        res.update(status="compile", sig=norm_sig(out), gxx=out[:3000])
        return res
    if mode == "object" and db is not None:
        syms = {}
        p = tools.run(["nm", "-C", "--defined-only", obj], cwd=c.dir)
        for l in p.out.splitlines():
            m = re.match(r"^[0-9a-f]*\s+([A-Za-z])\s+(.*)$", l)
            if m and m.group(1) in "TtWw":
                base = m.group(2).split("(")[0].strip()
                syms[base] = syms.get(base, 0) + 1
        for wi, w in sorted(db["wrappers"].items()):
            if w["name"] and syms.get(w["name"], 0) != 1:
                res.update(status="symbols",
                           sig="wrapper name in the database is defined %d times in the object"
                               % syms.get(w["name"], 0),
                           detail="wrapper %d %s" % (wi, w["name"]))
                return res
    c.cleanup()
    return res


# --------------------------------------------------------------------- link + import
def import_case(b, root, libs, opt, tag):
    """libs: [(library name, atom names)].  Full build of one extension module and import.
    Returns dict(status in ok|skipped|interrogate|module|compile|link|import, sig, ...)."""
    d = os.path.join(root, tag)
    shutil.rmtree(d, ignore_errors=True)
    os.makedirs(d)
    res = {"opt": opt.key, "libs": [(l, list(L.atoms_for(n, opt))) for l, n in libs], "status": "ok",
           "sig": "", "steps": []}
    srcs, ins = [], []
    for lib, names in libs:
        c = L.Case(b, d, [n for n in names if not L.ATOM_BY_NAME[n].noimport], opt, tag=lib,
                   library=lib)
        if not c.names:
            continue
        r = c.interrogate()
        res["steps"].append(" ".join(r.cmd))
        if r.rc != 0:
            res.update(status="interrogate", sig="interrogate exit %s" % r.rc, out=r.err[-800:])
            return res
        srcs.append((c.dir, c.oc))
        srcs.append((c.dir, os.path.join(c.dir, "defs.cxx")))
        if not opt.has("nodb"):
            ins.append(c.od)
    modname = None
    be = opt.backend
    if be != "c" and not opt.has("do-module"):
        if opt.has("nodb"):
            res["status"] = "skipped"     # no database: interrogate_module has nothing to read
            return res
        modcxx = os.path.join(d, "m_module.cxx")
        cmd = [b["interrogate_module"], "-" + be, "-module", "m", "-library", "m", "-oc", modcxx] + ins
        r = tools.run(cmd, cwd=d, timeout=300, b=b)
        res["steps"].append(" ".join(cmd))
        if r.rc != 0 or not os.path.exists(modcxx):
            res.update(status="module", sig="interrogate_module exit %s" % r.rc, out=(r.err + r.out)[-800:])
            return res
        srcs.append((d, modcxx))
        inits = L.init_names(modcxx)
    elif be != "c":
        inits = L.init_names(srcs[0][1])
        if be == "python-native":
            # with -do-module there is no interrogate_module pass, and only that pass pastes the
            # py_panda runtime of the tree into its output; take the runtime from a module file
            # generated for an unrelated one-class library
            rt = runtime_unit(b, d)
            if rt is None:
                res.update(status="module", sig="could not generate the runtime support unit")
                return res
            srcs.append((d, rt))
    else:
        inits = []
    if be != "c":
        if len(inits) != 1:
            res.update(status="module", sig="expected exactly one PyInit_ function, found %s" % inits)
            return res
        modname = inits[0]

    def cc(i_src):
        i, (sd, src) = i_src
        obj = os.path.join(d, "o%d.o" % i)
        rc, out = L.gxx(L.cxx_flags(b, [sd, d]) + ["-c", src, "-o", obj], d)
        return obj, rc, out, src

    objs = []
    for obj, rc, out, src in pmap(cc, list(enumerate(srcs)), workers=4):
        if rc != 0:
            res.update(status="compile", sig=norm_sig(out), out=out[:3000], src=os.path.basename(src))
            return res
        objs.append(obj)
    so = os.path.join(d, (modname or "libc") + ".so")
    # -z defs: every symbol the generated code references must be defined by the code files,
    # the companion definitions or libpython; otherwise import fails at dlopen time anyway
    rc, out = L.gxx(["-shared", "-o", so] + objs, d)
    res["steps"].append("g++ -shared -o %s %s" % (so, " ".join(objs)))
    if rc != 0:
        res.update(status="link", sig=norm_sig(out), out=out[:3000])
        return res
    if be == "c":
        code = "import ctypes,sys; ctypes.CDLL(%r, mode=ctypes.RTLD_GLOBAL|2); print('LOADED')" % so
    else:
        code = ("import sys; sys.path.insert(0, %r)\nimport %s as M\n"
                "print('LOADED', len(dir(M)))" % (d, modname))
    r = pynative.run_python(code, so, timeout=120)
    res["steps"].append("python3 -c %r" % code)
    if r.rc != 0 or "LOADED" not in r.out:
        tail = (r.err or "").strip().splitlines()
        res.update(status="import", sig=(tail[-1] if tail else "rc=%s" % r.rc)[:240],
                   out=(r.err or "")[-1500:])
        return res
    res["loaded"] = r.out.strip()
    shutil.rmtree(d, ignore_errors=True)
    return res


# ------------------------------------------------------------------- mixed modules
MIXED_LIBS = [("mx1", ["simple", "globals", "cstrings"]), ("mx2", ["enums", "props"]),
              ("mx3", ["operators", "nested"])]


def mixed_build_lib(b, root, be, lib, atoms, lo):
    """One library of a mixed module: interrogate + compile to an object (shared by every
    module that uses this (library, option set))."""
    c = L.Case(b, os.path.join(root, "mxlib-" + be), atoms, lo, tag="%s@%s" % (lib, lo.key), library=lib)
    r = c.interrogate()
    out = {"lib": lib, "opt": lo.key, "dir": c.dir, "cmd": " ".join(r.cmd), "status": "ok", "sig": "",
           "in": None if lo.has("nodb") else c.od}
    if r.rc != 0:
        out.update(status="noexit0" if (r.rc or 0) > 0 else "crash", sig="interrogate exit %s" % r.rc)
        return out
    obj = os.path.join(c.dir, "igate.o")
    rc, txt = L.compile_obj(b, c.dir, c.oc, obj)
    if rc != 0:
        out.update(status="compile", sig=norm_sig(txt), out=txt[:2000])
        return out
    dobj = os.path.join(c.dir, "defs.o")
    rc, txt = L.compile_obj(b, c.dir, os.path.join(c.dir, "defs.cxx"), dobj)
    if rc != 0:
        raise HarnessError("companion definitions of %s do not compile: %s" % (lib, L.first_error(txt)))
    out["objs"] = [obj, dobj]
    return out


def mixed_module(b, root, be, parts, tag):
    """parts: [built library dict].  interrogate_module over the libraries that have a database,
    compile, link with ALL code files, import."""
    d = os.path.join(root, tag)
    shutil.rmtree(d, ignore_errors=True)
    os.makedirs(d)
    res = {"status": "ok", "sig": "", "steps": [p["cmd"] for p in parts]}
    ins = [p["in"] for p in parts if p["in"]]
    if not ins:
        res["status"] = "skipped"        # no library has a database: nothing to make a module of
        return res
    modcxx = os.path.join(d, "m_module.cxx")
    cmd = [b["interrogate_module"], "-" + be, "-module", "m", "-library", "m", "-oc", modcxx] + ins
    r = tools.run(cmd, cwd=d, timeout=300, b=b)
    res["steps"].append(" ".join(cmd))
    if r.rc != 0 or not os.path.exists(modcxx):
        res.update(status="module", sig="interrogate_module exit %s" % r.rc, out=(r.err + r.out)[-800:])
        return res
    mobj = os.path.join(d, "m_module.o")
    rc, out = L.gxx(L.cxx_flags(b, [d]) + ["-c", modcxx, "-o", mobj], d)
    if rc != 0:
        res.update(status="compile", sig=norm_sig(out), out=out[:2500])
        return res
    so = os.path.join(d, "m.so")
    rc, out = L.gxx(["-shared", "-o", so, mobj] + [o for p in parts for o in p["objs"]], d)
    if rc != 0:
        res.update(status="link", sig=norm_sig(out), out=out[:2500])
        return res
    code = "import sys; sys.path.insert(0, %r)\nimport m as M\nprint('LOADED', len(dir(M)))" % d
    r = pynative.run_python(code, so, timeout=120)
    if r.rc != 0 or "LOADED" not in r.out:
        tail = (r.err or "").strip().splitlines()
        res.update(status="import", sig=(tail[-1] if tail else "rc=%s" % r.rc)[:240], out=(r.err or "")[-1500:])
        return res
    res["loaded"] = r.out.strip()
    shutil.rmtree(d, ignore_errors=True)
    return res


def mixed_assignments(be, thorough):
    """Per-library option assignments for modules of 2 (and 3) libraries."""
    import itertools
    allo = L.LibOpt.all(be)
    plain = [o for o in allo if not o.has("string") and not o.has("nodb")]
    out = []
    if be == "python" or thorough:
        out += [(a, c) for a in allo for c in allo]                    # every pair of the 24
    else:
        # python-native does not look at the naming flags when it writes the module glue: all
        # naming pairs, plus every -string/-nodb combination on both sides for the default naming
        out += [(a, c) for a in plain for c in plain]
        dflt = [o for o in allo if not set(o.flags) - {"string", "nodb"}]
        out += [(a, c) for a in dflt for c in dflt if (a, c) not in out]
    if thorough:
        out += list(itertools.product(plain, repeat=3))
    else:
        out += [(a, c, e) for a in plain for c in plain for e in (plain[0], plain[3])
                if a.key != c.key][:(20 if be == "python" else 8)]
    return out


def runtime_unit(b, d):
    rd = os.path.join(d, "rt")
    os.makedirs(rd, exist_ok=True)
    with open(os.path.join(rd, "rt.h"), "w") as f:
        f.write("class VfRtDummy {\n__published:\n  VfRtDummy() {}\n};\n")
    r = tools.interrogate(b, ["-oc", "rt_igate.cxx", "-od", "rt.in", "-module", "vfrt", "-library", "vfrt",
                              "-python-native", "rt.h"], cwd=rd)
    if r.rc != 0:
        return None
    out = os.path.join(rd, "vfrt_module.cxx")
    r = tools.run([b["interrogate_module"], "-python-native", "-module", "vfrt", "-library", "vfrt",
                   "-oc", out, "rt.in"], cwd=rd, b=b)
    if r.rc != 0 or not os.path.exists(out):
        return None
    # keep the pasted runtime, drop the module table (it refers to the dummy library)
    txt = open(out, errors="replace").read()
    cut = txt.rfind("extern const struct LibraryDef vfrt_moddef;")
    if cut < 0:
        return None
    with open(out, "w") as f:
        f.write(txt[:cut])
    return out


# ---------------------------------------------------------------- hash collisions
def collision_library(n):
    out = ["__begin_publish"]
    for i in range(n):
        out.append("inline int hc_%d(int a) { return a + %d; }" % (i, i))
    out.append("__end_publish")
    return "\n".join(out) + "\n"


def find_collisions(b, root, n):
    """Run the n-function library once per hash-using back-end and read the colliding
    signature hashes off the database: a wrapper whose name is longer than
    prefix + library hash + 4 was extended because its 24-bit hash collided."""
    d = os.path.join(root, "hc-big")
    os.makedirs(d, exist_ok=True)
    with open(os.path.join(d, "h.h"), "w") as f:
        f.write(collision_library(n))
    r = tools.interrogate(b, ["-oc", "big.cxx", "-od", "big.in", "-module", "m", "-library", "l",
                              "-c", "-fnames", "h.h"], cwd=d, timeout=600)
    if r.rc != 0:
        raise HarnessError("collision library run failed: %s" % r.brief())
    db = D.parse_in(open(os.path.join(d, "big.in"), "rb").read())
    plen = len("_inC") + len(db["library_hash_name"])
    # interfaceMaker.cxx::hash_function_signature: the first remap keeps its 4-character name
    # (its _hash is extended but the names were already formed), every later remap with the
    # same 24-bit hash gets 4 (+1) more characters; so the members of a colliding group are
    # the wrappers whose hash part starts with the same four characters
    by4 = {}
    for wi, w in db["wrappers"].items():
        h = w["name"][plen:]
        by4.setdefault(h[:4], []).append(db["functions"][w["function"]]["name"])
    groups = {k: v for k, v in by4.items() if len(v) > 1}
    shutil.rmtree(d, ignore_errors=True)
    return {k: sorted(v, key=lambda s: int(s.split("_")[1])) for k, v in sorted(groups.items())}, \
        len(db["wrappers"])


def collision_case(b, root, fns, opt, tag, header=None):
    """Reduced library: exactly the colliding functions, in the given order (or the given
    header text of a constructed group)."""
    d = os.path.join(root, tag)
    os.makedirs(d, exist_ok=True)
    body = ["__begin_publish"] + ["inline int %s(int a) { return a; }" % f for f in fns] + ["__end_publish"]
    with open(os.path.join(d, "h.h"), "w") as f:
        f.write(header if header is not None else "\n".join(body) + "\n")
    args = ["-oc", "x.cxx", "-od", "x.in", "-module", "m", "-library", "l"] + opt.argv() + ["h.h"]
    r = tools.interrogate(b, args, cwd=d)
    res = {"opt": opt.key, "fns": list(fns), "cmd": " ".join(r.cmd), "status": "ok", "sig": "",
           "header": header}
    if r.rc is None or r.rc < 0:
        res.update(status="crash", sig="interrogate %s" % ("timeout" if r.timeout else "signal %s" % r.rc))
        return res
    if r.rc != 0:
        res.update(status="noexit0", sig="interrogate exit %s" % r.rc, stderr=r.err[-500:])
        return res
    db = D.parse_in(open(os.path.join(d, "x.in"), "rb").read())
    names = [w["name"] for _, w in sorted(db["wrappers"].items())]
    uniq = [w["unique_name"] for _, w in sorted(db["wrappers"].items())]
    res["names"] = names
    plen = 4 + len(db["library_hash_name"])
    res["collided"] = sum(1 for n in names if len(n) > plen + 4)
    res["same4"] = len(names) - len(set(n[plen:plen + 4] for n in names))
    for what, lst in (("wrapper names", names), ("unique names", uniq)):
        if len(set(lst)) != len(lst):
            res.update(status="names", sig="colliding hashes give equal %s" % what, detail=lst)
            return res
        for n in lst:
            if not IDENT.match(n):
                res.update(status="names", sig="%s: %r is not an identifier" % (what, n))
                return res
    obj = os.path.join(d, "x.o")
    rc, out = L.compile_obj(b, d, os.path.join(d, "x.cxx"), obj)
    if rc != 0:
        res.update(status="compile", sig=norm_sig(out), gxx=out[:2000])
        return res
    p = tools.run(["nm", "-C", "--defined-only", obj], cwd=d)
    defined = []
    for l in p.out.splitlines():
        m = re.match(r"^[0-9a-f]*\s+([A-Za-z])\s+(.*)$", l)
        if m and m.group(1) in "TtWw":
            defined.append(m.group(2).split("(")[0].strip())
    for n in names:
        if defined.count(n) != 1:
            res.update(status="symbols", sig="wrapper defined %d times" % defined.count(n), detail=n)
            return res
    shutil.rmtree(d, ignore_errors=True)
    return res


def find_library_collision(b, root, n=4000):
    """Two library names with the same library_hash_name (read off the database header)."""
    d = os.path.join(root, "hc-libs")
    os.makedirs(d, exist_ok=True)
    with open(os.path.join(d, "h.h"), "w") as f:
        f.write("__begin_publish\ninline int one(int a) { return a; }\n__end_publish\n")

    def run(i):
        name = "lib%d" % i
        od = os.path.join(d, "%d.in" % i)
        r = tools.interrogate(b, ["-od", od, "-module", "m", "-library", name, "-c", "-fnames", "h.h"], cwd=d)
        if r.rc != 0:
            return name, None
        try:
            h = D.parse_in(open(od, "rb").read())["library_hash_name"]
        finally:
            os.unlink(od)
        return name, h
    seen = {}
    pair = None
    for name, h in pmap(run, range(n)):
        if h is None:
            raise HarnessError("library-name probe failed for %s" % name)
        if h in seen and pair is None:
            pair = (seen[h], name, h)
        seen.setdefault(h, name)
    shutil.rmtree(d, ignore_errors=True)
    return pair, len(seen)


def crosslib_case(b, root, libs, opt, tag):
    """libs: [(library name, [function names])] -- one module made of libraries whose names
    hash alike, each holding one member of a colliding signature pair."""
    d = os.path.join(root, tag)
    shutil.rmtree(d, ignore_errors=True)
    os.makedirs(d)
    res = {"opt": opt.key, "libs": libs, "status": "ok", "sig": "", "steps": []}
    objs, ins, names = [], [], []
    for lib, fns in libs:
        ld = os.path.join(d, lib)
        os.makedirs(ld)
        with open(os.path.join(ld, "h.h"), "w") as f:
            f.write("__begin_publish\n" + "".join("inline int %s(int a) { return a; }\n" % x for x in fns)
                    + "__end_publish\n")
        args = ["-oc", "x.cxx", "-od", "%s.in" % lib, "-module", "m", "-library", lib] + opt.argv() + ["h.h"]
        r = tools.interrogate(b, args, cwd=ld)
        res["steps"].append(" ".join(r.cmd))
        if r.rc != 0:
            res.update(status="noexit0", sig="interrogate exit %s" % r.rc)
            return res
        db = D.parse_in(open(os.path.join(ld, lib + ".in"), "rb").read())
        names += [(lib, w["name"], w["unique_name"]) for _, w in sorted(db["wrappers"].items())]
        res.setdefault("libhash", []).append(db["library_hash_name"])
        obj = os.path.join(d, lib + ".o")
        rc, out = L.compile_obj(b, ld, os.path.join(ld, "x.cxx"), obj)
        if rc != 0:
            res.update(status="compile", sig=norm_sig(out), out=out[:1500])
            return res
        objs.append(obj)
        ins.append(os.path.join(ld, lib + ".in"))
    res["names"] = names
    res["same_libhash"] = len(set(res["libhash"])) == 1
    un = [u for _, _, u in names]
    if len(set(un)) != len(un):
        res.update(status="names", sig="two wrappers of one module share a unique name", detail=names)
        return res
    rc, out = L.gxx(["-shared", "-o", os.path.join(d, "m.so")] + objs, d)
    res["steps"].append("g++ -shared " + " ".join(objs))
    if rc != 0:
        res.update(status="link", sig=norm_sig(out), out=out[:1500])
        return res
    shutil.rmtree(d, ignore_errors=True)
    return res


# --------------------------------------------------------------------------- main
IMPORT_QUICK = [
    "python+fnames", "python+fnames+do-module", "python+fnames+string",
    "python+fnames+unique-names+promiscuous",
    "python-native", "python-native+do-module", "python-native+do-module+nodb",
    "python-native+string", "python-native+fptrs+unique-names", "python-native+nomangle+assert",
    "c+fnames", "c+fptrs+unique-names",
]


def headers_for(tier):
    plain = L.GROUPS["plain"]
    nasty = L.GROUPS["nasty"]
    # atoms with an open known finding live in a header of their own, so that they cannot
    # mask (or slow down the isolation of) anything else
    # "strings": element {char, wchar_t, unsigned char, signed char} x cv-placement/declarator
    # {T*, const T*, T*const, const T*const, T*&, const T*&, T[8], const T[8]} (+ typedef of each)
    # x role {parameter, return, data member}
    hs = [("plain", plain), ("nasty", nasty), ("strings", L.GROUPS["strings"]),
          ("tdepth", L.GROUPS["tdepth"]),      # typedef chains of depth 0..3 before array/char*/enum/class
          ("remaps", ["handles", "stringptrs"]), ("adv-bytevector", ["bytevector"])] + \
        [("adv-" + a, [a]) for a in L.GROUPS["adversarial"]]
    if tier == "thorough":
        hs.append(("all-reversed", list(reversed(plain + nasty))))
        hs.append(("interleaved", [x for p in itertools.zip_longest(nasty, plain) for x in p if x]))
    return hs


def mode_for(opt):
    return "syntax" if opt.backend == "python-native" else "object"


def main():
    ck = Check(PID, level="model_checking")
    b = build.build("rel")
    if ck.replay:
        return replay(ck, b)
    thorough = ck.tier == "thorough"
    root = ck.scratch()
    hdrs = headers_for(ck.tier)
    hdr_atoms = dict(hdrs)
    opts = L.lattice(None if thorough else 2)
    want = lambda fam: ck.only is None or fam in ck.only

    # precondition: g++ accepts every header (and every atom alone)
    def pre(name):
        c = L.Case(b, os.path.join(root, "pre"), [name], L.Opt("c", "none", ("string",)), tag=name)
        c.write()
        ok, out = L.header_ok(b, c.dir)
        c.cleanup()
        return name, ok, out
    for name, ok, out in pmap(pre, [a.name for a in L.ATOMS]):
        if not ok:
            raise HarnessError("atom %s is not valid C++: %s" % (name, L.first_error(out)))

    failures = []       # (header name, opt, res)
    nrej = 0

    # the small decisive families run first, the big lattice last (it is the one that is cut when
    # the deadline hits on a loaded machine)
    # ---------------- phase 3: hash collisions
    if want("collisions") and not ck.expired(reserve=60):
        nfun = 20000
        groups, nwr = find_collisions(b, root, nfun)
        ck.extra["collision_library"] = {"functions": nfun, "wrappers": nwr,
                                         "colliding_groups": len(groups),
                                         "largest_group": max([len(v) for v in groups.values()] or [0])}
        if not groups:
            raise HarnessError("no colliding signature hash among %d functions" % nfun)
        copts = [L.Opt("c", "fnames"), L.Opt("c", "fptrs", ("unique-names",)),
                 L.Opt("python", "fnames"), L.Opt("python", "none", ("unique-names", "do-module"))]
        if thorough:
            copts += [L.Opt("c", "fnames", ("nodb",)) , L.Opt("python", "fnames", ("true-names",)) ][:1]
        cj = []
        for h, fns in groups.items():
            for perm in itertools.permutations(fns):
                for o in copts:
                    cj.append((h, perm, o))

        def runc(j):
            h, perm, o = j
            tag = "hc-%s-%s-%s" % (re.sub(r"\W", "_", h), "_".join(p.split("_")[1] for p in perm),
                                   o.key.replace("+", "_"))
            return j, collision_case(b, root, perm, o, tag)
        cfail = {}
        for (h, perm, o), res in pmap(runc, cj):
            key = "collision|%s|%s" % (",".join(perm), o.key)
            ck.note(key, nontrivial=res.get("collided", 0) >= 1 and res.get("same4", 0) >= 1, family="collisions",
                    outcome="collision:%s:%s" % (res["status"], o.backend),
                    sample={"functions": perm, "options": o.argv(), "names": res.get("names")})
            if res["status"] not in ("ok",):
                cfail.setdefault((o.backend, res["status"], res["sig"]), []).append((key, perm, o, res))
        # constructed groups of k = 2..5 colliding signatures (vf/lib_c03.collision_groups), every
        # declaration order, both hash-using back-ends x {-fnames, -unique-names, -fptrs}
        cgroups = []
        for g in L.collision_groups():
            probe = collision_case(b, root, [], L.Opt("c", "fnames"), "cg-probe-" + g.name, header=g.header())
            names = probe.get("names") or []
            # the group's own wrappers are the ones sharing the first four hash characters with
            # at least len(members) - 1 others; the tool confirms the construction
            by4 = {}
            for n in names:
                by4.setdefault(n[4 + 4:4 + 8], []).append(n)
            big = max((len(v) for v in by4.values()), default=0)
            if probe["status"] == "noexit0" or big < len(g.members):
                ck.cap("constructed group %s is not a %d-way collision for this tool (largest: %d)"
                       % (g.name, len(g.members), big))
                continue
            cgroups.append(g)
        ck.extra["constructed_groups"] = {g.name: {"form": g.form, "size": len(g.members),
                                                   "signatures": [m[1] for m in g.members],
                                                   "predicted_hashes": g.predicted()} for g in cgroups}
        gopts = [L.Opt(be, nm, fl) for be in ("c", "python")
                 for nm, fl in (("fnames", ()), ("none", ("unique-names",)), ("fptrs", ()))]
        gj = [(g, k, order, o) for g in cgroups for k, order in L.group_orders(g) for o in gopts]

        def rung(j):
            g, k, order, o = j
            tag = "cg-%s-%s-%s" % (g.name, "".join(map(str, order)), o.key.replace("+", "_"))
            return j, collision_case(b, root, [g.members[i][0] for i in order], o, tag, header=g.header(order))
        for i in range(0, len(gj), 256):
            if ck.expired(reserve=60):
                ck.cap("deadline: constructed collision groups stopped after %d of %d cases" % (i, len(gj)))
                break
            for (g, k, order, o), res in pmap(rung, gj[i:i + 256]):
                key = "group|%s|%s|%s" % (g.name, "".join(map(str, order)), o.key)
                ck.note(key, nontrivial=res.get("same4", 0) >= k - 1, family="constructed-collisions",
                        outcome="group%d:%s:%s" % (k, res["status"], o.backend),
                        sample={"group": g.name, "order": list(order), "options": o.argv(),
                                "names": res.get("names")})
                if res["status"] != "ok":
                    cfail.setdefault((o.backend, res["status"], res["sig"]), []).append(
                        (key, [g.members[i][0] for i in order], o, res))

        for (be, st, sig), members in sorted(cfail.items()):
            key, perm, o, res = sorted(members, key=lambda m: (m[2].deviations(), m[2].key, m[0]))[0]
            ck.fail(key, "hash collision %s: %s [smallest of %d colliding-library case(s) of back-end -%s with "
                         "this observation]" % (st, sig, len(members), be),
                    {"observed": sig, "kind": "collision", "fns": list(perm), "opt": o.key,
                     "result": res, "same_observation_cases": sorted(m[0] for m in members)[:300]},
                    confirm=lambda perm=perm, o=o, st=st, hdr=res.get("header"):
                    collision_case(b, root, perm, o, "hc-confirm", header=hdr)["status"] == st)

        # two libraries of one module whose *names* hash alike, each with one member of a
        # colliding signature pair: both wrappers would get the same symbol and unique name
        pair, nprobed = find_library_collision(b, root)
        ck.extra["library_name_probe"] = {"names_tried": nprobed, "colliding": pair}
        if pair is not None:
            la, lb, _h = pair
            xj = []
            for h, fns in list(groups.items())[:3]:      # same three pairs in both tiers
                for f1, f2 in itertools.permutations(fns[:2]):
                    for o in (L.Opt("c", "fnames"), L.Opt("python", "fnames")):
                        xj.append(([(la, [f1]), (lb, [f2])], o))

            def runx(j):
                libs, o = j
                tag = "xl-%s-%s-%s" % (libs[0][1][0], libs[1][1][0], o.key.replace("+", "_"))
                return j, crosslib_case(b, root, libs, o, tag)
            xfail = {}
            for g in cgroups:
                if g.form.startswith("free functions") and not g.eqsec:
                    for o in (L.Opt("c", "fnames"), L.Opt("python", "fnames")):
                        xj.append(([(la, [g.members[0][0]]), (lb, [g.members[1][0], g.members[2][0]])], o))
            for (libs, o), res in pmap(runx, xj):
                key = "crosslib|%s|%s" % (",".join("%s:%s" % (l, f[0]) for l, f in libs), o.key)
                ck.note(key, nontrivial=bool(res.get("same_libhash")), family="collisions-across-libraries",
                        outcome="crosslib:%s:%s" % (res["status"], o.backend),
                        sample={"libraries": libs, "options": o.argv(), "names": res.get("names")})
                if res["status"] != "ok":
                    xfail.setdefault((o.backend, res["status"], res["sig"]), []).append((key, libs, o, res))
            for (be, st, sig), members in sorted(xfail.items()):
                # harvested pairs (hc_*) rank before constructed groups, so the reported key is stable
                key, libs, o, res = sorted(members, key=lambda m: ("hc_" not in m[0], m[0]))[0]
                ck.fail(key, "colliding library-name and signature hashes: %s: %s [smallest of %d case(s)]"
                        % (st, sig, len(members)),
                        {"observed": sig, "kind": "crosslib", "libs": libs, "opt": o.key, "result": res,
                         "same_observation_cases": sorted(m[0] for m in members)},
                        confirm=lambda libs=libs, o=o, st=st:
                        crosslib_case(b, root, libs, o, "xl-confirm")["status"] == st)

    # ---------------- phase 5: modules whose libraries were interrogated with DIFFERENT options
    if want("mixed") and not ck.expired(reserve=90):
        mfail = {}
        for be in ("python", "python-native"):
            assigns = [a for a in mixed_assignments(be, thorough) if not any(o.rejected() for o in a)]
            need = sorted({(i, o.key): (i, o) for a in assigns for i, o in enumerate(a)}.values(),
                          key=lambda x: (x[0], x[1].key))

            def buildlib(io):
                i, o = io
                lib, atoms = MIXED_LIBS[i]
                return (i, o.key), mixed_build_lib(b, root, be, lib, atoms, o)
            built = dict(pmap(buildlib, need))
            for (i, k), p in sorted(built.items()):
                ck.note("mixedlib|%s|%s|%s" % (be, MIXED_LIBS[i][0], k), nontrivial=p["status"] == "ok",
                        outcome="mixedlib:%s:%s" % (p["status"], be), family="mixed-modules",
                        sample={"library": MIXED_LIBS[i][0], "options": p["cmd"].split()[-8:], "status": p["status"]})
                if p["status"] not in ("ok", "noexit0"):
                    mfail.setdefault((be, "lib-" + p["status"], p["sig"]), []).append(
                        ("mixedlib|%s|%s|%s" % (be, MIXED_LIBS[i][0], k), be, None, p))

            def runm(a):
                parts = [built[(i, o.key)] for i, o in enumerate(a)]
                if any(p["status"] != "ok" for p in parts):
                    return a, {"status": "libfailed", "sig": ""}
                tag = "mx-%s-%s" % (be, "_".join(o.key for o in a).replace("+", "."))
                return a, mixed_module(b, root, be, parts, tag)
            for i0 in range(0, len(assigns), 128):
                if ck.expired(reserve=60):
                    ck.cap("deadline: mixed %s modules stopped after %d of %d" % (be, i0, len(assigns)))
                    break
                for a, res in pmap(runm, assigns[i0:i0 + 128]):
                    key = "mixed|%s|%s" % (be, ",".join("%s:%s" % (MIXED_LIBS[i][0], o.key) for i, o in enumerate(a)))
                    ck.note(key, nontrivial=res["status"] not in ("skipped", "libfailed"), family="mixed-modules",
                            outcome="mixed%d:%s:%s" % (len(a), res["status"], be),
                            sample={"libraries": [[MIXED_LIBS[i][0]] + o.argv() for i, o in enumerate(a)],
                                    "status": res["status"], "loaded": res.get("loaded")})
                    if res["status"] not in ("ok", "skipped", "libfailed"):
                        mfail.setdefault((be, res["status"], res["sig"]), []).append((key, be, a, res))
        for (be, st, sig), members in sorted(mfail.items()):
            key, be, a, res = sorted(members, key=lambda m: (len(m[0]), m[0]))[0]
            if a is None:
                conf = None
            else:
                def conf(a=a, be=be, st=st):
                    parts = [mixed_build_lib(b, os.path.join(root, "mx-confirm"), be, MIXED_LIBS[i][0],
                                             MIXED_LIBS[i][1], o) for i, o in enumerate(a)]
                    if any(p["status"] != "ok" for p in parts):
                        return False
                    return mixed_module(b, root, be, parts, "mx-confirm-mod")["status"] == st
            ck.fail(key, "mixed module %s: %s [smallest of %d module(s) of back-end -%s with this observation]"
                    % (st, sig, len(members), be),
                    {"observed": sig, "kind": "mixed", "backend": be,
                     "libs": None if a is None else [[MIXED_LIBS[i][0], list(o.flags)] for i, o in enumerate(a)],
                     "result": {k: v for k, v in res.items() if k != "objs"},
                     "same_observation_cases": sorted(m[0] for m in members)[:400]},
                    confirm=conf)

    # ---------------- phase 4: full link + import
    if want("import") and not ck.expired(reserve=90):
        if thorough:
            iopts = [o for o in L.lattice(None, backends=("python", "python-native"))
                     if not o.rejected()]
            # -python without -fnames exports nothing that could be linked differently; keep all
            iopts += [L.Opt.from_key(k) for k in IMPORT_QUICK if k.startswith("c")]
        else:
            iopts = [L.Opt.from_key(k) for k in IMPORT_QUICK]
        plain, nasty = L.GROUPS["plain"], L.GROUPS["nasty"]
        ij = []
        for o in iopts:
            if o.has("do-module"):
                ij.append((o, [("l", plain + nasty)]))
            else:
                ij.append((o, [("l1", plain), ("l2", nasty)]))

        def runi(j):
            o, libs = j
            return j, import_case(b, root, libs, o, "imp-" + o.key)
        ifail = {}
        done = 0
        for i in range(0, len(ij), 16):
            if ck.expired(reserve=60):
                ck.cap("deadline: link+import stopped after %d of %d option sets" % (done, len(ij)))
                break
            for (o, libs), res in pmap(runi, ij[i:i + 16], workers=8):
                done += 1
                key = "import|%s" % o.key
                ck.note(key, nontrivial=res["status"] not in ("skipped",), family="link+import",
                        outcome="import:%s:%s" % (res["status"], o.backend),
                        sample={"options": o.argv(), "libraries": [l for l, _ in libs],
                                "status": res["status"], "loaded": res.get("loaded")})
                if res["status"] not in ("ok", "skipped"):
                    ifail.setdefault((o.backend, res["status"], res["sig"]), []).append((o, libs, res))
        for (be, st, sig), members in sorted(ifail.items()):
            o, libs, res = sorted(members, key=lambda m: (m[0].deviations(), m[0].key))[0]
            key = "import|%s" % o.key
            ck.fail(key, "link+import %s: %s [%d option sets of back-end -%s show the same error]"
                    % (st, sig, len(members), be),
                    {"observed": sig, "kind": "import", "opt": o.key, "libs": libs, "result": res,
                     "same_error_option_sets": sorted(m[0].key for m in members)[:400]},
                    confirm=lambda o=o, libs=libs, st=st:
                    import_case(b, root, libs, o, "imp-confirm")["status"] == st)

    # ---------------- phase 1: lattice x batched headers
    if want("lattice"):
        jobs = [(hn, o) for o in opts for hn, _ in hdrs]

        def run1(j):
            hn, o = j
            res = evaluate(b, os.path.join(root, "p1-" + hn), hdr_atoms[hn], o, o.key, mode_for(o))
            return j, res
        for i in range(0, len(jobs), 128):
            if ck.expired(reserve=120):
                ck.cap("deadline: lattice stopped after %d of %d (header, option set) cases" % (i, len(jobs)))
                break
            for (hn, o), res in pmap(run1, jobs[i:i + 128]):
                key = "%s|%s" % (hn, o.key)
                st = res["status"]
                if st == "empty":      # no atom of this header applies to the option set
                    continue
                if st == "rejected":
                    outcome = "tool-rejects-options"
                elif st == "noexit0":
                    outcome = "unjudged:exit!=0"
                elif st == "ok":
                    outcome = "ok:" + o.backend
                else:
                    outcome = "%s:%s" % (st, o.backend)
                ck.note(key, nontrivial=(st != "rejected" and st != "noexit0" and res["wrappers"] > 0),
                        outcome=outcome, family="lattice/" + hn,
                        sample={"header": hn, "atoms": res["atoms"], "options": o.argv(),
                                "status": st, "wrappers": res["wrappers"]})
                if st == "rejected":
                    nrej += 1
                elif st == "noexit0":
                    ck.extra.setdefault("exit_nonzero_cases", []).append(
                        {"case": key, "stderr": res.get("stderr", "")[-300:]})
                elif st != "ok":
                    failures.append((hn, o, res))

    # ---------------- phase 1b: every atom alone under a few option sets (batching masks nothing)
    if want("alone") and not ck.expired(reserve=120):
        aopts = [L.Opt.from_key(k) for k in ("c+fnames", "python+fnames", "python-native",
                                             "c+string+promiscuous", "python+string+promiscuous",
                                             "python-native+string+promiscuous")]
        ajobs = [(a.name, o) for o in aopts for a in L.ATOMS
                 if a.group != "adversarial" and a.name not in ("bytevector", "refcount")]

        def runa(j):
            a, o = j
            return j, evaluate(b, os.path.join(root, "alone"), [a], o, "%s@%s" % (a, o.key), mode_for(o))
        for (a, o), res in pmap(runa, ajobs):
            st = res["status"]
            if st == "empty":
                continue
            ck.note("alone|%s|%s" % (a, o.key), nontrivial=(st not in ("rejected", "noexit0") and res["wrappers"] > 0),
                    outcome=("ok:" if st == "ok" else st + ":") + o.backend, family="atom-alone",
                    sample={"atom": a, "options": o.argv(), "status": st, "wrappers": res["wrappers"]})
            if st == "noexit0":
                ck.extra.setdefault("exit_nonzero_cases", []).append(
                    {"case": "alone|%s|%s" % (a, o.key), "stderr": res.get("stderr", "")[-300:]})
            elif st != "ok":
                failures.append(("alone-" + a, o, res))
                hdr_atoms["alone-" + a] = [a]

    # ---------------- phase 2: split failing headers into atoms, group, confirm, report
    if failures:
        iso_jobs = []
        seen = {}
        for hn, o, res in failures:
            if len(res["atoms"]) == 1:
                seen[(res["atoms"][0], o.key)] = res      # already a single atom
                continue
            for a in res["atoms"]:
                iso_jobs.append((hn, o, a))

        def iso(j):
            hn, o, a = j
            k = (a, o.key)
            with ck.lock:
                if k in seen:
                    return j, None
                seen[k] = None
            r = evaluate(b, os.path.join(root, "iso"), [a], o, "%s@%s" % (a, o.key), mode_for(o))
            seen[k] = r
            return j, r
        pmap(iso, iso_jobs)
        # one root cause shows up under many option sets and, when it does not depend on the
        # declarations at all, in every atom: group by (back-end, status, normalised first
        # error) and report the smallest member of each group
        order = {a.name: i for i, a in enumerate(L.ATOMS)}
        groups = {}
        for hn, o, res in failures:
            bad = [a for a in res["atoms"] if seen.get((a, o.key)) and
                   seen[(a, o.key)]["status"] not in ("ok", "rejected", "noexit0", "empty")]
            if bad:
                for a in bad:
                    r = seen[(a, o.key)]
                    groups.setdefault((o.backend, r["status"], r["sig"]), {})[(a, o.key)] = (o, a, [a], r)
            else:
                # no atom fails alone: an interaction between atoms of this header
                groups.setdefault((o.backend, res["status"], res["sig"]), {})[("header:" + hn, o.key)] = \
                    (o, "header:" + hn, hdr_atoms[hn], res)
        for (be, st, sig), members in sorted(groups.items()):
            o, what, names, r = sorted(members.values(),
                                       key=lambda m: (m[0].deviations(), m[0].key, order.get(m[1], 999)))[0]
            key = "%s|%s" % (what, o.key)
            whats = sorted(set(m[1] for m in members.values()), key=lambda w: order.get(w, 999))
            nopts = len(set(k[1] for k in members))

            def confirm(names=names, o=o, st=st):
                rr = evaluate(b, os.path.join(root, "confirm"), names, o,
                              "c-%d" % (hash((tuple(names), o.key)) & 0xffffff), mode_for(o))
                return rr["status"] == st
            ck.note("iso|" + key, nontrivial=True, outcome="%s:%s" % (st, be), family="isolation",
                    sample={"atoms": names, "options": o.argv(), "first_error": sig})
            ck.fail(key, "%s: %s [smallest case: atom %s with %s; same error for %d atom(s) %s under %d option "
                         "set(s) of back-end -%s]"
                    % (st, sig, what, " ".join(o.argv()), len(whats), ",".join(whats[:6]) + ("..." if len(whats) > 6 else ""),
                       nopts, be),
                    {"observed": sig, "kind": "lattice", "atoms": names, "opt": o.key,
                     "status": st, "cmd": r.get("cmd"), "gxx": (r.get("gxx") or r.get("detail") or "")[:2500],
                     "same_error_cases": sorted("%s|%s" % k for k in members)[:600],
                     "header": L.header_text(L.atoms_for(names, o))},
                    confirm=confirm)

    return ck.finish(
        rule="one case = (header built from atoms, option set) run through the real interrogate and "
             "g++ (or a colliding-hash library in one declaration order, or a full build+import of a "
             "module); non-trivial = interrogate exited 0 and recorded/defined at least one wrapper "
             "(collisions: the functions really share their first four hash characters and at least one name was extended; import: a module was built)",
        exhaustive=True,
        bound=("full lattice (%d option sets) x %d headers" if thorough else
               "option sets within 2 deviations of each back-end default (%d) x %d headers")
              % (len(opts), len(hdrs)),
        assumptions=["-spam, -refcount, -track-interpreter and .N defconstruct need the Panda3D runtime "
                     "and are outside the lattice",
                     "generated code is compiled with g++ -std=gnu++17 against harness/shim "
                     "(register_type.h, dconfig.h) and the tree's own dtoolbase/interrogatedb headers",
                     "option sets the tool itself rejects (-fnames with -true-names) are counted, not judged",
                     "atoms whose initialisation needs a foreign Python module are compiled but not imported"],
        extra={"option_sets": len(opts), "rejected_by_tool": nrej,
               "atoms": {g: n for g, n in L.GROUPS.items()}})


def replay(ck, b):
    rp = ck.load_replay()
    d = rp["detail"]
    root = ck.scratch()
    o = L.Opt.from_key(d["opt"]) if d.get("opt") else None
    if d["kind"] == "lattice":
        res = evaluate(b, root, d["atoms"], o, "replay", mode_for(o))
    elif d["kind"] == "collision":
        res = collision_case(b, root, d["fns"], o, "replay", header=(d.get("result") or {}).get("header"))
    elif d["kind"] == "mixed":
        be = d["backend"]
        if not d.get("libs"):
            print("library-level failure:", d["result"].get("cmd"), d["result"].get("sig"))
            ck.cleanup()
            return 1
        idx = {n: i for i, (n, _a) in enumerate(MIXED_LIBS)}
        parts = [mixed_build_lib(b, root, be, n, MIXED_LIBS[idx[n]][1], L.LibOpt(be, fl)) for n, fl in d["libs"]]
        res = mixed_module(b, root, be, parts, "replay-mod") if all(p["status"] == "ok" for p in parts) \
            else {"status": "libfailed", "sig": [p["sig"] for p in parts]}
        res["opt"] = d["libs"]
    elif d["kind"] == "crosslib":
        res = crosslib_case(b, root, [(l, f) for l, f in d["libs"]], o, "replay")
    else:
        res = import_case(b, root, [tuple(x) for x in d["libs"]], o, "replay")
    print("case   :", rp["key"])
    print("command:", res.get("cmd") or res.get("steps"))
    print("status :", res["status"], "|", res.get("sig"))
    print((res.get("gxx") or res.get("out") or "")[:1500])
    ck.cleanup()
    return 0 if res["status"] in ("ok", "skipped", "rejected", "noexit0") else 1


if __name__ == "__main__":
    run_main(main)
