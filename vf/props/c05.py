"""C05 -- the database describes every exported entity truthfully.

Shape S.  Atoms (vf/hg.py, second half) are rendered into batched headers with globally
unique names; every atom carries its ground truth:

  sig       one callable (method / const / static / virtual / global function /
            constructor) x parameter lists over 14 parameter types x named/unnamed x
            defaulted/not x 19 return types
  inh       derived class with one or two direct bases x {plain, polymorphic, empty} x
            {public, protected, private} x {virtual, non-virtual} x derived polymorphic
            or not, a grandchild, two bases with the same simple name in two namespaces
            (the four cases of generate_casts and their complements)
  prop      __make_property (getter / getter+setter / has+clear), __make_seq,
            __make_seq_property, __make_map_property, data members (plain / const /
            static / class typed / pointer), a global variable x 4 value types
  enum      unscoped / scoped (class, struct) / anonymous / fixed underlying type x
            global / nested / nested in a namespace class x explicit+implicit values
  typedef   to a class, chain, nested, to a namespace class, to template instantiations
  nest      class / struct / union three deep inside 0..2 namespaces
  op        unary vs binary forms of one symbol, binary-only, assignment family,
            typecast operators, operator (), operator [], global binary operators
  virt      a derived class re-declaring an inherited virtual: base declaration section x
            derived section x 8 inheritance shapes x const/mismatch x pure; the method must
            be recorded for the class or for a base the database lists for it
  cov       a re-declared virtual with a covariant return type (pointer, reference, two
            levels, const-qualified, less cv-qualified) x `virtual` repeated or not x pure
            or not x {single public base, second base, base version merely public};
            whether it overrides (and whether the derived class is abstract) from g++
  member    one data member x type {int, const int, int*, const int*, int* const, enum,
            struct, struct*, const struct, array, reference} x typedef depth 0..3 x
            static/non-static x with/without initializer; getter/setter roles against
            std::is_assignable evaluated by g++
  comment   target declaration of 15 kinds x comment style {none, //, ///, /* */, /** */,
            multi-line //} x {0,1,2} blank lines x trailing comment on the previous
            declaration's line {none, //, /* */} x preprocessor line in between

Oracle: the generator's ground truth compared field by field with tools.idb_dump
(scoped names, kind flags, role flags, bases with cast records, nesting, member lists,
wrapper parameters in order with name / type / optional / this, return type,
caller-manages).  Types are compared structurally (pointer -> const -> class ...), never
by spelling.  Whether a base sub-object sits at the derived object's address comes from
g++ (a compiled probe prints static_cast<Base*>(&d) == (void*)&d).  A comment token may
appear in the comment of the entity it immediately precedes and nowhere else (DESIGN C05
reading); where it does immediately precede a declaration that has a comment slot it must
be there.
"""
import os
import re
import shutil

from vf import build, hg, tools
from vf.core import Check, HarnessError, pmap, run_main

PID = "C05"

T_GLOBAL, T_ATOMIC, T_UNSIGNED, T_SIGNED, T_LONG, T_LONGLONG, T_SHORT = 1, 2, 4, 8, 0x10, 0x20, 0x40
T_WRAPPED, T_POINTER, T_CONST, T_STRUCT, T_CLASS, T_UNION = 0x80, 0x100, 0x200, 0x400, 0x800, 0x1000
T_FULLY, T_NESTED, T_ENUM, T_TYPEDEF, T_ARRAY, T_SCOPED = 0x2000, 0x40000, 0x80000, 0x200000, 0x400000, 0x800000
ROLE_BITS = {"global": 1, "virtual": 2, "method": 4, "typecast": 8, "getter": 0x10,
             "setter": 0x20, "unary_op": 0x40, "operator_typecast": 0x80, "constructor": 0x100,
             "destructor": 0x200, "item_assignment": 0x400}
W_MANAGES, W_HAS_RETURN = 1, 2
P_HAS_NAME, P_THIS, P_OPTIONAL = 1, 2, 4
E_GLOBAL, E_GETTER, E_SETTER, E_HAS, E_CLEAR, E_DEL, E_SEQ, E_MAP = 1, 2, 4, 8, 0x10, 0x20, 0x40, 0x80
DF_UP, DF_DOWN, DF_IMPOSSIBLE = 1, 2, 4
ATOKEN = {1: "int", 2: "float", 3: "double", 4: "bool", 5: "char", 6: "void", 7: "string",
          8: "longlong", 9: "null"}
BACKENDS = {"c": ["-c", "-fnames"], "pynative": ["-python-native"]}


class Obs:
    """Index over one database dump."""

    def __init__(self, db, backend):
        self.db, self.backend = db, backend
        self.T, self.F, self.W = db["types"], db["functions"], db["wrappers"]
        self.E, self.S = db["elements"], db["make_seqs"]
        self.fn = {}
        for i, f in self.F.items():
            self.fn.setdefault(f["scoped_name"], []).append((int(i), f))
        self.ty = {}
        for i, t in self.T.items():
            if t["flags"] & (T_STRUCT | T_CLASS | T_UNION | T_ENUM | T_TYPEDEF):
                self.ty.setdefault(t["scoped_name"], []).append((int(i), t))
        self.el = {e["scoped_name"]: e for e in self.E.values()}
        self.sq = {s["scoped_name"]: s for s in self.S.values()}
        self._td = {}

    def tdesc(self, i):
        """structural description of type record i"""
        if i in self._td:
            return self._td[i]
        t = self.T.get(str(i))
        if t is None:
            r = ("missing", i)
        else:
            fl = t["flags"]
            if fl & T_ATOMIC:
                mods = []
                for bit, n in ((T_LONG, "long"), (T_LONGLONG, "longlong"), (T_SHORT, "short"),
                               (T_SIGNED, "signed"), (T_UNSIGNED, "unsigned")):
                    if fl & bit:
                        mods.append(n)
                r = ("atomic", ATOKEN.get(t["atomic_token"], "?%d" % t["atomic_token"]),
                     tuple(sorted(mods)))
            elif fl & T_WRAPPED and fl & T_POINTER:
                r = ("ptr", self.tdesc(t["wrapped_type"]))
            elif fl & T_WRAPPED and fl & T_CONST:
                r = ("const", self.tdesc(t["wrapped_type"]))
            elif fl & T_TYPEDEF:
                r = ("typedef", t["scoped_name"])
            elif fl & T_ENUM:
                r = ("enum", t["scoped_name"])
            elif fl & (T_STRUCT | T_CLASS | T_UNION):
                r = ("cls", t["scoped_name"])
            elif fl & T_ARRAY:
                r = ("array", t["array_size"], self.tdesc(t["wrapped_type"]))
            else:
                r = ("other", t["true_name"])
        self._td[i] = r
        return r

    def fname(self, i):
        f = self.F.get(str(i))
        return f["scoped_name"] if f else None

    def tname(self, i):
        t = self.T.get(str(i))
        return t["scoped_name"] if t else None

    def wrappers_of(self, f):
        ids = f["c_wrappers"] if self.backend == "c" else f["python_wrappers"]
        out = []
        for wi in ids:
            w = self.W[str(wi)]
            ps = []
            for p in w["parameters"]:
                fl = p["flags"]
                ps.append((p["name"] if fl & P_HAS_NAME else None, self.tdesc(p["type"]),
                           bool(fl & P_OPTIONAL), bool(fl & P_THIS)))
            out.append((tuple(ps), self.tdesc(w["return_type"]), bool(w["flags"] & W_MANAGES),
                        bool(w["flags"] & W_HAS_RETURN)))
        return out


def roles_of(flags):
    return set(n for n, b in ROLE_BITS.items() if flags & b)


class Cmp:
    """collects field comparisons for one atom"""

    def __init__(self):
        self.n = 0
        self.bad = []

    def eq(self, what, exp, got):
        self.n += 1
        if exp != got:
            self.bad.append("%s: expected %r, database has %r" % (what, exp, got))

    def ok(self, what, cond, detail=""):
        self.n += 1
        if not cond:
            self.bad.append("%s %s" % (what, detail))


def check_function(c, o, f, ctor_superset=False, group=None):
    if getattr(f, "via_casts", False):
        # a typecast operator: interrogate's label for it is not an objective fact; it is
        # found through the cast list of its class
        recs = []
        for _, t in o.ty.get(f.cls, []):
            recs += [(ci, o.F[str(ci)]) for ci in t["casts"] if str(ci) in o.F]
    else:
        recs = o.fn.get(f.scoped(), [])
        want_unary = "unary_op" in f.roles()
        recs = [r for r in recs if bool(r[1]["flags"] & ROLE_BITS["unary_op"]) == want_unary] \
            if len(recs) > 1 else recs
    if len(recs) != 1:
        c.ok("function %s" % f.scoped(), False, "has %d records in the database" % len(recs))
        return
    _, r = recs[0]
    free = set(getattr(f, "free_roles", ()))
    c.eq("roles of %s" % f.scoped(), sorted(f.roles() - free), sorted(roles_of(r["flags"]) - free))
    c.eq("class of %s" % f.scoped(), f.cls, o.tname(r["class"]) if r["class"] else None)
    if not getattr(f, "via_casts", False):
        c.eq("name of %s" % f.scoped(), f.scoped().split("::")[-1], r["name"])
    if o.backend == "pynative" and (f.roles() & {"getter", "setter"}):
        return            # property accessors have no wrapper records in this back-end
    if getattr(f, "dtor", False):
        return            # whether a back-end wraps the destructor is its own business
    exp = []
    for g in (group or [f]):
        for ps, rt, managed in g.wrappers(o.backend):
            has_ret = rt != ("atomic", "void", ())
            exp.append((ps, rt, managed, has_ret))
    got = o.wrappers_of(r)
    rest = list(got)
    for e in exp:
        if e in rest:
            rest.remove(e)
            c.n += 1 + len(e[0])
        else:
            c.ok("wrapper of %s" % f.scoped(), False,
                 "expected %r not among the recorded wrappers %r" % (e, got))
    if rest and not f.ctor and not getattr(f, "shared", False):
        c.ok("wrappers of %s" % f.scoped(), False, "unexpected extra wrapper records %r" % (rest,))


def names(o, idxs, kind):
    if kind == "fn":
        return sorted(o.fname(i) or "?%s" % i for i in idxs)
    if kind == "ty":
        return sorted(o.tname(i) or "?%s" % i for i in idxs)
    if kind == "el":
        return sorted(o.E[str(i)]["scoped_name"] if str(i) in o.E else "?%s" % i for i in idxs)
    return sorted(o.S[str(i)]["scoped_name"] if str(i) in o.S else "?%s" % i for i in idxs)


def check_cast_fn(c, o, idx, frm, to, what):
    f = o.F.get(str(idx))
    if f is None:
        c.ok(what, False, "names function index %s which does not exist" % idx)
        return
    c.ok(what + " is flagged typecast", bool(f["flags"] & ROLE_BITS["typecast"]))
    c.eq(what + " is a method of", frm, o.tname(f["class"]))
    if o.backend != "c":
        return
    ws = o.wrappers_of(f)
    exp = ((("this", ("ptr", ("cls", frm)), False, True),), ("ptr", ("cls", to)), False, True)
    c.ok(what + " wrapper", exp in ws, "expected %r, recorded %r" % (exp, ws))


def check_class(c, o, d):
    recs = o.ty.get(d["scoped"], [])
    recs = [r for r in recs if not r[1]["flags"] & (T_ENUM | T_TYPEDEF)]
    if len(recs) != 1:
        c.ok("class %s" % d["scoped"], False, "has %d records" % len(recs))
        return
    _, t = recs[0]
    fl = t["flags"]
    kind = "class" if fl & T_CLASS else "struct" if fl & T_STRUCT else "union" if fl & T_UNION else "?"
    c.eq("kind of %s" % d["scoped"], d["kind"], kind)
    c.eq("name of %s" % d["scoped"], d["scoped"].split("::")[-1], t["name"])
    c.eq("true name of %s" % d["scoped"], d["scoped"], t["true_name"])
    c.ok("%s is global and fully defined" % d["scoped"], bool(fl & T_GLOBAL) and bool(fl & T_FULLY))
    c.eq("nesting of %s" % d["scoped"], d["outer"],
         o.tname(t["outer_class"]) if (fl & T_NESTED) else None)
    if "bases" in d:
        der = t["derivations"]
        c.eq("bases of %s" % d["scoped"], [b["base"] for b in d["bases"]],
             [o.tname(x["base"]) for x in der])
        if len(der) == len(d["bases"]):
            for b, x in zip(d["bases"], der):
                w = "derivation %s -> %s" % (d["scoped"], b["base"])
                f = x["flags"]
                if b["virtual"]:
                    c.ok(w, bool(f & DF_UP) and x["upcast"] != 0,
                         "is virtual: an upcast function is required")
                    c.ok(w, bool(f & DF_IMPOSSIBLE) and not (f & DF_DOWN) and x["downcast"] == 0,
                         "is virtual: downcast must be marked impossible (flags %d)" % f)
                else:
                    c.ok(w, not (f & DF_IMPOSSIBLE), "is not virtual but downcast marked impossible")
                    if b["moves"]:
                        c.ok(w, bool(f & DF_UP) and x["upcast"] != 0,
                             "g++ places the base at another address: an upcast function is required")
                        c.ok(w, bool(f & DF_DOWN) and x["downcast"] != 0,
                             "needs a downcast function (flags %d)" % f)
                c.ok(w, bool(f & DF_UP) == (x["upcast"] != 0) and bool(f & DF_DOWN) == (x["downcast"] != 0),
                     "flags %d inconsistent with functions %d/%d" % (f, x["upcast"], x["downcast"]))
                if x["upcast"]:
                    check_cast_fn(c, o, x["upcast"], d["scoped"], b["base"], "upcast of " + w)
                if x["downcast"]:
                    check_cast_fn(c, o, x["downcast"], b["base"], d["scoped"], "downcast of " + w)
    if "methods" in d:
        c.eq("methods of %s" % d["scoped"], sorted(d["methods"]), names(o, t["methods"], "fn"))
    for m in d.get("methods_include", ()):
        c.ok("methods of %s" % d["scoped"], m in names(o, t["methods"], "fn"), "lack %s" % m)
    for m in d.get("ctors_include", ()):
        c.ok("constructors of %s" % d["scoped"], m in names(o, t["constructors"], "fn"), "lack %s" % m)
    if "n_casts" in d:
        c.eq("number of casts of %s" % d["scoped"], d["n_casts"], len(t["casts"]))
    if "elements" in d:
        c.eq("elements of %s" % d["scoped"], sorted(d["elements"]), names(o, t["elements"], "el"))
    if "seqs" in d:
        c.eq("make_seqs of %s" % d["scoped"], sorted(d["seqs"]), names(o, t["make_seqs"], "sq"))
    if "nested" in d:
        c.eq("nested types of %s" % d["scoped"], sorted(d["nested"]), names(o, t["nested_types"], "ty"))
    if "nested_enum_first" in d:
        found = False
        for ni in t["nested_types"]:
            nt = o.T.get(str(ni))
            if nt and nt["flags"] & T_ENUM and nt["enum_values"] and \
                    nt["enum_values"][0]["name"] == d["nested_enum_first"]:
                found = True
        c.ok("nested types of %s" % d["scoped"], found, "lack the enum starting with %s"
             % d["nested_enum_first"])
    if "destructor" in d:
        c.eq("destructor of %s" % d["scoped"], d["destructor"], o.fname(t["destructor"]))
    if t["destructor"]:
        df = o.F.get(str(t["destructor"]))
        c.ok("destructor of %s" % d["scoped"],
             df is not None and bool(df["flags"] & ROLE_BITS["destructor"])
             and o.tname(df["class"]) == d["scoped"], "is not a destructor of this class")


def check_enum(c, o, d):
    t = None
    if d["scoped"] is not None:
        recs = [r for r in o.ty.get(d["scoped"], []) if r[1]["flags"] & T_ENUM]
        if len(recs) != 1:
            c.ok("enum %s" % d["scoped"], False, "has %d records" % len(recs))
            return
        t = recs[0][1]
    else:
        for r in o.T.values():
            if r["flags"] & T_ENUM and r["enum_values"] and \
                    r["enum_values"][0]["name"] == d["first_value_name"]:
                t = r
        if t is None:
            c.ok("anonymous enum starting with %s" % d["first_value_name"], False, "not found")
            return
    w = "enum %s" % (d["scoped"] or "(anonymous, %s)" % d["first_value_name"])
    fl = t["flags"]
    c.eq(w + " scoped-enum flag", d["scoped_enum"], bool(fl & T_SCOPED))
    c.eq(w + " nesting", d["outer"], o.tname(t["outer_class"]) if fl & T_NESTED else None)
    c.eq(w + " values", [tuple(v) for v in d["values"]],
         [(v["name"], v["scoped_name"], v["value"]) for v in t["enum_values"]])
    if d["scoped"]:
        c.eq(w + " name", d["scoped"].split("::")[-1], t["name"])


def check_typedef(c, o, d):
    recs = [r for r in o.ty.get(d["scoped"], []) if r[1]["flags"] & T_TYPEDEF]
    if len(recs) != 1:
        c.ok("typedef %s" % d["scoped"], False, "has %d records" % len(recs))
        return
    t = recs[0][1]
    w = "typedef %s" % d["scoped"]
    c.eq(w + " nesting", d["outer"], o.tname(t["outer_class"]) if t["flags"] & T_NESTED else None)
    c.eq(w + " name", d["scoped"].split("::")[-1], t["name"])
    if "target" in d:
        c.eq(w + " target", d["target"], o.tdesc(t["wrapped_type"]))
        return
    tgt = o.T.get(str(t["wrapped_type"]))
    if tgt is None or not tgt["flags"] & (T_CLASS | T_STRUCT):
        c.ok(w, False, "does not wrap a class")
        return
    c.ok(w + " target", tgt["true_name"].replace(" ", "").startswith(d["target_template"] + "<"),
         "is %r" % tgt["true_name"])
    meths = {}
    for mi in tgt["methods"]:
        f = o.F.get(str(mi))
        if f:
            meths[f["name"]] = f
    for mname, (ps, rt) in d["inst_methods"].items():
        f = meths.get(mname)
        if f is None:
            c.ok(w, False, "instantiation lacks method %s" % mname)
            continue
        if o.backend != "c":
            continue
        ws = o.wrappers_of(f)
        this = ("this", ("ptr", ("cls", tgt["scoped_name"])), False, True)
        ert, managed = hg.wrap_return(rt)
        exp = ((this,) + tuple((n, hg.db_type(hg.wrap_param(pt)), False, False) for n, pt in ps),
               hg.db_type(ert), managed, rt != ("void",))
        c.ok(w + " method %s" % mname, exp in ws, "expected %r, recorded %r" % (exp, ws))


def check_element(c, o, d):
    e = o.el.get(d["scoped"])
    if e is None:
        c.ok("element %s" % d["scoped"], False, "not in the database")
        return
    w = "element %s" % d["scoped"]
    fl = e["flags"]
    c.eq(w + " name", d["scoped"].split("::")[-1], e["name"])
    c.eq(w + " type", d["type"], o.tdesc(e["type"]))
    for key, bit, field in (("getter", E_GETTER, "getter"), ("setter", E_SETTER, "setter"),
                            ("has", E_HAS, "has_function"), ("clear", E_CLEAR, "clear_function"),
                            ("del", E_DEL, "del_function")):
        if d[key] == "free":
            continue
        c.eq(w + " " + key, d[key], o.fname(e[field]) if fl & bit else None)
    c.eq(w + " length function", d["length"], o.fname(e["length_function"]) if e["length_function"] else None)
    c.eq(w + " sequence/mapping/global", (d["seq"], d["map"], d["global"]),
         (bool(fl & E_SEQ), bool(fl & E_MAP), bool(fl & E_GLOBAL)))


def check_seq(c, o, d):
    s = o.sq.get(d["scoped"])
    if s is None:
        c.ok("make_seq %s" % d["scoped"], False, "not in the database")
        return
    c.eq("make_seq %s name" % d["scoped"], d["scoped"].split("::")[-1], s["name"])
    c.eq("make_seq %s length getter" % d["scoped"], d["length"], o.fname(s["length_getter"]))
    c.eq("make_seq %s element getter" % d["scoped"], d["element"], o.fname(s["element_getter"]))


def comment_index(o):
    """token -> set of entity ids whose comment contains it"""
    idx = {}

    def add(text, ent):
        for tok in hg.TOKEN_RE.findall(text or ""):
            idx.setdefault(tok, set()).add(ent)
    for t in o.T.values():
        add(t["comment"], ("type", t["scoped_name"]))
        for ev in t["enum_values"]:
            add(ev["comment"], ("ev", ev["scoped_name"]))
    for f in o.F.values():
        add(f["comment"], ("fn", f["scoped_name"]))
    for w in o.W.values():
        add(w["comment"], ("fn", o.fname(w["function"])))
    for e in o.E.values():
        add(e["comment"], ("elem", e["scoped_name"]))
    for s in o.S.values():
        add(s["comment"], ("seq", s["scoped_name"]))
    return idx


def check_comments(c, o, tr, cidx):
    for tok, allowed in tr["comment_allowed"].items():
        got = cidx.get(tok, set())
        extra = got - allowed
        c.ok("comment token %s" % tok, not extra,
             "is attached to %s; it immediately precedes %s"
             % (sorted(extra), sorted(allowed) or "no declaration"))
        if tok == tr.get("exclusive") and len(got & allowed) > 1:
            c.ok("trailing comment token %s" % tok, False,
                 "is attached to both %s" % sorted(got & allowed))
    for tok, ent in tr["comment_must"].items():
        c.ok("comment token %s" % tok, ent in cidx.get(tok, set()),
             "is not attached to %s which it immediately precedes" % (ent,))


def reachable(o, cls, fname):
    seen, todo = set(), [cls]
    while todo:
        cname = todo.pop()
        if cname in seen:
            continue
        seen.add(cname)
        for _, t in o.ty.get(cname, []):
            if t["flags"] & (T_ENUM | T_TYPEDEF):
                continue
            for m in t["methods"]:
                f = o.F.get(str(m))
                if f and f["name"] == fname and (f["c_wrappers"] or f["python_wrappers"]):
                    return True
            todo += [o.tname(d["base"]) for d in t["derivations"]]
    return False


def check_member(c, o, d):
    e = o.el.get(d["scoped"])
    if e is None:
        c.ok("element %s" % d["scoped"], False, "not in the database")
        return
    w = "data member %s" % d["scoped"]
    fl = e["flags"]
    g = o.F.get(str(e["getter"])) if fl & E_GETTER else None
    c.ok(w, g is not None and g["scoped_name"] == d["getter"] and bool(g["flags"] & ROLE_BITS["getter"]),
         "has no getter function flagged as getter")
    st = o.F.get(str(e["setter"])) if fl & E_SETTER else None
    c.ok(w, bool(fl & E_SETTER) == (e["setter"] != 0) and (st is None) == (e["setter"] == 0),
         "setter flag and setter function disagree")
    if st is not None:
        c.ok(w, st["scoped_name"] == d["setter"] and bool(st["flags"] & ROLE_BITS["setter"]),
             "setter function %r is not flagged as setter" % st["scoped_name"])
        # a recorded setter must be truthful: g++ says whether the member can be assigned
        c.ok(w, d["assignable"], "records setter %s although g++ says the member is not assignable"
             % st["scoped_name"])
    if d["rule"] == "no":
        c.ok(w, st is None, "is const: no setter may be recorded")
        c.ok(w, not o.fn.get(d["setter"]), "is const: function %s must not exist" % d["setter"])
    elif d["rule"] == "yes":
        c.ok(w, st is not None, "is an assignable scalar/pointer member: a setter is expected")
    if g is not None and o.backend == "c":
        ws = o.wrappers_of(g)
        # (a pointer to a simple type cannot be wrapped: such getters have no wrapper)
        c.ok(w + " getter", all((len(x[0]) == 0) == d["static"] for x in ws),
             "static-ness of the getter wrapper: %r" % (ws,))


def judge(atom, o, cidx, same_ptr):
    c = Cmp()
    if isinstance(atom, hg.InhAtom):
        try:
            tr = atom.truth(same_ptr)
        except KeyError as e:
            raise HarnessError("g++ probe has no answer for %s" % (e,))
    elif isinstance(atom, hg.CovAtom):
        try:
            tr = atom.truth(same_ptr)
        except KeyError as e:
            raise HarnessError("g++ probe has no answer for covariant atom %s" % (e,))
    elif isinstance(atom, hg.MemberAtom):
        try:
            tr = atom.truth(same_ptr)
        except KeyError as e:
            raise HarnessError("g++ probe has no answer for member atom %s" % (e,))
    else:
        tr = atom.truth()
    # overloads of one name (and the same unary-ness) share one function record: their
    # wrappers are compared as one set
    groups = {}
    for f in tr.get("functions", ()):
        groups.setdefault((f.scoped(), "unary_op" in f.roles()), []).append(f)
    for fs in groups.values():
        check_function(c, o, fs[0], group=fs)
    for d in tr.get("classes", ()):
        check_class(c, o, d)
    for d in tr.get("enums", ()):
        check_enum(c, o, d)
    for d in tr.get("typedefs", ()):
        check_typedef(c, o, d)
    for d in tr.get("elements", ()):
        check_element(c, o, d)
    for d in tr.get("seqs", ()):
        check_seq(c, o, d)
    if "member" in tr:
        check_member(c, o, tr["member"])
    if "comment_allowed" in tr:
        check_comments(c, o, tr, cidx)
    for f in tr.get("optional_functions", ()):
        if o.fn.get(f.scoped()) and f not in tr.get("functions", ()):
            check_function(c, o, f)
    for scoped in tr.get("absent_fn", ()):
        c.ok("function %s" % scoped, not o.fn.get(scoped), "is recorded although its declaration "
             "is not published")
    for cls, fname in tr.get("reach", ()):
        c.ok("published method %s of %s" % (fname, cls), reachable(o, cls, fname),
             "is recorded neither for the class nor for any base class the database lists for it")
    for scoped, n in tr.get("record_count", {}).items():
        c.eq("number of function records named %s" % scoped, n, len(o.fn.get(scoped, [])))
    if tr.get("unary_binary_split"):
        fs = tr["functions"]
        c.ok("unary and binary %s" % fs[0].scoped(), len(o.fn.get(fs[0].scoped(), [])) == 2,
             "must be two function records")
    return c


# ------------------------------------------------------------------------ execution

def make_atoms(tier):
    """family -> list of atoms (canonical order)"""
    ctr = [0]

    def pfx(l):
        ctr[0] += 1
        return "%s%d" % (l, ctr[0])
    fam = {}
    fam["sig"] = [hg.SigAtom(pfx("s"), k, ps, r) for k, ps, r in hg.sig_space(tier)]
    fam["inh"] = [hg.InhAtom(pfx("i"), b, dp, ch) for b, dp, ch in hg.inh_space(tier)]
    fam["prop"] = [hg.PropAtom(pfx("q"), v, vt) for v, vt in hg.prop_space(tier)]
    fam["enum"] = [hg.EnumAtom(pfx("e"), f, w, vs) for f, w, vs in hg.enum_space(tier)]
    fam["typedef"] = [hg.TypedefAtom(pfx("t"), f) for f in hg.TypedefAtom.FORMS]
    fam["nest"] = [hg.NestAtom(pfx("n"), ns, ks) for ns, ks in hg.nest_space(tier)]
    fam["op"] = [hg.OpAtom(pfx("o"), f, s) for f, s in hg.op_space(tier)]
    fam["comment"] = [hg.CommentAtom(pfx("k"), *x) for x in hg.comment_space(tier)]
    fam["virt"] = [hg.VirtAtom(pfx("v"), *x) for x in hg.virt_space(tier)]
    fam["member"] = [hg.MemberAtom(pfx("d"), *x) for x in hg.member_space(tier)]
    fam["cov"] = [hg.CovAtom(pfx("w"), *x) for x in hg.cov_space(tier)]
    return fam


def render(atoms):
    return hg.PRELUDE + "".join(a.render() for a in atoms)


def _compile_run(src_text, name, rundir):
    src = os.path.join(rundir, name + ".cxx")
    with open(src, "w") as f:
        f.write(src_text)
    exe = os.path.join(rundir, name)
    r = tools.run(["g++", "-std=c++17", "-w", "-O0"] + tools.PUBLISH_DEFS +
                  ["-I", rundir, "-o", exe, src], cwd=rundir, timeout=600,
                  env=dict(os.environ, LC_ALL="C"))
    if r.rc != 0:
        raise HarnessError("g++ rejects the generated atoms (generator broken): %s" % r.err[-1500:])
    r = tools.run([exe], cwd=rundir, timeout=60, env={"LC_ALL": "C"})
    if r.rc != 0:
        raise HarnessError("g++ probe failed: %s" % r.brief())
    return r.out


def gxx_probe(b, atoms, rundir):
    """objective facts from the compiler: (derived, base) -> base sub-object at the same
    address; member atom prefix -> the data member is assignable"""
    out = {}
    inh = [a for a in atoms if isinstance(a, hg.InhAtom)]
    if inh:
        for line in _compile_run(hg.inh_probe_source(inh, "h.h"), "probe_inh", rundir).splitlines():
            d, bname, v = line.split()
            out[(d, bname)] = v == "1"
    mem = [a for a in atoms if isinstance(a, hg.MemberAtom)]
    if mem:
        for line in _compile_run(hg.member_probe_source(mem, "h.h"), "probe_mem", rundir).splitlines():
            pfx, v = line.split()
            out[pfx] = v == "1"
    cov = [a for a in atoms if isinstance(a, hg.CovAtom)]
    if cov:
        for line in _compile_run(hg.cov_probe_source(cov, "h.h"), "probe_cov", rundir).splitlines():
            pfx, v = line.split()
            out[pfx] = v == "1"
    return out


def run_header(b, atoms, backend, rundir):
    shutil.rmtree(rundir, ignore_errors=True)
    os.makedirs(rundir)
    with open(os.path.join(rundir, "h.h"), "w") as f:
        f.write(render(atoms))
    r = tools.interrogate(b, ["-oc", "o.cxx", "-od", "o.in", "-module", "m", "-library", "l"]
                          + BACKENDS[backend] + ["h.h"], cwd=rundir, timeout=900)
    if r.rc != 0 or r.timeout:
        return None, None, None, r
    db = tools.idb_dump(b, [os.path.join(rundir, "o.in")])
    o = Obs(db, backend)
    same = gxx_probe(b, atoms, rundir) if backend == "c" or True else {}
    return o, comment_index(o), same, r


def main():
    ck = Check(PID)
    b = build.build("rel")
    tools.idb(b, ["counts"])
    if ck.replay:
        return replay(ck, b)
    fam = make_atoms(ck.tier)
    if ck.only:
        fam = {k: v for k, v in fam.items() if k in ck.only}
    scratch = ck.scratch()
    # batches: (family, chunk index, backend, atoms)
    batches = []
    size = {"sig": 400, "comment": 200}
    for name, atoms in fam.items():
        n = size.get(name, 150)
        for i in range(0, len(atoms), n):
            batches.append((name, i // n, "c", atoms[i:i + n]))
    for name in ("sig", "op", "inh", "prop", "virt", "member", "cov"):
        atoms = fam.get(name, [])
        n = size.get(name, 150)
        sub = atoms if ck.tier == "thorough" or name != "sig" else atoms[::2]
        for i in range(0, len(sub), n):
            batches.append((name, i // n, "pynative", sub[i:i + n]))
    entities = [0]
    fields = [0]
    alone = [0]
    runs = [0]

    def evaluate(atoms, backend, rundir):
        o, cidx, same, r = run_header(b, atoms, backend, rundir)
        with ck.lock:
            runs[0] += 1
        if o is None:
            return None, r
        return [(a, judge(a, o, cidx, same)) for a in atoms], r

    def single(atom, backend, tag):
        rundir = os.path.join(scratch, "single-%s-%s" % (backend, tag))
        res, r = evaluate([atom], backend, rundir)
        info = {"header": render([atom]), "args": r.cmd, "rc": r.rc, "stderr": r.err[-600:]}
        shutil.rmtree(rundir, ignore_errors=True)
        if res is None:
            return None, info
        return res[0][1], info

    def one(batch):
        name, ci, backend, atoms = batch
        if ck.expired(reserve=60):
            return None
        rundir = os.path.join(scratch, "%s-%d-%s" % (name, ci, backend))
        res, r = evaluate(atoms, backend, rundir)
        if res is None:
            # find the atom the tool rejects: every atom is valid C++ of the supported subset
            for a in atoms:
                c1, info = single(a, backend, "rej-%s" % a.p)
                if c1 is None:
                    ck.fail(a.key + "/" + backend + ":rejected",
                            "interrogate fails on a valid header of the supported subset",
                            {"atom": a.key, "backend": backend, "single": info})
                    return True
            raise HarnessError("interrogate fails on batch %s/%d (%s) but on no single atom: %s"
                               % (name, ci, backend, r.brief()))
        for ai, (a, c) in enumerate(res):
            key = a.key + ("" if backend == "c" else "/" + backend)
            ck.note(key, nontrivial=c.n >= 5,
                    outcome="%s fields=%s %s" % (name, "<10" if c.n < 10 else "<30" if c.n < 30 else ">=30",
                                                 "ok" if not c.bad else "MISMATCH"),
                    family="%s/%s" % (name, backend),
                    sample={"atom": a.key, "backend": backend, "header": a.render(),
                            "fields_compared": c.n})
            with ck.lock:
                fields[0] += c.n
            if c.bad:
                c1, info = single(a, backend, "f-%s" % a.p)
                ck.fail(key, "; ".join(c.bad[:6]),
                        {"family": name, "backend": backend, "space_index": index_of(fam, a),
                         "tier": ck.tier, "mismatches": c.bad, "single": info,
                         "observed": c.bad[0]},
                        confirm=lambda a=a: bool((single(a, backend, "c-%s" % a.p)[0] or Cmp()).bad)
                        if single(a, backend, "cc-%s" % a.p)[0] is not None else True)
            elif ai % 10 == 0:
                # batching must not mask anything: every tenth atom is also run alone
                c1, info = single(a, backend, "a-%s" % a.p)
                with ck.lock:
                    alone[0] += 1
                if c1 is None or c1.bad:
                    ck.fail(key + ":alone", "atom passes in a batch but not alone: %s"
                            % ("tool failure" if c1 is None else "; ".join(c1.bad[:4])),
                            {"family": name, "backend": backend, "space_index": index_of(fam, a),
                             "tier": ck.tier, "single": info})
        shutil.rmtree(rundir, ignore_errors=True)
        return True

    done = pmap(one, batches, workers=12)
    if any(x is None for x in done):
        ck.cap("deadline: %d of %d batches completed" % (sum(1 for x in done if x), len(batches)))
    return ck.finish(
        rule="one case = (atom, back-end): the atom's ground truth compared field by field with "
             "the database; non-trivial = at least five fields (names, flags, links, wrapper "
             "parameters, comment tokens) were compared for it",
        exhaustive=True,
        bound="%s tier: %s" % (ck.tier, ", ".join("%s=%d" % (k, len(v)) for k, v in fam.items())),
        assumptions=[
            "wrapper convention taken as documented: references become pointers, a class passed "
            "or returned by value becomes a pointer (caller owns a returned copy), const T& of a "
            "simple T becomes T",
            "an upcast function recorded where g++ does not move the pointer is harmless and not "
            "judged; a missing one where g++ moves the pointer (or the base is virtual) is",
            "comments: DESIGN C05 reading of 'immediately precedes'; a typedef has no comment "
            "slot that interrogate fills (presence unjudged there); a property without its own "
            "comment inheriting its getter's comment is not exercised",
            "types are compared structurally, spellings (e.g. of template instantiations) are C06's"],
        extra={"fields_compared": fields[0], "tool_runs": runs[0], "atoms_rerun_alone": alone[0]})


def index_of(fam, atom):
    for k, v in fam.items():
        for i, a in enumerate(v):
            if a is atom:
                return [k, i]
    return None


def replay(ck, b):
    rp = ck.load_replay()
    d = rp["detail"]
    fam = make_atoms(d.get("tier", rp.get("tier", "quick")))
    k, i = d["space_index"]
    atom = fam[k][i]
    rundir = os.path.join(ck.scratch(), "replay")
    o, cidx, same, r = run_header(b, [atom], d["backend"], rundir)
    print("case:", rp["key"])
    print("--- h.h\n" + render([atom]))
    print("cmd:", " ".join(r.cmd), "-> rc", r.rc)
    if o is None:
        print(r.err[-800:])
        ck.cleanup()
        return 1
    c = judge(atom, o, cidx, same)
    print("fields compared:", c.n)
    for m in c.bad:
        print("MISMATCH:", m)
    ck.cleanup()
    return 1 if c.bad else 0


if __name__ == "__main__":
    run_main(main)
