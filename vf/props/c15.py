"""C15 -- the front end is total.

Shape S (small-scope enumeration, deviation-bounded).  Every input of the families below is
given to the real tools, ONE PROCESS PER INPUT (parser state is global; a crash must be
attributed to exactly one input):

  pragma      every sequence of <= 3 lines (and every push/pop-balanced one of 4) over the push_macro /
              pop_macro / define / undef / use / malformed-pragma line alphabet       (source file)
  bytes       every string of length <= n over the scanners' byte alphabet        (source file)
  tokens      every sequence of <= m tokens over the parser's token alphabet       (source file)
  directives  every sequence of <= k lines over the directive/macro line alphabet  (source file)
  cycle       macro definition sets forming every directed cycle shape of length 1..3 (object-like,
              function-like, mixed, tail into a cycle) x every context that expands text (tokens, #if,
              #elif, later #define, #include operand, macro argument, # and ##), optionally with one
              definition of the cycle supplied by -D
  if-expr     every operator of the #if grammar over the boundary values           (source file)
  edit-byte   ALL single byte edits of the corpus (delete/replace/insert)          (source file)
  edit-token  ALL single token edits of the corpus                                 (source file)
  edit2-byte  ALL double byte edits of the smallest corpus files (thorough)        (source file)
  include     bytes / tokens / directive lines as an #included file
  cmdfile     every command x parameter of the .N command file grammar, byte strings
  define      every NAME[=BODY] of the -D alphabets, byte strings

Modes (one execution each):  I  interrogate -v -python-native -oc -od -oh
                             I2 interrogate -c -python -promiscuous -fnames -string -refcount -assert
                                                    (only where I exited 0)
                             P  parse_file          (only where I exited 0: the parse itself is the
                                                     same library code; what P adds is the printer)
                             E  parse_file -E       (token stream printer; reduced bounds)

Oracle per execution: terminates within 10 s (a hang is re-run alone with 100 s), no signal, exit
status in {0, 1, 255}, no ASan/UBSan report, no std::terminate / failed assertion, resident memory
stays below the cap; a non-zero status comes with a diagnostic on stderr; if a parse error was
reported (CPPPreprocessor::error wrote "error:"), the status is non-zero and none of -oc/-od/-oh
exists afterwards.

Quick runs everything on the ASan+UBSan build.  Thorough runs the larger space on the release
build (signals, aborts, hangs, status rule) and the sanitizer build on the quick space plus every
larger-space input whose release run printed one of the hand-written scanners' diagnostics
(unclosed string, unterminated comment, macro argument count, missing terminating quote, invalid #if
expression, digit separator, literal suffix, missing ')') or an error inside a macro expansion.
"""
import os
import re
import sys
import time

from vf import build, tools
from vf import lib_c15gen as G
from vf.lib_c15run import (Runner, N_ASAN, N_UBSAN, N_TERMINATE, N_ERROR, N_ASSERT, N_LSAN, N_WARN,
                           N_PUREV, N_UBSUM, N_SCANNER, tool_env)
from vf.core import Check, HarnessError, pmap, run_main

PID = "C15"
ORDINARY = (0, 1, 255)
SAN = N_ASAN | N_UBSAN | N_TERMINATE | N_ASSERT | N_LSAN | N_PUREV | N_UBSUM

OUT_ARGS = ["-oc", "o.cxx", "-od", "o.in", "-oh", "o.txt", "-module", "m", "-library", "l"]
MODES = {
    "I": ("interrogate", ["-v", "-D__cplusplus"] + OUT_ARGS + ["-python-native"]),
    "I2": ("interrogate", ["-v", "-D__cplusplus"] + OUT_ARGS +
           ["-c", "-python", "-promiscuous", "-fnames", "-string", "-refcount", "-assert"]),
    "P": ("parse_file", ["-D__cplusplus"]),
    "E": ("parse_file", ["-E", "-D__cplusplus"]),
}


def make_case(inp, mode, keep=0):
    fam, label, kind, payload = inp
    tool, args = MODES[mode]
    args = list(args)
    if kind == "src":
        files = [("in.h", payload)]
    elif kind == "inc":
        files = [("in.h", G.INC_MAIN), ("inc.h", payload)]
    elif kind == "inc2":
        files = [("in.h", G.INC_MAIN2), ("inc.h", payload)]
    elif kind == "cmd":
        files = [("in.h", G.CMD_HEADER), ("in.N", payload)]
    elif kind == "def":
        files = [("in.h", G.DEF_HEADER)]
        args += ["-D", payload]
    elif kind == "defsrc":      # payload = -D text, NUL, source file
        dopt, _, src = payload.partition(b"\0")
        files = [("in.h", src)]
        args += ["-D", dopt]
    else:
        raise HarnessError("unknown kind " + kind)
    return (keep, files, args + ["in.h"])


def case_key(inp, mode):
    return "%s/%s/%s" % (inp[0], mode, inp[1])


# ------------------------------------------------------------------------ judging
def judge(res, mode):
    """None if the execution satisfies the oracle, else (kind, text)."""
    if res.timeout:
        return ("hang", "did not terminate within the time limit")
    if res.memkill:
        return ("memory", "resident memory grew beyond the cap (unbounded expansion)")
    if res.sig:
        return ("signal", "killed by signal %d" % res.sig)
    if res.mask & SAN:
        return ("report", "sanitizer / terminate / assertion report on stderr (exit status %d)" % res.rc)
    if res.rc not in ORDINARY:
        return ("status", "exit status %d is not an ordinary error status" % res.rc)
    if (res.mask & N_ERROR) and res.rc == 0:
        return ("err-exit0", "a parse error was reported but the exit status is 0")
    if mode in ("I", "I2") and (res.mask & N_ERROR) and res.outmask:
        return ("err-output", "a parse error was reported but output files exist (mask %d)" % res.outmask)
    if res.rc != 0 and res.errlen == 0:
        return ("silent-fail", "exit status %d without any diagnostic" % res.rc)
    return None


_NUM = re.compile(r"\d+")
# UBSan reports about integer/float ARITHMETIC (no memory is touched).  The property speaks of
# "sanitizer-detected memory errors"; for these inputs the sanitizer build stops at the report, so
# the verdict is taken from the release build instead (a division by zero is a SIGFPE there).
_ARITH = re.compile(r"runtime error: (signed integer overflow|shift exponent|left shift of|negation of|"
                    r"division by zero|division of|.* is outside the range of representable values)")


def arith_ub_only(res):
    """True if the sanitizer run stopped at a report that does not decide the property: integer /
    float arithmetic, or a vptr check made when UBSan could not read the object's memory (it needs
    a pipe for that and the tool had used up every file descriptor -- a file including itself)."""
    if not (res.mask & N_UBSAN) or (res.mask & (N_ASAN | N_TERMINATE | N_ASSERT | N_PUREV)) or res.sig:
        return False
    e = res.err or ""
    lines = [l for l in e.splitlines() if "runtime error:" in l]
    unreadable = "<memory cannot be printed>" in e

    def undecided(l):
        return bool(_ARITH.search(l)) or (unreadable and "does not point to an object of type" in l)
    return bool(lines) and all(undecided(l) for l in lines)


def _fn(frame):
    f = frame.split("(")[0].strip()
    return f[-60:]


def signature(res, verdict):
    """Stable bucket id of a failure: kind + what the report names (functions, not addresses/lines)."""
    e = res.err or ""
    kind = verdict[0]
    if kind in ("hang", "memory") or "AddressSanitizer: stack-overflow" in e:
        # unbounded recursion / expansion shows up as whichever resource runs out first
        return "runaway (hang | memory cap | stack overflow)"
    if kind in ("err-exit0", "err-output", "silent-fail"):
        return {"err-exit0": "parse error reported, exit status 0",
                "err-output": "parse error reported, output files written",
                "silent-fail": "non-zero exit status without a diagnostic"}[kind]
    m = re.search(r"ERROR: AddressSanitizer: (\S+)", e)
    if m:
        frames = re.findall(r"^\s*#\d+ 0x[0-9a-f]+ in (.*?) (/\S+|\(\S+\))\s*$", e, re.M)
        proj = [_fn(f) for f, loc in frames if "/src/" in loc]
        allf = [_fn(f) for f, loc in frames]
        pick = []
        for f in (proj or allf):
            if f not in pick:
                pick.append(f)
            if len(pick) == 3:
                break
        return "asan %s in %s" % (m.group(1), " < ".join(pick))
    m = re.search(r"(\S+?):\d+:\d+: runtime error: (.*)", e)
    if m:
        return "ubsan %s: %s" % (os.path.basename(m.group(1)), _NUM.sub("N", m.group(2))[:80])
    m = re.search(r"terminate called after throwing an instance of '(.*?)'(?:\s+what\(\):\s+(.*))?", e)
    if m:
        return "terminate %s: %s" % (m.group(1), _NUM.sub("N", m.group(2) or "")[:60])
    m = re.search(r"terminate called", e)
    if m:
        return "terminate"
    m = re.search(r"(\S+):\d+: (.*?): Assertion `(.*)' failed", e)
    if m:
        return "assert %s: %s: %s" % (os.path.basename(m.group(1)), _fn(m.group(2)), m.group(3)[:60])
    if res.sig:
        return "signal %d" % res.sig
    return "%s rc=%s" % (kind, res.rc)


def outcome_label(mode, res, verdict):
    if verdict:
        return "%s FAIL %s" % (mode, verdict[0])
    s = "%s rc=%d" % (mode, res.rc)
    if res.mask & N_ERROR:
        s += " error"
    if res.mask & N_WARN:
        s += " warning"
    if res.outmask:
        s += " out=%d" % res.outmask
    return s


def nontrivial(res):
    """A real rule: the run produced an error/warning diagnostic, or wrote all three outputs."""
    return bool(res.mask & (N_ERROR | N_WARN)) or res.outmask == 7


# ------------------------------------------------------------------------ explorer
class Explorer:
    def __init__(self, ck):
        self.ck = ck
        self.runner = Runner(ck.scratch("run"))
        self.buckets = {}          # signature -> dict(count, members[(key, inp, mode, flavour, res-dict)])
        self.failed_keys = 0
        self.xcheck = []           # (inp, mode, flavour, summary) sample to compare with plain exec
        self.seen_labels = set()
        self.rel_flagged = []      # thorough: inputs whose rel run suggests a sanitizer pass
        self.arith_unjudged = 0
        self.us_sum = 0.0
        self.us_max = (0.0, "")
        self.n_timeouts = 0
        self.n_retimed = 0
        self.confirmed_hangs = 0
        self.brel = None

    def run_mode(self, b, inputs, mode, keep=0):
        tool = MODES[mode][0]
        cases = [make_case(i, mode, keep) for i in inputs]
        n = len(cases)
        if n == 0:
            return []
        shard = max(1, min(400, (n + 47) // 48))
        shards = [cases[i:i + shard] for i in range(0, n, shard)]
        out = pmap(lambda c: self.runner.run_shard(b, tool, c), shards, workers=16)
        return [r for o in out for r in o]

    def run_judged(self, b, inputs, mode):
        """Run; where the sanitizer build stopped at an arithmetic-only UBSan report, take the
        release build's run of the same input instead.  Returns [(build, res, arith)]."""
        rs = self.run_mode(b, inputs, mode)
        # a time-out in a batch is only a suspicion (the machine may be busy): re-run that input alone
        # with ten times the limit before it is judged
        # (once three such re-runs have confirmed real hangs, further batch time-outs are taken at face
        # value: each re-run of a real hang costs 100 s, and the reported representative is confirmed anyway)
        slow = [i for i, r in enumerate(rs) if r.timeout]
        if slow and self.confirmed_hangs < 3:
            slow = slow[:8]
            again = pmap(lambda i: self.rerun(b, inputs[i], mode, timeout_ms=100000), slow, workers=8)
            for i, r2 in zip(slow, again):
                rs[i] = r2
                if r2.timeout:
                    self.confirmed_hangs += 1
            self.n_retimed += len(slow)
        out = [(b, r, False) for r in rs]
        if b["flavour"] == "asan":
            idx = [i for i, r in enumerate(rs) if arith_ub_only(r)]
            if idx:
                rr = self.run_mode(self.brel, [inputs[i] for i in idx], mode)
                for i, r2 in zip(idx, rr):
                    out[i] = (self.brel, r2, True)
        return out

    def record(self, b, inp, mode, res, flag_rel=False, arith=False):
        ck = self.ck
        v = judge(res, mode)
        key = case_key(inp, mode)
        lab = outcome_label(mode, res, v)
        if arith:
            lab = "unjudged-by-sanitizer " + lab
            self.arith_unjudged += 1
        ck.note(key, nontrivial=nontrivial(res), outcome=lab, family=inp[0],
                sample={"family": inp[0], "mode": mode, "flavour": b["flavour"], "kind": inp[2],
                        "input": G.esc(inp[3])[:300], "rc": res.rc, "stderr_bytes": res.errlen,
                        "outputs": res.outmask})
        self.us_sum += res.us
        if res.us > self.us_max[0]:
            self.us_max = (res.us, key)
        if res.timeout:
            self.n_timeouts += 1
        fl = (inp[0], mode, b["flavour"], lab)
        if v is None and not arith and fl not in self.seen_labels and len(self.xcheck) < 96:
            self.seen_labels.add(fl)
            self.xcheck.append((inp, mode, b, (res.rc, res.sig, res.mask, res.outmask, res.errlen)))
        if v:
            self.failed_keys += 1
            sig = signature(res, v)
            bk = self.buckets.setdefault(sig, {"count": 0, "members": [], "verdict": v})
            bk["count"] += 1
            if len(bk["members"]) < 400:
                bk["members"].append((key, inp, mode, b["flavour"], res.as_dict()))
        elif flag_rel and (res.mask & N_SCANNER):
            self.rel_flagged.append(inp)
        return v

    def family(self, b, name, inputs, modes=("I",), adaptive=True, chunk=12288, flag_rel=False):
        """Explore one family on build b.  Returns False if the deadline cut it."""
        ck = self.ck
        if ck.only and name.split(":")[0] not in ck.only and name not in ck.only:
            return True
        t0 = time.time()
        n = 0
        it = iter(inputs)
        done = False
        while not done:
            if ck.expired(reserve=20):
                ck.cap("family %s cut by the deadline after %d inputs" % (name, n))
                return False
            batch = []
            for inp in it:
                batch.append(inp)
                if len(batch) >= chunk:
                    break
            else:
                done = True
            if not batch:
                break
            n += len(batch)
            ok = None
            for mode in modes:
                rs = self.run_judged(b, batch, mode)
                for inp, (bb, r, ar) in zip(batch, rs):
                    self.record(bb, inp, mode, r, flag_rel=flag_rel, arith=ar)
                if mode == "I":
                    ok = [inp for inp, (bb, r, ar) in zip(batch, rs) if r.rc == 0 and not judge(r, "I")]
            if adaptive and ok:
                for mode in ("P", "I2"):
                    rs = self.run_judged(b, ok, mode)
                    for inp, (bb, r, ar) in zip(ok, rs):
                        self.record(bb, inp, mode, r, arith=ar)
        dt = time.time() - t0
        if os.environ.get("C15_DUMP"):
            self.dump(os.environ["C15_DUMP"])
        print("  %-28s %-4s inputs=%-8d %.1fs  (evaluations so far %d, failing %d; child time %.0fs, slowest %.1fs %s, "
              "timeouts %d)" % (name, b["flavour"], n, dt, ck.evaluations, self.failed_keys, self.us_sum / 1e6,
                                self.us_max[0] / 1e6, self.us_max[1][:60], self.n_timeouts), flush=True)
        self.us_sum, self.us_max = 0.0, (0.0, "")
        return True

    def dump(self, path):
        """Development aid: write the failure buckets seen so far."""
        import json
        with open(path, "w") as f:
            json.dump({s: {"count": b["count"],
                           "members": [(m[0], m[1][0], m[1][1], m[1][2], m[1][3].decode("latin-1"), m[2], m[3], m[4])
                                       for m in b["members"][:50]]}
                       for s, b in self.buckets.items()}, f, indent=1)

    # ---------------------------------------------------------------- single-case reruns
    def rerun(self, b, inp, mode, timeout_ms=10000):
        r = self.runner.run_shard(b, MODES[mode][0], [make_case(inp, mode, keep=1)], mode="exec",
                                  timeout_ms=timeout_ms)[0]
        return r

    def cross_check(self):
        """The fork server must be indistinguishable from plain fork/exec on a sample."""
        def one(x):
            inp, mode, b, summ = x
            r = self.rerun(b, inp, mode)
            got = (r.rc, r.sig, r.mask, r.outmask, r.errlen)
            if (r.mask & SAN) or r.sig:      # stack traces differ in length (the fork server's frames)
                got, summ = got[:4], summ[:4]
            return None if got == summ else (case_key(inp, mode), summ, got)
        bad = [x for x in pmap(one, self.xcheck, workers=8) if x]
        self.ck.extra["forkserver_crosschecked"] = len(self.xcheck)
        if bad:
            raise HarnessError("fork-server run differs from plain exec run: %r" % (bad[:3],))

    # ---------------------------------------------------------------- reporting
    def report(self, builds):
        ck = self.ck
        known_syms = [e for e in ck.known if e.get("key", "").startswith("symbol:")]
        summary = {}
        if self.buckets:
            print("failure buckets (count, signature, smallest input):", flush=True)
            for sig in sorted(self.buckets, key=lambda s: -self.buckets[s]["count"]):
                print("  %6d  %s  <- %s" % (self.buckets[sig]["count"], sig, self.buckets[sig]["members"][0][0][:120]),
                      flush=True)
        if os.environ.get("C15_DUMP"):
            self.dump(os.environ["C15_DUMP"])
        for sig in sorted(self.buckets, key=lambda s: (len(self.buckets[s]["members"][0][1][3]), s)):
            bk = self.buckets[sig]
            summary[sig] = {"count": bk["count"], "smallest": bk["members"][0][0]}
            unlisted = []
            for key, inp, mode, flavour, rd in bk["members"]:
                hit = None
                if ck._match_known(key, {"observed": sig}):
                    hit = key
                else:
                    text = inp[3]
                    for e in known_syms:
                        sym = e["key"][len("symbol:"):].encode("latin-1")
                        if sym in text and e.get("observed") == sig:
                            hit = e["key"]
                            break
                if hit is None:
                    unlisted.append((key, inp, mode, flavour, rd))
                elif hit not in ck.known_hit:
                    self.fail_one(builds, hit, key, inp, mode, flavour, rd, bk, sig)
            if unlisted:
                key, inp, mode, flavour, rd = unlisted[0]
                self.fail_one(builds, key, key, inp, mode, flavour, rd, bk, sig, others=len(unlisted) - 1)
        ck.extra["failure_buckets"] = summary

    def fail_one(self, builds, report_key, key, inp, mode, flavour, rd, bk, sig, others=0):
        ck = self.ck
        b = builds[flavour]
        runaway = sig.startswith("runaway")

        def confirm():
            r = self.rerun(b, inp, mode, timeout_ms=100000 if runaway else 10000)
            v = judge(r, mode)
            return bool(v) and signature(r, v) == sig
        case = make_case(inp, mode)
        detail = {
            "observed": sig,
            "verdict": bk["verdict"][1],
            "case_key": key,
            "flavour": flavour,
            "mode": mode,
            "tool": MODES[mode][0],
            "args": [a if isinstance(a, str) else a.decode("latin-1") for a in case[2]],
            "files": {n: c.decode("latin-1") for n, c in case[1]},
            "result": rd,
            "bucket_size": bk["count"],
            "other_unlisted_inputs_in_bucket": others,
            "more_inputs": [m[0] for m in bk["members"][1:12]],
        }
        what = "%s [%s] -- %s; %d input(s) share this signature" % (bk["verdict"][1], sig, key, bk["count"])
        ck.fail(report_key, what, detail, confirm=confirm)


# ------------------------------------------------------------------------ families
def fam_bytes(alpha, lo, hi, kind="src", fam="bytes"):
    for s in G.strings(alpha, lo, hi):
        yield (fam, G.esc(s), kind, s)


def fam_tokens(alpha, lo, hi, kind="src", fam="tokens"):
    for t in G.token_seqs(alpha, lo, hi):
        yield (fam, " ".join(t), kind, G.TOK_PRELUDE + " ".join(t).encode("latin-1") + b"\n")


def fam_tokens_bare(alpha, lo, hi):
    for t in G.token_seqs(alpha, lo, hi):
        yield ("tokens-bare", " ".join(t), "src", " ".join(t).encode("latin-1"))


def fam_dlines(lo, hi, kind="src", fam="directives", lines=G.DLINES):
    for t in G.dline_seqs(lo, hi, lines):
        body = "\n".join(t)
        yield (fam, G.esc(body.encode("latin-1")), kind, (body + "\n").encode("latin-1"))
    if lo <= 1:
        for l in lines:      # the same line as the unterminated last line of the file
            yield (fam, G.esc(l.encode("latin-1")) + "<eof>", kind, l.encode("latin-1"))


def fam_if(values):
    for e in G.if_exprs(values):
        yield ("if-expr", e, "src", G.if_source(e))
    for e in G.if_exprs(values):
        yield ("if-expr", "only:" + e, "src", G.if_source_only(e))


def fam_edits(files, alpha, gen, fam):
    for name, data in files:
        for lab, d in gen(data, alpha):
            yield (fam, "%s:%s" % (name, lab), "src", d)


def fam_cmd():
    for lab, d in G.cmd_files():
        yield ("cmdfile", lab, "cmd", d)


def fam_cycle():
    for lab, dopt, src in G.cycles():
        if dopt is None:
            yield ("cycle", lab, "src", src)
        else:
            yield ("cycle", lab, "defsrc", dopt + b"\0" + src)


def fam_pragma(lo, full, balanced):
    """pragma sequences of >= lo lines: all up to `full` lines, the push/pop-balanced ones up to `balanced`"""
    for n, lab, src in G.pragma_seqs(full, balanced):
        if n >= lo:
            yield ("pragma", lab, "src", src)


def fam_def():
    for lab, d in G.defines():
        if b"\0" not in d:
            yield ("define", lab, "def", d)


def main():
    ck = Check(PID, level="model_checking")
    thorough = ck.tier == "thorough"
    basan = build.build("asan")
    builds = {"asan": basan, "rel": build.build("rel")}
    if ck.replay:
        return replay(ck, builds)
    ex = Explorer(ck)
    ex.brel = builds["rel"]
    files = G.corpus(basan["repo"])
    if len(files) < 18:
        raise HarnessError("corpus incomplete: %d files" % len(files))
    own = [f for f in files if f[0].startswith("h_")]
    small = files[:4]
    print("C15 %s: corpus %s" % (ck.tier, ", ".join("%s(%d)" % (n, len(d)) for n, d in files)), flush=True)

    bounds = {}

    def quick_space(b, flag_rel=False):
        """The quick space, simplest family first; every family is a complete bound."""
        F = lambda *a, **k: ex.family(b, *a, flag_rel=flag_rel, **k)
        ok = True
        ok &= F("bytes:n<=2", fam_bytes(G.A39, 0, 2), modes=("I", "E"))
        ok &= F("if-expr", fam_if(G.VALUES_Q), modes=("I", "E"))
        ok &= F("directives:k<=1", fam_dlines(0, 1), modes=("I", "E"))
        ok &= F("cycle", fam_cycle(), modes=("I", "I2", "P", "E"), adaptive=False)
        ok &= F("pragma:k<=2", fam_pragma(0, 2, 2), modes=("I", "P", "E"), adaptive=False)
        ok &= F("pragma:k<=4", fam_pragma(3, 3, 4), modes=("I", "P", "E") if thorough else ("I", "E"),
                adaptive=False)
        ok &= F("cmdfile", fam_cmd(), modes=("I",), adaptive=False)
        ok &= F("cmdfile:bytes", fam_bytes(G.A39, 0, 2, kind="cmd", fam="cmdfile"), modes=("I",), adaptive=False)
        ok &= F("define", fam_def(), modes=("I", "P", "E"), adaptive=False)
        ok &= F("define:bytes", fam_bytes([a for a in G.A39], 0, 2, kind="def", fam="define"),
                modes=("I", "P"), adaptive=False)
        ok &= F("include:bytes", fam_bytes(G.A39, 0, 2, kind="inc", fam="include"), modes=("I", "E"))
        ok &= F("include:directives", fam_dlines(0, 1, kind="inc", fam="include"), modes=("I", "E"))
        ok &= F("include:directives2", fam_dlines(1, 1, kind="inc2", fam="include"), modes=("I",))
        ok &= F("tokens:m<=2", fam_tokens(G.TOKENS, 0, 2), modes=("I", "E"))
        ok &= F("include:tokens", fam_tokens(G.TOKENS, 1, 2, kind="inc", fam="include"), modes=("I",))
        ok &= F("directives:k<=2", fam_dlines(2, 2), modes=("I",))
        ok &= F("edit-token", fam_edits(files[:14], G.TOKENS, G.token_edits, "edit-token"), modes=("I",))
        ok &= F("edit-byte", fam_edits(small, G.A39, G.byte_edits, "edit-byte"), modes=("I",))
        ok &= F("bytes:n=3", fam_bytes(G.A32, 3, 3), modes=("I",))
        ok &= F("tokens:m=3", fam_tokens(G.TOKENS30, 3, 3), modes=("I",))
        return ok

    if not thorough:
        complete = quick_space(basan)
        bounds = ("bytes n<=2 over 39 symbols, n=3 over 32; tokens m<=2 over 47, m=3 over 30; directive "
                  "lines k<=2 over %d; single token edits of 14 files, single byte edits of 4 files; "
                  "#if operators over 6 values; %d macro-cycle shapes x %d use contexts; pragma lines k<=3 "
                  "(balanced k=4) over %d; .N and -D alphabets; include"
                  % (len(G.DLINES), len(G.cycle_shapes()), len(G.CYCLE_CONTEXTS), len(G.PRAGMA_LINES)))
    else:
        brel = builds["rel"]
        F = lambda *a, **k: ex.family(brel, *a, flag_rel=True, **k)

        def sanitizer_pass(tag):
            """Everything the release run flagged since the last pass, on the sanitizer build."""
            flagged, ex.rel_flagged = ex.rel_flagged, []
            uniq = []
            for inp in flagged:
                k = (inp[2], inp[3])
                if k not in seen_flagged:
                    seen_flagged.add(k)
                    uniq.append(inp)
            ck.extra["rel_flagged_for_sanitizer_pass"] = len(seen_flagged)
            return ex.family(basan, "flagged-by-rel:" + tag, uniq, modes=("I",))

        seen_flagged = set()
        # 1. the release build on the quick space and on the larger single-edit / depth-3 space
        complete = quick_space(brel, flag_rel=True)
        complete &= F("if-expr:8", fam_if(G.VALUES), modes=("I", "E"))
        complete &= F("bytes:n=3:39", fam_bytes(G.A39, 3, 3), modes=("I",))
        complete &= F("tokens:m=3:47", fam_tokens(G.TOKENS, 3, 3), modes=("I",))
        complete &= F("tokens-bare:m<=2", fam_tokens_bare(G.TOKENS, 1, 2), modes=("I", "E"))
        complete &= F("directives:k=3", fam_dlines(3, 3, lines=G.DLINES[:40]), modes=("I",))
        complete &= F("edit-token:all", fam_edits(files[14:], G.TOKENS, G.token_edits, "edit-token"), modes=("I",))
        # 2. the sanitizer build on the quick space and on what the release runs flagged
        complete &= quick_space(basan)
        complete &= sanitizer_pass("1")
        # 3. byte edits of the larger files, depth 4 and double edits on the release build, flagged
        #    inputs on the sanitizer build
        complete &= F("edit-byte:all", fam_edits(files[4:-1], G.A39, G.byte_edits, "edit-byte"), modes=("I",))
        complete &= F("edit-byte:largest", fam_edits(files[-1:], G.A8, G.byte_edits, "edit-byte"), modes=("I",))
        complete &= F("edit2-token", fam_edits(files[:1], G.TOKENS30, G.double_token_edits, "edit2-token"), modes=("I",))
        complete &= F("edit2-byte", fam_edits(files[:1], G.A8, G.double_byte_edits, "edit2-byte"), modes=("I",))
        complete &= F("tokens:m=4", fam_tokens(G.TOKENS30, 4, 4), modes=("I",))
        complete &= F("bytes:n=4", fam_bytes(G.A32, 4, 4), modes=("I",))
        complete &= sanitizer_pass("2")
        bounds = ("release build: bytes n<=3 over 39 symbols, n=4 over 32; tokens m<=3 over 47, m=4 over 30; "
                  "directive lines k<=2 over %d, k=3 over 40; single token edits and single byte edits (39 "
                  "symbols; 8 for the largest file) of all %d corpus files; double byte (8 symbols) and token "
                  "(30 tokens) edits of the smallest file; sanitizer "
                  "build: quick space + %d inputs flagged by the release run"
                  % (len(G.DLINES), len(files), len(seen_flagged)))

    ex.cross_check()
    ex.report(builds)
    ck.extra["unjudged_arithmetic_ub"] = ex.arith_unjudged
    ck.extra["batch_timeouts_rerun_alone"] = ex.n_retimed
    ck.extra["shards_relaunched"] = ex.runner.retries
    ck.extra["process_model"] = ("one process per input; fork server (harness/c15fs.c) forks the tool right "
                                 "before main(); sample and all failures re-run with plain fork/exec")
    if ck.evaluations < 1000 and not ck.only:
        raise HarnessError("only %d executions: generators broken" % ck.evaluations)
    return ck.finish(
        rule="one case = one execution of interrogate / parse_file on one input in its own process; "
             "non-trivial = the run printed an error or warning diagnostic, or produced all three output files",
        exhaustive=bool(complete),
        bound=bounds,
        assumptions=["inputs beyond the stated bounds are not claimed",
                     "a parse error counts as reported when CPPPreprocessor::error() printed 'error:' on stderr",
                     "P and I2 are executed only for inputs on which mode I exited 0 (the parse is the same library "
                     "code; these modes add the declaration printer and the other back-ends)"],
        min_nontrivial=2 if ck.only else 1000)


# ------------------------------------------------------------------------ replay
def replay(ck, builds):
    rp = ck.load_replay()
    d = rp["detail"]
    b = builds.get(d["flavour"]) or build.build(d["flavour"])
    wd = ck.scratch("replay")
    for n, c in d["files"].items():
        with open(os.path.join(wd, n), "wb") as f:
            f.write(c.encode("latin-1"))
    env = tool_env(b)
    timeout = 100 if "runaway" in d["observed"] else 20
    r = tools.run([b[d["tool"]]] + [a.encode("latin-1") for a in d["args"]], cwd=wd, env=env,
                  timeout=timeout, text=False)
    err = r.err.decode("latin-1")
    outs = [n for n in ("o.cxx", "o.in", "o.txt") if os.path.exists(os.path.join(wd, n))]
    print("case     :", rp["key"])
    print("command  :", d["tool"], " ".join(repr(a) for a in d["args"]), "(%s build)" % d["flavour"])
    for n, c in d["files"].items():
        print("file %-5s: %r" % (n, c[:400]))
    print("expected : termination with exit status in {0,1,255}, no report; parse error => non-zero, no outputs")
    print("observed : rc=%s timeout=%s outputs=%s" % (r.rc, r.timeout, outs))
    print("stderr   :", err[-1500:])
    bad = (r.timeout or r.rc is None or r.rc < 0 or r.rc not in ORDINARY or r.sanitizer
           or "terminate called" in err or "Assertion" in err
           or (re.search(r" error: ", err) and (r.rc == 0 or (outs and d["tool"] == "interrogate")))
           or (r.rc != 0 and not err))
    ck.cleanup()
    print("still failing" if bad else "no longer failing")
    return 1 if bad else 0


if __name__ == "__main__":
    run_main(main)
