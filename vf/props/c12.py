"""C12 -- database files round-trip exactly; older 3.x files stay readable; truncated or
mismatched files are reported through the error flag, never half-merged or crashed on.

Shape H: load histories on the real libinterrogatedb (asan flavour), one process per
history, observed with harness/idbrt.cxx (raw dump + InterrogateDatabase::write) and judged
against vf/idb.py, an independent reader/writer of the file format.

Families
  real      interrogate over headers whose comments, default arguments and manifest
            definitions carry each string of the adversarial alphabet SIGMA, three back-end
            option sets (one of them writes only -od, whose indices the loader renumbers)
  syn       a closed synthetic database holding every record kind with every vector
            non-empty; one factor varied at a time: every string field x SIGMA, every flag
            bit of every flag word, every vector at length 0/1/2, extreme integers, index
            layouts (canonical, reversed kinds, sparse); each written as 3.0, 3.1, 3.2, 3.3
            (thorough: also all pairs of adjacent string fields x SIGMA^2)
  prefix    EVERY proper prefix of representative valid files
  reject    major version != 3, minor > 3, file_identifier mismatch / match / unchecked,
            missing file
  history   depth-2 histories: good file + (truncated | wrong version | wrong identifier)
            file in both orders; a 3.0 and a 3.3 file in both orders

Oracle
  complete file: no error flag; the loaded database equals what the independent reader
  finds in the file up to a renaming of indices (missing old-format fields are 0,
  constructor/destructor functions carry their flag); re-serialised bytes are identical to
  the file when its indices already are the loader's and it is 3.3, otherwise they parse
  to an isomorphic database; a second load/write round is a byte-exact fixpoint and
  gives the same dump index for index.
  incomplete/rejected file: error flag set and nothing of it in the database (an
  identifier mismatch may instead load the file completely).  Never a signal, sanitizer
  report or timeout.
"""
import copy
import itertools
import json
import os

from vf import build, harness, idb, lib_c20, tools
from vf.core import Check, HarnessError, pmap, run_main

PID = "C12"
FN = idb.FLAGS["function"]


def sigma(thorough):
    return list(idb.SIGMA)


# ------------------------------------------------------------------- running
class Cx:
    def __init__(self, ck, ba, br):
        self.ck, self.ba, self.br = ck, ba, br
        dep = (os.path.join(harness.HARN, "idbdump.cxx"),)
        libs = ("interrogatedb", "dtoolutil", "dtoolbase")
        self.exe = {"asan": harness.compile_cxx(ba, "idbrt", libs=libs, deps=dep),
                    "rel": harness.compile_cxx(br, "idbrt", libs=libs, deps=dep)}
        self.b = {"asan": ba, "rel": br}
        # flavour used for complete, well-formed files (prefix/reject/history always use asan)
        self.rt_flavour = "asan" if ck.tier == "thorough" else "rel"
        self.n = 0
        self.loads = 0

    def dir(self):
        with self.ck.lock:
            self.n += 1
            n = self.n
        d = os.path.join(self.ck.scratch("w"), "%d" % (n % 64), "%d" % n)
        os.makedirs(d)
        return d

    def _run(self, ops, timeout, fl="asan", raw=False, alarm=3):
        # a reader running away on garbage must not eat the machine: cap the resident set
        env = build.tool_env(self.b[fl])
        env["ASAN_OPTIONS"] += ":hard_rss_limit_mb=2000"
        env["IDBRT_ALARM"] = str(alarm)
        r = tools.run([self.exe[fl]] + list(ops), timeout=timeout, env=env)
        with self.ck.lock:
            self.loads += sum(1 for o in ops if o.startswith("load:"))
        if raw:
            return r
        vals = []
        if r.rc == 0 and not r.timeout:
            for line in r.out.splitlines():
                if line.startswith("{"):
                    vals.append(json.loads(line))
        return r, vals


def proc_problem(r):
    if r.timeout:
        return "timeout"
    if r.rc is not None and r.rc < 0:
        return "signal %d" % -r.rc
    if r.sanitizer:
        return "sanitizer report (exit %s)" % r.rc
    if r.rc != 0:
        return "exit status %s" % r.rc
    return None


def expected_lists(E):
    """enumeration vectors a database holding exactly E shows, as ranks within the kind"""
    def ranks(kind, pred):
        idxs = sorted(E[kind])
        return [n for n, i in enumerate(idxs) if pred(E[kind][i])]
    return {
        "all_types": ranks("types", lambda r: True),
        "global_types": ranks("types", lambda r: r["flags"] & 1),
        "all_functions": ranks("functions", lambda r: True),
        "global_functions": ranks("functions", lambda r: r["flags"] & 1),
        "global_manifests": ranks("manifests", lambda r: True),
        "global_elements": ranks("elements", lambda r: r["flags"] & 1),
    }


_LIST_KIND = {"all_types": "types", "global_types": "types", "all_functions": "functions",
              "global_functions": "functions", "global_manifests": "manifests",
              "global_elements": "elements"}


def dump_lists(dump, only=None):
    out = {}
    for name, kind in _LIST_KIND.items():
        idxs = sorted(int(i) for i, r in dump[kind].items() if only is None or only(r))
        rank = {i: n for n, i in enumerate(idxs)}
        out[name] = sorted(rank.get(i, -1000000 - i) for i in dump[name]
                           if only is None or (str(i) in dump[kind] and only(dump[kind][str(i)])))
    return out


def compare_loaded(E, names, dump, only=None):
    """None if the dump shows exactly the database E (up to index renaming), else why not.
    `only` restricts the comparison to the records satisfying a predicate (histories)."""
    sub = dump
    if only is not None:
        sub = dict(dump)
        for k in idb.KINDS:
            sub[k] = {i: r for i, r in dump[k].items() if only(r)}
    got = idb.from_dump(sub)
    d = idb.isomorphic(E, got)
    if d:
        return "loaded database differs from the file: " + d
    el = {k: sorted(v) for k, v in expected_lists(E).items()}
    gl = dump_lists(dump, only)
    if el != gl:
        for k in el:
            if el[k] != gl[k]:
                return "enumeration %s holds ranks %s, expected %s" % (k, gl[k][:12], el[k][:12])
    if names is not None:
        for k in idb.KINDS:
            for i, r in sub[k].items():
                if (r["lib"] or "") != names[0] or (r["mod"] or "") != names[2]:
                    return "%s %s reports library/module %r/%r, the file says %r/%r" % (
                        k, i, r["lib"], r["mod"], names[0], names[2])
    return None


def roundtrip(cx, data, fl=None):
    """Full oracle for one complete file.  Returns (outcome, problem or None)."""
    fl = fl or cx.rt_flavour
    try:
        M = idb.parse(data)
    except idb.FormatError as e:
        raise HarnessError("generator produced a file the independent reader rejects: %s" % e)
    E = idb.load_defaults(M)
    names = (M["library_name"], M["library_hash_name"], M["module_name"])
    ident = M["file_identifier"]
    d = cx.dir()
    p0, p1, p2 = (os.path.join(d, n) for n in ("f0.in", "f1.in", "f2.in"))
    with open(p0, "wb") as f:
        f.write(data)
    r, v = cx._run(["load:" + p0, "sync", "dump", "defs", "write:%s:%d" % (p1, ident)], 120, fl)
    pp = proc_problem(r)
    if pp:
        return "crash", "loading/re-serialising: %s; %s" % (pp, (r.err or "")[-600:])
    sync, dump1, defs, wr = v[1], v[2], v[3], v[4]
    if sync["error"] or dump1["error"]:
        return "error-flag", "error flag set on a complete, well-formed file: " + (r.err or "")[-300:]
    why = compare_loaded(E, names, dump1)
    if why:
        return "load-differs", why
    dn = defs["defs"][0]
    for k, want in zip(("library_name", "library_hash_name", "module_name"), names):
        if (dn[k] or "") != want:
            return "names-differ", "module def %s is %r after loading, the file says %r" % (k, dn[k], want)
    b1 = open(p1, "rb").read()
    canonical = all(o == n for o, n in idb.load_order(M).items()) and M["minor"] == 3
    try:
        M1 = idb.parse(b1)
    except idb.FormatError as e:
        return "rewrite-unreadable", "re-serialised file is not a well-formed database: %s" % e
    if canonical:
        if b1 != data:
            dd = idb.diff(E, M1) or "same records, different bytes"
            return "bytes-differ", "re-serialised bytes differ from the file (%s)" % dd
        outcome = "exact"
    else:
        if (M1["major"], M1["minor"]) != (3, 3):
            return "rewrite-version", "re-serialised file has version %d.%d" % (M1["major"], M1["minor"])
        why = idb.isomorphic(E, M1)
        if why:
            return "rewrite-differs", "re-serialised file holds a different database: " + why
        if (M1["library_name"], M1["library_hash_name"], M1["module_name"], M1["file_identifier"]) != names + (ident,):
            return "rewrite-differs", "re-serialised header differs: %r" % ((M1["library_name"], M1["library_hash_name"], M1["module_name"], M1["file_identifier"]),)
        outcome = "renumbered" if M["minor"] == 3 else "upgraded-from-3.%d" % M["minor"]
    # second round: byte-exact fixpoint, same dump index for index
    r, v = cx._run(["load:" + p1, "sync", "dump", "write:%s:%d" % (p2, ident)], 120, fl)
    pp = proc_problem(r)
    if pp:
        return "crash", "second round: %s; %s" % (pp, (r.err or "")[-600:])
    if v[1]["error"]:
        return "error-flag", "error flag set when loading the re-serialised file"
    b2 = open(p2, "rb").read()
    if b2 != b1:
        return "no-fixpoint", "second re-serialisation differs from the first (%d vs %d bytes)" % (len(b2), len(b1))
    dump2 = v[2]
    dd = idb.diff(idb.from_dump(dump1), idb.from_dump(dump2))
    if dd is None:
        for k in _LIST_KIND:
            if dump1[k] != dump2[k]:
                dd = "enumeration %s: %s != %s" % (k, dump1[k][:10], dump2[k][:10])
    if dd:
        return "round2-differs", "database loaded from the re-serialised file differs: " + dd
    for f in (p0, p1, p2):
        os.unlink(f)
    return outcome, None


def load_only(cx, data, ident=0):
    """load one file; returns (problem, sync value, dump)"""
    d = cx.dir()
    p0 = os.path.join(d, "f0.in")
    with open(p0, "wb") as f:
        f.write(data)
    r, v = cx._run(["load:%s:%d" % (p0, ident), "sync", "dump"], 60)
    os.unlink(p0)
    pp = proc_problem(r)
    if pp:
        return "%s; %s" % (pp, (r.err or "")[-600:]), None, None
    return None, v[1], v[2]


def judge_rejected(sync, dump, what, full=None):
    """a file that must be reported: flag set, nothing (or, if `full`, everything) merged"""
    if not (sync["error"] and dump["error"]):
        return "no-flag", "%s loaded without setting the error flag (%d records)" % (
            what, sum(len(dump[k]) for k in idb.KINDS))
    if idb.empty_dump(dump):
        return "flag+empty", None
    if full is not None and compare_loaded(full[0], full[1], dump) is None:
        return "flag+complete", None
    return "half-merged", "%s set the error flag but left %d records in the database" % (
        what, sum(len(dump[k]) for k in idb.KINDS))


# -------------------------------------------------------------- generators
def c_escape(s):
    out = []
    for ch in s:
        o = ord(ch)
        if ch == "\\":
            out.append("\\\\")
        elif ch == '"':
            out.append('\\"')
        elif ch == "\n":
            out.append("\\n")
        elif ch == "\t":
            out.append("\\t")
        elif ch == "\r":
            out.append("\\r")
        elif o < 0x20 or o >= 0x7f:
            out.append("\\%03o" % o)
        else:
            out.append(ch)
    return "".join(out)


def sigma_header(tag, s):
    """A header carrying the string s wherever a header can carry free text."""
    block = s.replace("*/", "* /")
    lines = s.replace("\r", " ").split("\n")
    doc = "\n".join("/// " + l for l in lines)
    P = "S%s_" % tag
    return ("""
/** %(block)s */
class %(P)sK {
__published:
%(doc)s
  %(P)sK();
  /** %(block)s */
  int m(const char *s = "%(lit)s", char c = 'x') const;
  enum E {
%(doc)s
    e_one,
    e_two = 2, /**< %(block)s */
  };
  int get_v() const;
  void set_v(int v);
%(doc)s
  __make_property(v, get_v, set_v);
  int get_num_w() const;
  int get_w(int n) const;
  /** %(block)s */
  __make_seq(get_ws, get_num_w, get_w);
%(doc)s
  int field;
};
__begin_publish
%(doc)s
int %(P)sfree(const char *a = "%(lit)s");
/** %(block)s */
extern int %(P)sglobal;
#define %(P)sSTR "%(lit)s"
#define %(P)sINT 12
#define %(P)sTWO 12 34
__end_publish
""" % {"P": P, "block": block, "doc": doc, "lit": c_escape(s)}).encode("latin-1")


REAL_OPTS = {
    "pn": (["-python-native"], True),
    "c+py": (["-c", "-python", "-fnames"], True),
    "od-only": (["-c", "-fnames"], False),
}


def real_file(cx, tag, text, opts, with_oc):
    d = cx.dir()
    with open(os.path.join(d, "h.h"), "wb") as f:
        f.write(text)
    args = ["-od", "o.in", "-module", "m" + tag, "-library", "l" + tag] + opts + ["h.h"]
    if with_oc:
        args = ["-oc", "o.cxx"] + args
    r = tools.interrogate(cx.br, args, cwd=d)
    p = os.path.join(d, "o.in")
    if r.rc != 0 or not os.path.exists(p):
        raise HarnessError("interrogate failed on generated header %s: %s" % (tag, r.brief()))
    return open(p, "rb").read()


def string_sites(db):
    """(label, setter) for every string field of the first record of every kind, nested
    records and alt names included, plus the module names."""
    sites = []
    for k in ("library_name", "library_hash_name", "module_name"):
        sites.append(("module." + k, lambda d, v, k=k: d.__setitem__(k, v)))
    for kind in idb.KINDS:
        idx = sorted(db[kind])[0]
        rec = db[kind][idx]
        for f, v in rec.items():
            if isinstance(v, str):
                sites.append(("%s.%s" % (kind, f), lambda d, v, kind=kind, idx=idx, f=f: d[kind][idx].__setitem__(f, v)))

        def set_alt(d, v, kind=kind, idx=idx):
            d[kind][idx]["alt_names"] = [v, "zz"]
        sites.append(("%s.alt_names[0]" % kind, set_alt))
    w = sorted(i for i, r in db["wrappers"].items() if r["parameters"])[0]
    sites.append(("wrappers.parameters[0].name", lambda d, v: d["wrappers"][w]["parameters"][0].__setitem__("name", v)))
    t = sorted(i for i, r in db["types"].items() if r["enum_values"])[0]
    for f in ("name", "scoped_name", "comment"):
        sites.append(("types.enum_values[0].%s" % f, lambda d, v, f=f: d["types"][t]["enum_values"][0].__setitem__(f, v)))
    return sites


def syn_variants(base, thorough):
    """(label, db) one-factor variants of the base database."""
    out = [("base", base)]
    sg = sigma(thorough)
    sites = string_sites(base)
    for label, setter in sites:
        for sn, s in sg:
            d = copy.deepcopy(base)
            setter(d, s)
            out.append(("%s=%s" % (label, sn), d))
    # flag bits
    flagwords = [("types", "type"), ("functions", "function"), ("wrappers", "wrapper"),
                 ("elements", "element"), ("manifests", "manifest")]
    for kind, fk in flagwords:
        idx = sorted(base[kind])[-1]
        bits = sorted(idb.FLAGS[fk].items(), key=lambda kv: kv[1])
        for bn, bv in bits + [("none", 0), ("all", sum(v for _, v in bits))]:
            d = copy.deepcopy(base)
            d[kind][idx]["flags"] = bv
            out.append(("%s.flags=%s" % (kind, bn), d))
    w = sorted(i for i, r in base["wrappers"].items() if r["parameters"])[0]
    for bn, bv in list(idb.FLAGS["parameter"].items()) + [("all", 7)]:
        d = copy.deepcopy(base)
        d["wrappers"][w]["parameters"][0]["flags"] = bv
        out.append(("wrappers.parameters[0].flags=%s" % bn, d))
    t = sorted(i for i, r in base["types"].items() if r["derivations"])[0]
    for bn, bv in list(idb.FLAGS["derivation"].items()) + [("all", 7), ("none", 0)]:
        d = copy.deepcopy(base)
        d["types"][t]["derivations"][0]["flags"] = bv
        out.append(("types.derivations[0].flags=%s" % bn, d))
    # vectors at length 0 / 1 / 2
    for kind in idb.KINDS:
        for f, dv in idb._DEFAULTS[kind].items():
            if not isinstance(dv, list):
                continue
            src = None
            for i in sorted(base[kind]):
                if len(base[kind][i][f]) >= 1:
                    src = i
                    break
            if src is None:
                raise HarnessError("base database has no non-empty %s.%s" % (kind, f))
            for n in (0, 1, 2, 5):
                d = copy.deepcopy(base)
                v = d[kind][src][f]
                d[kind][src][f] = [copy.deepcopy(v[j % len(v)]) for j in range(n)]
                out.append(("%s.%s#%d" % (kind, f, n), d))
    # integers
    ext = [0, 1, -1, 2 ** 31 - 1, -2 ** 31]
    m = sorted(base["manifests"])[0]
    for x in ext:
        d = copy.deepcopy(base)
        d["manifests"][m]["int_value"] = x
        out.append(("manifests.int_value=%d" % x, d))
        d = copy.deepcopy(base)
        te = sorted(i for i, r in base["types"].items() if r["enum_values"])[0]
        d["types"][te]["enum_values"][0]["value"] = x
        out.append(("types.enum_values[0].value=%d" % x, d))
        d = copy.deepcopy(base)
        ta = sorted(i for i, r in base["types"].items() if r["flags"] & idb.F_ARRAY)[0]
        d["types"][ta]["array_size"] = x
        out.append(("types.array_size=%d" % x, d))
        d = copy.deepcopy(base)
        d["file_identifier"] = x
        out.append(("file_identifier=%d" % x, d))
    for tok in range(10):
        d = copy.deepcopy(base)
        d["types"][sorted(base["types"])[0]]["atomic_token"] = tok
        out.append(("types.atomic_token=%d" % tok, d))
    # all optional references zero
    d = copy.deepcopy(base)
    for kind in idb.KINDS:
        for r in d[kind].values():
            for f, tgt in idb._REFS[kind]:
                if isinstance(tgt, list):
                    for sub in r[f]:
                        for sf, _ in tgt:
                            sub[sf] = 0
                elif not f.endswith("*"):
                    r[f] = 0
    out.append(("refs=0", d))
    # index layouts
    allidx = sorted(i for k in idb.KINDS for i in base[k])
    out.append(("layout=sparse", idb.remap(base, {i: 7 + 3 * i for i in allidx})))
    rev = {}
    n = 1
    for kind in ("make_seqs", "elements", "manifests", "types", "functions", "wrappers"):
        for i in sorted(base[kind], reverse=True):
            rev[i] = n
            n += 1
    out.append(("layout=reversed", idb.remap(base, rev)))
    out.append(("layout=offset1000", idb.remap(base, {i: 1000 + i for i in allidx})))
    empty = idb.new_db(5, "e", "eeee", "m")
    out.append(("empty-database", empty))
    if thorough:
        # adjacent string fields pairwise (length prefixes next to digit-like payloads)
        for (l1, s1), (l2, s2) in zip(sites, sites[1:]):
            for (n1, v1), (n2, v2) in itertools.product(sg[:-1], repeat=2):
                d = copy.deepcopy(base)
                s1(d, v1)
                s2(d, v2)
                out.append(("%s=%s+%s=%s" % (l1, n1, l2, n2), d))
    return out


def sigma_db(base):
    """base with a different SIGMA string in every string field (for the prefix family)"""
    d = copy.deepcopy(base)
    sg = [s for s in idb.SIGMA if s[0] != "long3000"]
    for n, (label, setter) in enumerate(string_sites(base)):
        setter(d, sg[n % len(sg)][1])
    return d


def renamed(base, prefix, lib):
    """a copy of base sharing no name with it (for two-file histories)"""
    d = copy.deepcopy(base)
    d["library_name"], d["library_hash_name"], d["module_name"] = lib, "hZ" + lib[:2], "mod" + lib
    for kind in idb.KINDS:
        for r in d[kind].values():
            for f in ("name", "scoped_name", "true_name"):
                if f in r and r[f]:
                    r[f] = prefix + r[f]
    return d


def history_run(cx, A, dataB, idn, good, order):
    """history of two loads: the intact library A and a second file (library 'libz')
    that is well-formed (good=True), must be rejected (False) or has a mismatching
    identifier (None); order AB | BA | lazy (both requested before the first query)"""
    B = renamed(A, "Z", "libz")
    dataA = idb.write(A)
    EA = (idb.load_defaults(A), (A["library_name"], A["library_hash_name"], A["module_name"]))
    EB = (idb.load_defaults(B), (B["library_name"], B["library_hash_name"], B["module_name"]))
    isA = lambda r: r["lib"] == A["library_name"]
    isB = lambda r: r["lib"] == B["library_name"]
    d = cx.dir()
    pa, pb = os.path.join(d, "a.in"), os.path.join(d, "b.in")
    open(pa, "wb").write(dataA)
    open(pb, "wb").write(dataB)
    ops = ["load:" + pa, "sync", "load:%s:%d" % (pb, idn), "sync", "dump"]
    if order == "BA":
        ops = ["load:%s:%d" % (pb, idn), "sync", "load:" + pa, "sync", "dump"]
    if order == "lazy":
        ops = ["load:" + pa, "load:%s:%d" % (pb, idn), "sync", "dump"]
    r, v = cx._run(ops, 60)
    os.unlink(pa)
    os.unlink(pb)
    pp = proc_problem(r)
    if pp:
        return "crash", "%s; %s" % (pp, (r.err or "")[-500:])
    dump = v[-1]
    why = compare_loaded(EA[0], EA[1], dump, only=isA)
    if why:
        return "A-damaged", "the intact library: " + why
    nB = sum(1 for k in idb.KINDS for r in dump[k].values() if not isA(r))
    if nB:
        whyB = compare_loaded(idb.load_defaults(idb.parse(dataB)) if good or good is None else EB[0],
                              EB[1], dump, only=isB)
    else:
        whyB = "nothing of it loaded"
    if good:
        if dump["error"]:
            return "flag-on-good", "error flag set by a well-formed 3.x file"
        return ("both-loaded", None) if not whyB else ("B-differs", "the second library: " + whyB)
    if not dump["error"]:
        return "no-flag", "the bad file did not set the error flag"
    if nB == 0:
        return "flag+A-only", None
    if good is None and not whyB:
        return "flag+both-complete", None
    return "half-merged", "%d records of the rejected file are in the database" % nB


# ------------------------------------------------------------------------ main
def main():
    ck = Check(PID)
    thorough = ck.tier == "thorough"
    br = build.build("rel")
    ba = build.build("asan")
    cx = Cx(ck, ba, br)
    if ck.replay:
        return replay(cx)
    want = lambda fam: ck.only is None or fam in ck.only
    base = lib_c20.synthetic_db()

    classes = {}
    CAP = 3

    def fail_file(key, what, data, outcome, rerun, extra=None):
        """at most CAP reports per (family, outcome, first difference) class; the rest of a
        class (one root cause showing in hundreds of variants) is counted, not re-confirmed"""
        import re
        sig = re.sub(r"\d+", "N", what.split(": ", 1)[-1].split(";")[0])[:80]
        cls = (key.split("/")[0], outcome, sig)
        with ck.lock:
            n = classes.get(cls, 0)
            classes[cls] = n + 1
        if n >= CAP:
            return
        det = {"observed": outcome, "file_latin1": data.decode("latin-1") if len(data) < 200000 else None}
        det.update(extra or {})
        ck.fail(key, what, det, confirm=rerun)

    # ---------------------------------------------------------------- real
    if want("real"):
        jobs = []
        sg = sigma(thorough)
        for sn, s in sg + [("all", " | ".join(x[1] for x in sg[:-1]))]:
            for on, (opts, oc) in REAL_OPTS.items():
                jobs.append((sn, s, on, opts, oc))

        def real_job(j):
            sn, s, on, opts, oc = j
            key = "real/%s/%s" % (on, sn)
            data = real_file(cx, sn, sigma_header(sn, s), opts, oc)
            M = idb.parse(data)
            carried = sum(1 for k in idb.KINDS for r in M[k].values() for v in r.values()
                          if isinstance(v, str) and s and s[:40] in v)
            outcome, prob = roundtrip(cx, data)
            ck.note(key, nontrivial=carried > 0, outcome=outcome, family="real",
                    sample={"options": opts, "with_oc": oc, "sigma": sn, "bytes": len(data),
                            "fields_carrying_sigma": carried,
                            "records": {k: len(M[k]) for k in idb.KINDS}})
            if prob:
                fail_file(key, "database written by interrogate (%s, comment alphabet %s): %s" % (on, sn, prob),
                          data, outcome, lambda: roundtrip(cx, data)[1] is not None, {"mode": "roundtrip"})
        pmap(real_job, jobs)

    # ----------------------------------------------------------------- syn
    if want("syn") and not ck.expired():
        variants = syn_variants(base, thorough)
        jobs = [(label, d, minor) for label, d in variants for minor in (3, 2, 1, 0)]

        def syn_job(j):
            label, d, minor = j
            key = "syn/3.%d/%s" % (minor, label)
            data = idb.write(d, minor=minor)
            outcome, prob = roundtrip(cx, data)
            ck.note(key, nontrivial=True, outcome=outcome, family="syn",
                    sample={"variant": label, "minor": minor, "bytes": len(data)})
            if prob:
                fail_file(key, "synthetic database, %s, written as 3.%d: %s" % (label, minor, prob),
                          data, outcome, lambda: roundtrip(cx, data)[1] is not None, {"mode": "roundtrip"})
        for i in range(0, len(jobs), 512):
            if ck.expired():
                ck.cap("syn family cut by the deadline after %d of %d files" % (i, len(jobs)))
                break
            pmap(syn_job, jobs[i:i + 512])

    # -------------------------------------------------------------- prefix
    small_real = None
    if want("prefix") and not ck.expired():
        small_real = real_file(cx, "p", sigma_header("p", "a \"q\" b"), ["-python-native"], True)
        reps = [("syn-3.3", idb.write(base)), ("sigma-3.3", idb.write(sigma_db(base))),
                ("real-pn", small_real)]
        if thorough:
            reps += [("syn-3.0", idb.write(base, minor=0)),
                     ("real-rich", real_file(cx, "r", lib_c20.rich_header("R_").encode(), ["-c", "-python", "-fnames"], True)),
                     ("sparse-3.1", idb.write(idb.remap(base, {i: 7 + 3 * i for k in idb.KINDS for i in base[k]}), minor=1))]
        for rname, data in reps:
            pdir = cx.dir()
            src = os.path.join(pdir, "full.in")
            with open(src, "wb") as f:
                f.write(data)

            def judge(n, dump, data=data):
                pre = data[:n]
                try:
                    P = idb.parse(pre)
                except idb.FormatError:
                    P = None
                if P is not None:
                    if dump["error"]:
                        return True, "flag-on-complete", ("prefix is itself a complete file (only white space "
                                                          "cut) but the error flag is set")
                    why = compare_loaded(idb.load_defaults(P), (P["library_name"], P["library_hash_name"],
                                                               P["module_name"]), dump)
                    return (True, "complete", None) if not why else (True, "complete-differs", why)
                o, prob = judge_rejected({"error": dump["error"]}, dump,
                                         "the %d-byte prefix of a %d-byte file" % (n, len(data)))
                return False, o, prob

            def run_range(lo, hi, src=src, pdir=pdir, judge=judge, alarm=3):
                """-> {n: (complete, outcome, problem)}"""
                r = cx._run(["prefixes:%s:%s:%d:%d" % (src, pdir, lo, hi)], 60 + (alarm + 2) * (hi - lo),
                            raw=True, alarm=alarm)
                if r.timeout or r.rc != 0:
                    raise HarnessError("prefix driver failed: %s" % r.brief())
                out = {}
                for line in r.out.split("\n"):
                    if line.startswith("P "):
                        _, n, js = line.split(" ", 2)
                        try:
                            out[int(n)] = judge(int(n), json.loads(js))
                        except ValueError:
                            pass        # torn line of a dying child; the X record follows
                    elif line.startswith("X "):
                        _, n, code = line.split(" ")
                        code = int(code)
                        what = ("timeout" if code == -14 else "signal %d" % -code if code < 0 else
                                "sanitizer report" if code in (98, 99) else "exit status %d" % code)
                        out[int(n)] = (None, "crash", "%s while loading; %s" % (what, (r.err or "")[-400:]))
                with ck.lock:
                    cx.loads += hi - lo
                return out

            def chunk_job(c, rname=rname, data=data, run_range=run_range):
                lo, hi = c
                res = run_range(lo, hi)
                for n in range(lo, hi):
                    if n not in res:
                        raise HarnessError("no record for prefix %d of %s" % (n, rname))
                    complete, outcome, prob = res[n]
                    key = "prefix/%s/%d" % (rname, n)
                    ck.note(key, nontrivial=n > 0, outcome=outcome, family="prefix",
                            sample={"file": rname, "prefix_bytes": n, "of": len(data), "complete": complete})
                    if prob:
                        fail_file(key, "prefix %d of %s (%d bytes): %s" % (n, rname, len(data), prob),
                                  data[:n], outcome, lambda n=n: run_range(n, n + 1, alarm=40)[n][2] is not None,
                                  {"mode": "prefix", "complete": bool(complete)})
            step = 48
            chunks = [(i, min(i + step, len(data))) for i in range(0, len(data), step)]
            for i in range(0, len(chunks), 32):
                if ck.expired():
                    ck.cap("prefix family of %s cut by the deadline after %d of %d prefixes"
                           % (rname, chunks[i][0], len(data)))
                    break
                pmap(chunk_job, chunks[i:i + 32])

    # -------------------------------------------------------------- reject
    if want("reject") and not ck.expired():
        good = idb.write(base)
        ident = base["file_identifier"]
        fullE = (idb.load_defaults(base), (base["library_name"], base["library_hash_name"], base["module_name"]))
        rj = []
        for major, minor in [(2, 3), (4, 0), (4, 3), (0, 0), (-3, 3), (30, 3), (3, 4), (3, 99), (2, 0), (33, 0)]:
            rj.append(("version=%d.%d" % (major, minor), idb.write(base, minor=min(max(minor, 0), 3)).replace(
                b"\n3 %d\n" % min(max(minor, 0), 3), b"\n%d %d\n" % (major, minor), 1), 0, "reject"))
        rj.append(("ident=mismatch", good, ident + 1, "mismatch"))
        rj.append(("ident=mismatch-neg", good, -ident, "mismatch"))
        rj.append(("ident=match", good, ident, "accept"))
        rj.append(("ident=unchecked", good, 0, "accept"))
        rj.append(("garbage", b"hello world\n", 0, "reject"))
        rj.append(("binary", bytes(range(256)), 0, "reject"))

        def reject_job(j):
            label, data, idn, mode = j
            key = "reject/" + label

            def run():
                prob, sync, dump = load_only(cx, data, idn)
                if prob:
                    return "crash", prob
                if mode == "accept":
                    if sync["error"]:
                        return "flag-on-good", "error flag set although the identifier %s" % ("matches" if idn else "is not checked")
                    why = compare_loaded(fullE[0], fullE[1], dump)
                    return ("accepted", None) if not why else ("accepted-differs", why)
                return judge_rejected(sync, dump, "file with " + label, full=fullE if mode == "mismatch" else None)
            outcome, prob = run()
            ck.note(key, nontrivial=True, outcome=outcome, family="reject", sample={"case": label, "requested_identifier": idn})
            if prob:
                fail_file(key, "%s: %s" % (label, prob), data, outcome, lambda: run()[1] is not None,
                          {"mode": "reject", "ident": idn, "expect": mode})
        pmap(reject_job, rj)

        def missing():
            d = cx.dir()
            r, v = cx._run(["load:" + os.path.join(d, "nonexistent.in"), "sync", "dump"], 60)
            pp = proc_problem(r)
            if pp:
                return "crash", pp
            return judge_rejected(v[1], v[2], "a missing file")
        outcome, prob = missing()
        ck.note("reject/missing-file", nontrivial=True, outcome=outcome, family="reject", sample={"case": "missing file"})
        if prob:
            ck.fail("reject/missing-file", prob, {"observed": outcome}, confirm=lambda: missing()[1] is not None)

    # ------------------------------------------------------------- history
    if want("history") and not ck.expired():
        A = base
        B = renamed(base, "Z", "libz")
        hj = []
        goodB = idb.write(B)
        cuts = sorted(set([0, 1, 5, 12, 40] + [len(goodB) * k // 23 for k in range(1, 23)] + [len(goodB) - 3]))
        if thorough:
            cuts = sorted(set(cuts + list(range(0, len(goodB) - 2, 7))))
        for n in cuts:
            hj.append(("truncated@%d" % n, goodB[:n], 0, False))
        hj.append(("version=4.0", goodB.replace(b"\n3 3\n", b"\n4 0\n", 1), 0, False))
        hj.append(("version=3.4", goodB.replace(b"\n3 3\n", b"\n3 4\n", 1), 0, False))
        hj.append(("ident-mismatch", goodB, B["file_identifier"] + 7, None))
        for minor in (0, 1, 2, 3):
            hj.append(("good-3.%d" % minor, idb.write(B, minor=minor), 0, True))

        def history_job(j):
            (label, dataB, idn, good), order = j
            key = "history/%s/%s" % (order, label)
            run = lambda: history_run(cx, base, dataB, idn, good, order)
            outcome, prob = run()
            ck.note(key, nontrivial=True, outcome=outcome, family="history",
                    sample={"order": order, "second_file": label, "bytes": len(dataB)})
            if prob:
                fail_file(key, "history %s with %s: %s" % (order, label, prob), dataB, outcome,
                          lambda: run()[1] is not None,
                          {"mode": "history", "order": order, "ident": idn, "good": good})
        pmap(history_job, [(j, o) for j in hj for o in ("AB", "BA", "lazy")])

    ck.extra["loads"] = cx.loads
    ck.extra["suppressed_failures"] = sum(max(0, n - CAP) for n in classes.values())
    return ck.finish(
        rule="one case = one file (or one two-file history) taken through load -> dump -> write "
             "(-> load -> dump -> write) in fresh processes; non-trivial = the case carries the "
             "varied factor (the alphabet string is present in a stored field / the prefix is "
             "non-empty / a record kind is populated); outcome classes separate byte-exact, "
             "renumbered, upgraded, rejected-and-empty, complete-prefix",
        exhaustive=True, min_nontrivial=50 if ck.only is None else 1,
        bound="SIGMA=%d strings; every string field, flag bit, vector length 0/1/2/5, minor 3.0-3.3; "
              "every prefix of the representative files; histories of depth 2" % len(idb.SIGMA),
        assumptions=["a prefix that is itself a complete well-formed file (only trailing white space "
                     "cut, or the cut falls inside the final number) is judged as that file",
                     "a file_identifier mismatch may either load nothing or load the file completely; "
                     "the flag must be set in both cases",
                     "NUL bytes inside strings are not part of the alphabet (C strings)"])


def replay(cx):
    rp = cx.ck.load_replay()
    d = rp["detail"] or {}
    print("recorded:", rp["what"])
    if d.get("file_latin1") is None:
        print("replay file holds no input file")
        cx.ck.cleanup()
        return 1
    data = d["file_latin1"].encode("latin-1")
    mode = d.get("mode")
    if mode == "roundtrip":
        outcome, prob = roundtrip(cx, data)
    elif mode == "prefix":
        pd = cx.dir()
        src = os.path.join(pd, "full.in")
        open(src, "wb").write(data)
        r = cx._run(["prefixes:%s:%s:%d:%d" % (src, pd, len(data), len(data) + 1)], 120, raw=True, alarm=40)
        print("stderr:", (r.err or "")[-800:])
        pl = [l for l in r.out.split("\n") if l.startswith("P ")]
        xl = [l for l in r.out.split("\n") if l.startswith("X ")]
        if xl or not pl:
            outcome, prob = "crash", "child status %s" % (xl[0].split(" ")[2] if xl else "?")
        else:
            dump = json.loads(pl[0].split(" ", 2)[2])
            print("records loaded:", {k: len(dump[k]) for k in idb.KINDS}, "error flag:", dump["error"])
            if d.get("complete"):
                outcome, prob = ("loaded", None) if not dump["error"] else ("flag", "error flag set")
            else:
                outcome, prob = judge_rejected({"error": dump["error"]}, dump, "the file")
    elif mode == "reject":
        prob, sync, dump = load_only(cx, data, d.get("ident", 0))
        if prob:
            outcome = "crash"
        elif d.get("complete") or d.get("expect") == "accept":
            outcome, prob = ("loaded", None) if not sync["error"] else ("flag", "error flag set")
            print("records loaded:", {k: len(dump[k]) for k in idb.KINDS})
        else:
            full = None
            if d.get("expect") == "mismatch":
                M = idb.parse(data)
                full = (idb.load_defaults(M), (M["library_name"], M["library_hash_name"], M["module_name"]))
            outcome, prob = judge_rejected(sync, dump, "the file", full=full)
    elif mode == "history":
        outcome, prob = history_run(cx, lib_c20.synthetic_db(), data, d.get("ident", 0), d.get("good"),
                                    d.get("order", "AB"))
    else:
        print("unknown replay mode", mode)
        cx.ck.cleanup()
        return 1
    print("observed now:", outcome, "|", prob)
    cx.ck.cleanup()
    return 1 if prob else 0


if __name__ == "__main__":
    run_main(main)
