"""C18 -- floating-point literals keep their value from header to generated code; the
number formatter (pdtoa) is exact; the locale-independent parser (pstrtod) is correctly
rounded under any process locale.

Shape V (exhaustive value-domain sweeps) + S (end to end).

 formatter  harness/fpconv compiles src/dtoolbase/pdtoa.cxx OF THE TREE UNDER TEST with
            the tree's own flags; for every double x of the domain D,
            strtod(pdtoa(x)) must have the bits of x (and the text must fit the 32-byte
            buffers its callers use).  D quick = both signs x all 2047 exponent fields
            (subnormals included) x 256 mantissa patterns + powers of ten, d*10^k and the
            Prettify thresholds with their +-3 ulp neighbours; D thorough = EVERY float32
            bit pattern widened to double + the lattice with 4096 patterns.
 parser     pstrtod.cxx of the tree, every spelling  i.fEe  with <= p integer digits
            (leading zeros included), <= q fraction digits, `.5`, `5.`, exponent in
            {none,0,1,+1,-1,5,-5,22,-22,23,-23,100,-100,300,-300,-320}, suffixes f F l L
            (must stay unconsumed): value bits and end pointer must equal glibc strtod
            (correctly rounded, "C" locale).  Every spelling is also parsed by a second
            object compiled from the same pstrtod.cxx with its process-locale dependent
            libc calls redirected to a ','-decimal implementation (harness/fpconv_comma.h).
 histories  the answer of the process locale may CHANGE inside one process: every sequence of
            length <= 3 over {'.', ','} of LC_NUMERIC decimal points is played in a fresh
            process, all p=q=2 spellings parsed in every step -- once against the stateful
            libc stand-ins, once with a REAL ','-locale (built with localedef into
            .build/locales, switched with setlocale); oracle strtod_l("C").
 neighbours near-equal literals (x, its ulp neighbours, x + 2.2e-16, x + 1e-17) of 40 anchors
            side by side as defaults of same-signature functions and as macros in one header.
            An end-to-end failure that does not reproduce alone is bisected to the smallest
            set of header-mates that still shows it and reported with them.
 end to end headers with 2000 `void f_i(double x = LIT);` + `#define M_i LIT` for every LIT
            of the p=q=2 space and for 17/25-significant-digit spellings of a lattice of
            doubles -> interrogate (-python-native and -c) -> the literal as
            printed in database prototypes, manifest definitions, generated code
            (`double param0 = ...;`) and its comments -> a g++-compiled checker compares the
            bits the compiler gives LIT and the printed text.
"""
import json
import os
import re
import shutil

from vf import build, harness, lib_c18, tools
from vf.core import Check, HarnessError, pmap, run_main

PID = "C18"
THREADS = 16
MAX_REPORT = 6           # reported (individually confirmed) violations per sweep kind
EXPS = ["", "e0", "e1", "e+1", "e-1", "E5", "e-5", "e22", "e-22", "e23", "e-23",
        "e100", "e-100", "e300", "e-300", "e-320"]
FLOAT_RE = re.compile(r"^(?:[0-9]+\.?[0-9]*|\.[0-9]+)(?:[eE][-+]?[0-9]+)?$")
E2E_BATCH = 2000


class Acc(object):
    """value-sweep accounting: one ck.note per sweep chunk, the value counts on top."""

    def __init__(self, ck):
        self.ck = ck
        self.values = 0
        self.nontrivial = 0
        self.per_family = {}
        self.reported_by = {}
        self.suppressed = 0

    def may_report(self, kind):
        if self.reported_by.get(kind, 0) >= MAX_REPORT:
            return False
        self.reported_by[kind] = self.reported_by.get(kind, 0) + 1
        return True

    def bulk(self, key, n, nontriv, outcome, sample, family):
        self.ck.note(key, nontrivial=nontriv > 0, outcome=outcome, sample=sample, family=family,
                     transitions=n)
        self.ck.evaluations += n - 1
        if len(self.ck.samples) < 24 and (not self.ck.samples or self.ck.samples[-1]["key"] != key):
            self.ck.samples.append({"n": self.ck.evaluations, "key": key, "case": sample})
        self.values += n
        self.nontrivial += nontriv
        self.per_family[family] = self.per_family.get(family, 0) + n


def fp_env(fpenv):
    return build.tool_env(None, {"FPCONV_FPENV": fpenv})


def run_fp(exe, args, timeout, fpenv):
    r = tools.run([exe] + [str(a) for a in args], timeout=timeout, env=fp_env(fpenv))
    if r.timeout:
        return None
    if r.rc != 0 or not r.out.strip().startswith("{"):
        raise HarnessError("fpconv %s failed: rc=%s %s" % (args, r.rc, r.err[-500:]))
    return json.loads(r.out)


def one(exe, mode, arg, fpenv):
    r = tools.run([exe, mode, arg], timeout=60, env=fp_env(fpenv))
    if r.rc not in (0, 1) or not r.out.strip().startswith("{"):
        raise HarnessError("fpconv %s %s failed: rc=%s %s" % (mode, arg, r.rc, r.err[-300:]))
    return r.rc, json.loads(r.out)


ENV_TEXT = {"ieee": "IEEE environment", "ftz": "flush-to-zero/denormals-are-zero environment "
                                              "(as set by -ffast-math linking)"}


def report_fmt(ck, acc, exe, res, fpenv):
    n = 0
    for fb in res["first_bad"]:
        if not acc.may_report("fmt/" + fpenv):
            break
        n += 1
        key = "fmt/%s/%s" % (fpenv, fb["bits"])
        ck.fail(key, "pdtoa(%s) printed %r which strtod reads back as %s [%s]"
                % (fb["bits"], fb["text"], fb["back"], ENV_TEXT[fpenv]),
                {"observed": fb["text"], "kind": "fmt", "bits": fb["bits"], "fpenv": fpenv},
                confirm=lambda b=fb["bits"]: one(exe, "one-fmt", b, fpenv)[0] == 1)
    acc.suppressed += max(0, res["bad"] - n)


def report_parse(ck, acc, exe, res, fpenv):
    for variant in ("plain", "comma"):
        fbs = res["first_bad_" + variant]
        n = 0
        for fb in fbs:
            if not acc.may_report("parse/%s/%s" % (fpenv, variant)):
                break
            n += 1
            key = "parse/%s/%s/%s" % (fpenv, variant, fb["s"])
            ck.fail(key, "pstrtod(%r)%s = %s (consumed %d), correctly rounded %s (consumed %d)"
                    % (fb["s"], " under the ','-locale seam" if variant == "comma" else "",
                       fb["got"], fb["got_end"], fb["exp"], fb["exp_end"]),
                    {"observed": fb["got"], "kind": "parse", "variant": variant, "s": fb["s"],
                     "fpenv": fpenv},
                    confirm=lambda s=fb["s"], v=variant: not one(exe, "one-parse", s, fpenv)[1]["ok_" + v])
        acc.suppressed += max(0, res["bad_" + variant] - n)


# ------------------------------------------------------------------------- end to end
def digit_strings(n):
    out = [""]
    for l in range(1, n + 1):
        out += ["%0*d" % (l, v) for v in range(10 ** l)]
    return out


def literal_space(p, q, exps=EXPS):
    ints = digit_strings(p)
    fracs = [None] + digit_strings(q)          # None: no decimal point at all
    for I in ints:
        for F in fracs:
            for X in exps:
                if F is None:
                    if not I or not X:
                        continue               # an integer literal, or nothing
                    yield I + X
                else:
                    if not I and not F:
                        continue               # "." alone
                    yield I + "." + F + X


def long_literals(thorough):
    """Literals that need all 17 significant digits: doubles of a lattice (exponent fields x
    mantissa patterns), each spelled three ways -- shortest round-trip (repr), 17 significant
    digits, and 25 significant digits (more than a 64-bit integer mantissa can hold)."""
    import struct
    mans = [0, 1, (1 << 52) - 1, 0x5555555555555, 0x8000000000001, 0x9E3779B97F4A7,
            0x3243F6A8885A3, 0xB7E151628AED2]
    out, seen = [], set()
    for e in range(0, 2047, 1 if thorough else 4):
        for m in mans:
            x = struct.unpack("<d", struct.pack("<Q", (e << 52) | m))[0]
            for t in (repr(x), "%.17g" % x, "%.24e" % x):
                if "." not in t and "e" not in t:
                    t += ".0"
                if t not in seen:
                    seen.add(t)
                    out.append(t)
    return out


def nontrivial_lit(lit):
    m = re.match(r"^([0-9]*)\.?([0-9]*)(?:[eE]([-+]?[0-9]+))?$", lit)
    frac, ex = m.group(2), m.group(3)
    return bool(frac.strip("0")) or bool(ex and int(ex) != 0)


def e2e_batch(args):
    """one header of literals through both back-ends; returns per literal the list of
    (where, printed text) and the checker's verdicts."""
    b, d, lits, float_family, real_locale = args
    os.makedirs(d, exist_ok=True)
    tool_env = None
    if real_locale:
        # the tool runs with a real ','-decimal LC_NUMERIC in force (see harness/c18_setlocale.c)
        tool_env = build.tool_env(b, {"LD_PRELOAD": REAL["so"], "LOCPATH": REAL["locpath"],
                                      "LC_NUMERIC": "xx_XX",
                                      "VERIF_SETLOC_LOG": os.path.join(d, "setloc.log")})
        del tool_env["LC_ALL"]
    h = ["__begin_publish\n"]
    for i, lit in enumerate(lits):
        if float_family:
            h.append("void f_%d(float x = %sf);\n" % (i, lit))
        else:
            h.append("void f_%d(double x = %s);\n#define M_%d %s\n" % (i, lit, i, lit))
    h.append("__end_publish\n")
    with open(os.path.join(d, "h.h"), "w") as f:
        f.write("".join(h))
    ptype = "float" if float_family else "double"
    printed = [[] for _ in lits]          # (where, text)
    for be, flags in (("pyn", ["-python-native"]), ("c", ["-c", "-fnames"])):
        r = tools.interrogate(b, ["-od", be + ".in", "-oc", be + ".cxx", "-module", "m", "-library", "l"]
                              + flags + ["h.h"], cwd=d, timeout=300, env=tool_env)
        if real_locale:
            try:
                seen = open(os.path.join(d, "setloc.log")).read().split()
            except OSError:
                seen = []
            if not seen or seen[-1] != ",":
                return {"error": "the ','-locale was not in force inside interrogate (setlocale seam "
                                 "logged %r)" % seen}
        if r.rc != 0:
            return {"error": "interrogate %s failed on a header of floating literals: %s"
                             % (be, r.brief())}
        dump = tools.idb_dump(b, [os.path.join(d, be + ".in")], cwd=d)
        seen_f = set()
        for fn in dump["functions"].values():
            m = re.match(r"^void f_(\d+)\(%s x = (.*)\);$" % ptype, fn["prototype"].strip())
            if m:
                printed[int(m.group(1))].append((be + ":db-prototype", m.group(2)))
                seen_f.add(int(m.group(1)))
        if not seen_f:
            return {"error": "database (%s) holds no recognisable prototype of %d functions"
                             % (be, len(lits))}
        for i in range(len(lits)):          # unrecognisable (e.g. garbage in the text): the
            if i not in seen_f:             # literal was not written back as a literal
                printed[i].append((be + ":db-prototype", "<no recognisable prototype>"))
        if not float_family:
            seen_m = set()
            for mf in dump["manifests"].values():
                m = re.match(r"^M_(\d+)$", mf["name"])
                if m:
                    printed[int(m.group(1))].append((be + ":db-manifest", mf["definition"].strip()))
                    seen_m.add(int(m.group(1)))
            if not seen_m:
                return {"error": "database (%s) holds none of %d manifests" % (be, len(lits))}
            for i in range(len(lits)):
                if i not in seen_m:
                    printed[i].append((be + ":db-manifest", "<manifest missing>"))
        code = open(os.path.join(d, be + ".cxx"), errors="replace").read()
        for m in re.finditer(r"void f_(\d+)\(%s x = ([^)\n]*)\)" % ptype, code):
            printed[int(m.group(1))].append((be + ":code-comment", m.group(2)))
        if be == "pyn":
            cur = None
            seen_c = set()
            for line in code.split("\n"):
                m = re.match(r"^static PyObject \*Dtool_f_(\d+)_\d+\(", line)
                if m:
                    cur = int(m.group(1))
                    continue
                m = re.match(r"^\s*%s param0 = (.*);\s*$" % ptype, line)
                if m and cur is not None:
                    printed[cur].append(("pyn:code-default", m.group(1).strip()))
                    seen_c.add(cur)
                    cur = None
            if not seen_c:
                return {"error": "generated python-native code holds no default value of %d"
                                 % len(lits)}
            for i in range(len(lits)):
                if i not in seen_c:
                    printed[i].append(("pyn:code-default", "<no recognisable default value>"))
    # the checker: the compiler gives the bits of LIT and of every printed text
    rows, notlit = [], []
    for i, lit in enumerate(lits):
        for k, (where, text) in enumerate(printed[i]):
            if not FLOAT_RE.match(text):
                notlit.append((i, where, text))
            else:
                rows.append((i, k, text))
    src = ["#include <cstdio>\n#include <cstring>\n#include <cstdint>\n"]
    T = "float" if float_family else "double"
    U = "uint32_t" if float_family else "uint64_t"
    src.append("static const %s L[] = {\n" % T)
    src.append("".join(" %s%s,\n" % (lit, "f" if float_family else "") for lit in lits))
    src.append("};\nstatic const struct { int i, k; %s v; } P[] = {\n" % T)
    src.append("".join(" {%d, %d, (%s)(%s)},\n" % (i, k, T, text) for i, k, text in rows))
    src.append("};\nint main() {\n  for (unsigned n = 0; n < sizeof(P) / sizeof(P[0]); ++n) {\n"
               "    %s a, b; memcpy(&a, &L[P[n].i], sizeof a); memcpy(&b, &P[n].v, sizeof b);\n"
               "    if (a != b) printf(\"%%d %%d %%llx %%llx\\n\", P[n].i, P[n].k, (unsigned long long)a, "
               "(unsigned long long)b);\n  }\n"
               "  for (unsigned n = 0; n < sizeof(L) / sizeof(L[0]); ++n) {\n"
               "    %s a; memcpy(&a, &L[n], sizeof a); printf(\"L %%u %%llx\\n\", n, (unsigned long long)a);\n  }\n"
               "  return 0;\n}\n" % (U, U))
    with open(os.path.join(d, "chk.cxx"), "w") as f:
        f.write("".join(src))
    r = tools.run(["g++", "-std=c++17", "-w", "-O0", "-o", "chk", "chk.cxx"], cwd=d, timeout=600)
    if r.rc != 0:
        return {"error": "g++ rejects the checker (printed text is not a literal?): %s" % r.err[:800]}
    r = tools.run([os.path.join(d, "chk")], cwd=d, timeout=120)
    if r.rc != 0:
        return {"error": "checker failed: %s" % r.brief()}
    bad = {}
    bits = {}
    for line in r.out.splitlines():
        p = line.split()
        if p[0] == "L":
            bits[int(p[1])] = p[2]
        else:
            i, k = int(p[0]), int(p[1])
            bad.setdefault(i, []).append((printed[i][k][0], printed[i][k][1], p[2], p[3]))
    for i, where, text in notlit:
        bad.setdefault(i, []).append((where, text, bits.get(i), "not-a-literal"))
    return {"printed": printed, "bad": bad, "bits": bits}


REAL = {}      # "so": setlocale preload seam, "locpath": directory holding the xx_XX locale


def e2e_single(ck, b, lit, float_family, tag, real_locale=False):
    d = os.path.join(ck.scratch(), tag)
    res = e2e_batch((b, d, [lit], float_family, real_locale))
    shutil.rmtree(d, ignore_errors=True)
    return res


def e2e_minimise(ck, b, bl, i, float_family, real_locale, tag):
    """literal bl[i] failed inside its header.  [] if it also fails alone; otherwise the
    smallest set of header-mates (indices) found by bisection with which it still fails
    (interrogate interns types and expressions: one declaration can change what is printed
    for another); None when even the whole header no longer reproduces it."""
    n = [0]

    def fails(idx):
        n[0] += 1
        sel = sorted(set(idx) | {i})
        r = e2e_batch((b, os.path.join(ck.scratch(), "%s-%d" % (tag, n[0])), [bl[j] for j in sel],
                       float_family, real_locale))
        shutil.rmtree(os.path.join(ck.scratch(), "%s-%d" % (tag, n[0])), ignore_errors=True)
        if "error" in r:
            raise HarnessError(r["error"])
        return bool(r["bad"].get(sel.index(i)))

    if fails([]):
        return []
    S = [j for j in range(len(bl)) if j != i]
    if not fails(S):
        return None
    while len(S) > 1:
        h = len(S) // 2
        if fails(S[:h]):
            S = S[:h]
        elif fails(S[h:]):
            S = S[h:]
        else:
            break
    return S


def run_e2e(ck, acc, b, family, lits, float_family, real_locale=False, groups=None):
    """groups: optional list of (label, [literals]) -- each group is one header of its own;
    otherwise the literals are cut into headers of E2E_BATCH."""
    if groups is None:
        groups = [("", lits[i:i + E2E_BATCH]) for i in range(0, len(lits), E2E_BATCH)]
    total = sum(len(g[1]) for g in groups)
    done = 0
    for c0 in range(0, len(groups), 16):
        if ck.expired(reserve=30):
            ck.cap("deadline in %s after %d of %d literals" % (family, done, total))
            return False
        chunk = groups[c0:c0 + 16]
        jobs = [(b, os.path.join(ck.scratch(), "%s-%d" % (family, c0 + j)), bl, float_family,
                 real_locale) for j, (lab, bl) in enumerate(chunk)]
        results = pmap(e2e_batch, jobs)
        for (lab, _), (bb, d, bl, ff, rl), res in zip(chunk, jobs, results):
            if "error" in res:
                raise HarnessError(res["error"])
            prefix = family + ("/" + lab if lab else "")
            for i, lit in enumerate(bl):
                pr = res["printed"][i]
                bad = res["bad"].get(i)
                places = len(pr)
                texts = sorted(set(t for _, t in pr))
                outcome = "same-bits in %d places" % places if not bad else "DIFFERENT"
                ck.note("%s/%s" % (prefix, lit), nontrivial=nontrivial_lit(lit), outcome=outcome,
                        family=family, transitions=places,
                        sample={"literal": lit + ("f" if float_family else ""),
                                "bits": res["bits"].get(i), "printed": texts})
                acc.values += 1
                acc.nontrivial += 1 if nontrivial_lit(lit) else 0
                acc.per_family[family] = acc.per_family.get(family, 0) + 1
                if not bad:
                    continue
                if not acc.may_report(family):
                    acc.suppressed += 1
                    continue
                mates = e2e_minimise(ck, b, bl, i, float_family, real_locale,
                                     "min-%s-%d-%d" % (family, c0, i))
                if mates is None:
                    raise HarnessError("failure of %s/%s did not reproduce when its header was re-run "
                                       "(batching/harness artefact): printed %r"
                                       % (prefix, lit, bad[0][1]))
                sel = sorted(set(mates) | {i})
                group = [bl[j] for j in sel]
                tpos = sel.index(i)
                n = [0]

                def confirm(group=group, tpos=tpos):
                    n[0] += 1
                    r1 = e2e_batch((b, os.path.join(ck.scratch(), "confirm-%s-%d" % (family, n[0])),
                                    group, float_family, real_locale))
                    shutil.rmtree(os.path.join(ck.scratch(), "confirm-%s-%d" % (family, n[0])),
                                  ignore_errors=True)
                    if "error" in r1:
                        raise HarnessError(r1["error"])
                    return bool(r1["bad"].get(tpos))
                w = bad[0]
                key = "%s/%s" % (prefix, lit)
                what = ("literal %s%s (bits %s) is printed as %r in %s (bits %s)%s%s"
                        % (lit, "f" if float_family else "", w[2], w[1], w[0], w[3],
                           "" if len(bad) == 1 else " and %d more places" % (len(bad) - 1),
                           " [interrogate running under a real ','-decimal LC_NUMERIC]"
                           if real_locale else ""))
                if mates:
                    others = sorted(bl[j] for j in mates)
                    key += "  @with  " + " ;; ".join(others)
                    what += ("  -- only when the same header also declares a function of the same "
                             "signature with default " + ", ".join(others[:4]))
                ck.fail(key, what,
                        {"observed": w[1], "kind": "e2e", "literal": lit, "group": group,
                         "target": tpos, "float_family": float_family, "real_locale": real_locale,
                         "all": bad}, confirm=confirm)
            if not ck.keep:
                shutil.rmtree(d, ignore_errors=True)
            done += len(bl)
    return True


def neighbour_groups():
    """near-equal literals put side by side on purpose: same-signature functions (same
    parameter name) and macros in ONE header per anchor, plus one header with all of them."""
    import math
    import struct
    anchors = [0.0, 5e-324, 1e-320, 2.2250738585072014e-308, 1e-300, 1e-100, 1e-30, 1e-20, 1e-17,
               1e-16, 2.2e-16, 1e-15, 1e-10, 1e-5, 0.001, 0.1, 0.2, 0.3, 0.5, 0.7,
               0.9999999999999999, 1.0, 1.5, 2.0, 3.141592653589793, 10.0, 100.0, 1024.0, 1e5,
               123456789.125, 1e10, 1e15, 4503599627370496.0, 9007199254740992.0, 1e16, 1e20,
               1e22, 1e23, 1e100, 1e300]

    def nxt(x, k):
        u = struct.unpack("<q", struct.pack("<d", x))[0] + k
        return struct.unpack("<d", struct.pack("<q", u))[0] if u >= 0 else None

    groups, everything = [], []
    for x in anchors:
        vals = [x, nxt(x, 1), nxt(x, -1), nxt(x, 2), x + 2.220446049250313e-16,
                x * (1 + 2.0 ** -52), x + 1e-17]
        lits = []
        for v in vals:
            if v is None or v < 0 or math.isinf(v):
                continue
            t = repr(v)
            if "." not in t and "e" not in t:
                t += ".0"
            if t not in lits:
                lits.append(t)
        groups.append((repr(x), lits))
        for t in lits:
            if t not in everything:
                everything.append(t)
    groups.append(("all", everything))
    return groups


# -------------------------------------------------------------------------------- main
def main():
    ck = Check(PID, level="model_checking")
    try:
        return explore(ck)
    finally:
        ck.cleanup()      # scratch is removed on harness errors too (unless --keep)


def explore(ck):
    b = build.build("rel")
    exe, facts = lib_c18.build_fpconv(b)
    if ck.replay:
        return replay(ck, b, exe)
    thorough = ck.tier == "thorough"
    acc = Acc(ck)
    completed = []

    def want(f):
        return not ck.only or f in ck.only

    def left():
        return max(30.0, ck.deadline_s - ck.elapsed() - 20)

    # the locale seam is only a model of the libc calls it redirects
    unmodelled = [s for s in facts["pstrtod_imports"] if s in lib_c18.UNMODELLED]
    if unmodelled:
        ck.cap("pstrtod imports %s, which the ','-locale seam does not model: locale axis "
               "unexplored" % unmodelled)
    ck.extra["pstrtod_libc_imports"] = [s for s in facts["pstrtod_imports"] if not s.startswith("_")]
    ck.extra["pstrtod_comma_object_imports"] = [s for s in facts["pstrtod_comma_imports"]
                                                if not s.startswith("_")]
    ck.extra["tree_flags"] = facts["flags"]
    for tool in ("interrogate", "interrogate_module", "parse_file"):
        r = tools.run(["nm", "-D", "--undefined-only", b[tool]])
        if re.search(r"\b(setlocale|uselocale)\b", r.out):
            ck.cap("%s calls setlocale/uselocale: process-locale axis of the tools unexplored" % tool)

    # the floating-point environment the tools really run in
    r = tools.run(["nm", b["interrogate"]])
    tool_env = "ftz" if re.search(r"\bset_fast_math\b", r.out) else "ieee"
    ck.extra["tools_fp_environment"] = ENV_TEXT[tool_env]
    envs = ["ieee", "ftz"]

    # ---- formatter, lattice (both environments)
    if want("fmt"):
        npat = 4096 if thorough else 256
        for fpenv in envs:
            res = run_fp(exe, ["fmt-lattice", npat, THREADS], left(), fpenv)
            if res is None:
                ck.cap("formatter lattice timed out")
                continue
            acc.bulk("fmt/lattice-%d/%s" % (npat, fpenv), res["checked"], res["nontrivial"],
                     "fmt %s bad=%d" % (fpenv, min(res["bad"], 1)),
                     {"domain": "2 signs x 2047 exponent fields x %d mantissa patterns + specials, %s"
                                % (npat, ENV_TEXT[fpenv]),
                      "values": res["samples"][:12]}, "fmt-lattice")
            ck.extra["pdtoa_longest_text"] = max(ck.extra.get("pdtoa_longest_text", 0), res["maxlen"])
            report_fmt(ck, acc, exe, res, fpenv)
            completed.append("formatter lattice %d patterns (%s)" % (npat, fpenv))

    # ---- parser
    if want("parse"):
        plan = [(3, 3, 1, "ieee"), (3, 3, 1, "ftz")]
        if thorough:
            plan.append((4, 4, 0, tool_env))
        for p, q, sfx, fpenv in plan:
            if ck.expired(reserve=30):
                ck.cap("deadline before parser sweep p=q=%d (%s)" % (p, fpenv))
                break
            res = run_fp(exe, ["parse", p, q, sfx, THREADS], left(), fpenv)
            if res is None:
                ck.cap("parser sweep p=q=%d (%s) timed out" % (p, fpenv))
                break
            acc.bulk("parse/p%dq%ds%d/%s" % (p, q, sfx, fpenv), res["checked"], res["nontrivial"],
                     "parse %s bad_plain=%d bad_comma=%d" % (fpenv, min(res["bad_plain"], 1),
                                                            min(res["bad_comma"], 1)),
                     {"domain": "every i.fEe, <=%d integer digits, <=%d fraction digits, 16 exponents%s; "
                                "each parsed by pstrtod, by pstrtod under the ','-locale seam and by "
                                "glibc strtod; %s" % (p, q, ", suffixes '' f F l L" if sfx else "",
                                                     ENV_TEXT[fpenv]),
                      "values": res["samples"][:12]}, "parse")
            report_parse(ck, acc, exe, res, fpenv)
            completed.append("parser p=q=%d%s (%s)" % (p, " with suffixes" if sfx else "", fpenv))

    # ---- locale-switch histories: the locale's answer may CHANGE within one process
    locpath = lib_c18.build_comma_locale()
    if locpath is None:
        ck.cap("localedef cannot build a ','-decimal locale here: real-locale passes skipped, "
               "locale modelled by the libc seam only")
    else:
        REAL["locpath"] = locpath
        REAL["so"] = harness.compile_so("c18_setlocale")
    ck.extra["real_comma_locale"] = bool(locpath)
    histories = [h for n in (1, 2, 3) for h in
                 ("".join(t) for t in __import__("itertools").product(".,", repeat=n))]
    for mode in ("seam", "real"):
        fam = "hist-" + mode
        if not want(fam) or (mode == "real" and locpath is None):
            continue
        for h in histories:
            env = build.tool_env(None, {"FPCONV_FPENV": tool_env, "LOCPATH": locpath or ""})
            r = tools.run([exe, "hist", mode, h, "2", "2", str(THREADS)], timeout=left(), env=env)
            if r.timeout:
                ck.cap("locale history %s/%s timed out" % (mode, h))
                continue
            if r.rc != 0 or not r.out.strip().startswith("{"):
                raise HarnessError("fpconv hist %s %s failed: rc=%s %s" % (mode, h, r.rc, r.err[-400:]))
            res = json.loads(r.out)
            switches = sum(1 for i in range(1, len(h)) if h[i] != h[i - 1])
            acc.bulk("%s/%s" % (fam, h), res["checked"], res["after_switch"],
                     "%s switches=%d bad=%d" % (fam, switches, min(res["bad"], 1)),
                     {"history": h, "meaning": "decimal point of the process locale in each step; every "
                                              "p=q=2 spelling parsed in every step of one process; %s"
                                              % ("stateful libc stand-ins" if mode == "seam" else
                                                 "real setlocale(LC_NUMERIC, xx_XX|C)"),
                      "bad_per_step": res["bad_per_step"]}, fam)
            nrep = 0
            for fb in res["first_bad"]:
                if not acc.may_report(fam):
                    break
                nrep += 1
                key = "%s/%s/step%d/%s" % (fam, h, fb["step"], fb["s"])

                def confirm(s_=fb["s"], h_=h, mode_=mode, env_=env):
                    rr = tools.run([exe, "one-hist", mode_, h_, s_], timeout=60, env=env_)
                    if rr.rc != 0:
                        raise HarnessError("fpconv one-hist failed: %s" % rr.err[-300:])
                    return json.loads(rr.out)["bad"] > 0
                ck.fail(key, "pstrtod(%r) = %s (consumed %d) in step %d of locale history %r (decimal "
                             "point %r in force, %s); correctly rounded %s (consumed %d)"
                        % (fb["s"], fb["got"], fb["got_end"], fb["step"], h, fb["state"],
                           "libc seam" if mode == "seam" else "real locale", fb["exp"], fb["exp_end"]),
                        {"observed": fb["got"], "kind": "hist", "mode": mode, "history": h,
                         "s": fb["s"]}, confirm=confirm)
            acc.suppressed += max(0, res["bad"] - nrep)
        completed.append("locale-switch histories of length <= 3 over {'.', ','} x p=q=2 spellings (%s)"
                         % ("stateful seam" if mode == "seam" else "real xx_XX locale"))

    # ---- end to end
    if locpath is not None and want("e2e-long-locale"):
        ll = long_literals(thorough)
        if run_e2e(ck, acc, b, "e2e-long-locale", ll, False, real_locale=True):
            completed.append("end to end long literals, interrogate under a real ','-locale (%d)" % len(ll))
    if locpath is not None and thorough and want("e2e-locale"):
        lits = list(literal_space(2, 2))
        if run_e2e(ck, acc, b, "e2e-locale", lits, False, real_locale=True):
            completed.append("end to end p=q=2, interrogate under a real ','-locale (%d)" % len(lits))
    if want("neighbours"):
        ng = neighbour_groups()
        if run_e2e(ck, acc, b, "neighbours", None, False, groups=ng):
            completed.append("end to end near-equal literals side by side (%d anchors, %d literals)"
                             % (len(ng) - 1, len(ng[-1][1])))
    if want("e2e"):
        lits = list(literal_space(2, 2))
        if run_e2e(ck, acc, b, "e2e", lits, False):
            completed.append("end to end p=q=2 (%d literals)" % len(lits))
    if want("e2e-long"):
        ll = long_literals(thorough)
        if run_e2e(ck, acc, b, "e2e-long", ll, False):
            completed.append("end to end 17/25-digit literals over a lattice of doubles (%d literals)"
                             % len(ll))
    if want("e2e-float"):
        fl = list(literal_space(1, 1, EXPS[:11]))
        if run_e2e(ck, acc, b, "e2e-float", fl, True):
            completed.append("end to end float-suffixed p=q=1 (%d literals)" % len(fl))

    # ---- formatter, every float32 (thorough)
    if thorough and want("f32"):
        step = 1 << 26
        n = 0
        for lo in range(0, 1 << 32, step):
            if ck.expired(reserve=60):
                ck.cap("deadline in float32 sweep after %d of 64 chunks" % n)
                break
            res = run_fp(exe, ["fmt-f32", lo, lo + step, THREADS], left(), tool_env)
            if res is None:
                ck.cap("float32 sweep chunk %d timed out" % n)
                break
            acc.bulk("fmt/f32-%08x" % lo, res["checked"], res["nontrivial"],
                     "fmt %s bad=%d" % (tool_env, min(res["bad"], 1)),
                     {"domain": "float32 bit patterns [%#x, %#x) widened to double, %s"
                                % (lo, lo + step, ENV_TEXT[tool_env]),
                      "values": res["samples"][:6]}, "fmt-f32")
            report_fmt(ck, acc, exe, res, tool_env)
            n += 1
        else:
            completed.append("formatter over all 2^32 float32 bit patterns")

    if acc.suppressed:
        print("%s: %d further failing values not reported individually (cap %d per sweep)"
              % (PID, acc.suppressed, MAX_REPORT), flush=True)
    return ck.finish(
        rule="evaluations = values checked (doubles formatted, spellings parsed, literals taken end "
             "to end); non-trivial: formatter -- x is neither a power of two nor an integer below "
             "2^53; parser / end to end -- the spelling has a non-zero fraction digit or a non-zero "
             "exponent",
        exhaustive=True,
        bound="; ".join(completed) if completed else None,
        states=acc.values,
        assumptions=["oracle: glibc strtod in the C locale is correctly rounded; g++ 12 assigns "
                     "literals their correctly rounded value",
                     "no ','-decimal locale exists in the image: the locale is modelled by "
                     "redirecting strtod/strtof/strtold/atof/localeconv inside pstrtod.cxx to a "
                     "','-decimal implementation; functions taking an explicit locale are not "
                     "redirected",
                     "a real ','-decimal locale xx_XX is built with localedef (hand-written ASCII "
                     "charmap); interrogate is put under it by an LD_PRELOAD constructor calling "
                     "setlocale(LC_NUMERIC, \"\") because the tools never call setlocale themselves",
                     "floating-point environment: sweeps run under the IEEE default and under "
                     "FTZ/DAZ (what crtfastmath.o sets in the -ffast-math linked tools)",
                     "doubles: structured lattice (+ every float32 value in the thorough tier), "
                     "not all 2^64 bit patterns",
                     "l/L-suffixed literals denote long double values: end to end they are not "
                     "judged (the property speaks of the double); f-suffixed ones are judged as float"],
        min_nontrivial=2,
        extra={"distinct_nontrivial": acc.nontrivial, "values_per_family": acc.per_family,
               "failing_not_reported_individually": acc.suppressed})


def replay(ck, b, exe):
    rp = ck.load_replay()
    d = rp["detail"]
    if d["kind"] == "fmt":
        rc, o = one(exe, "one-fmt", d["bits"], d.get("fpenv", "ieee"))
        print(json.dumps(o, indent=1))
        ck.cleanup()
        return rc
    if d["kind"] == "parse":
        rc, o = one(exe, "one-parse", d["s"], d.get("fpenv", "ieee"))
        print(json.dumps(o, indent=1))
        ck.cleanup()
        return 0 if o["ok_" + d["variant"]] else 1
    if d["kind"] == "hist":
        env = build.tool_env(None, {"LOCPATH": lib_c18.build_comma_locale() or ""})
        r = tools.run([exe, "one-hist", d["mode"], d["history"], d["s"]], timeout=60, env=env)
        print(r.out, r.err)
        ck.cleanup()
        return 1 if (r.rc != 0 or json.loads(r.out)["bad"] > 0) else 0
    if d.get("real_locale"):
        REAL["locpath"] = lib_c18.build_comma_locale()
        REAL["so"] = harness.compile_so("c18_setlocale")
    group = d.get("group") or [d["literal"]]
    tpos = d.get("target", 0)
    res = e2e_batch((b, os.path.join(ck.scratch(), "replay"), group, d["float_family"],
                     d.get("real_locale", False)))
    if "error" not in res:
        res = {"header_literals": group, "literal": group[tpos], "bits": res["bits"].get(tpos),
               "printed": res["printed"][tpos], "bad": res["bad"].get(tpos)}
    print(json.dumps(res, indent=1))
    ck.cleanup()
    return 1 if res.get("bad") or "error" in res else 0


if __name__ == "__main__":
    run_main(main)
