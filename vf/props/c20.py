"""C20 -- the C query interface is total and name lookups are exact.

Shape H (explicit-state search over operation histories on the real libinterrogatedb,
asan flavour, one process per history).  The total-call harness `qtotal` is generated at
check time from the tree's interrogate_interface.h (vf/lib_c20.py), so every exported
function is called.

Families
  sweep   database histories (empty | one real library making every vector non-empty |
          a synthetic library written by vf/idb.py | three real libraries merged, loaded one
          after the other): EVERY interface function x every index in [-2, next_index+2] u
          {INT_MIN, INT_MAX} x every position in [-1, maxcount+1] u {INT_MIN, INT_MAX}.
  names   after every load of every history: every stored name of every kind of the FINAL
          state, and its mutations (last char dropped, first char dropped, "_" appended,
          case flipped, blank prepended/appended, empty) through every by-name lookup
          (names of a later library must be unknown before and known after its load).
  first   for EVERY interface function f x {one library, two requested together, a second
          requested after a sync} x {request_database, request_module}: fresh process, the
          request(s), f as the very FIRST query, then the whole battery; every answer must
          equal the answer of the same call in a process that forced the load first.
  uniq    module definitions with sorted unique-name tables of every size 0..n, two modules
          in both registration orders: every present key, an absent key in every gap,
          strings of every length 0..5, known library hash + unknown wrapper hash, ...
  fptr    two module definitions with n1,n2 indices and f1,f2 function pointers, all
          combinations 0..3: interrogate_wrapper_pointer/has_pointer over every index.

Oracle: no signal / sanitizer report / timeout; an index naming no record of the right kind
gives 0 / false / "" (NULL accepted for strings); a valid index gives exactly what idbdump
shows; a name lookup returns an entity bearing that name, 0 for a name nothing bears;
each count equals the number of non-zero entries its accessor returns.
"""
import itertools
import os
import re

from vf import build, idb, lib_c20, tools
from vf.core import Check, HarnessError, pmap, run_main

PID = "C20"
UNIQ = "interrogate_get_wrapper_by_unique_name"


# ------------------------------------------------------------------- scenarios
def make_files(ck, br, thorough):
    """Real and synthetic database files; returns {name: path}."""
    d = ck.scratch("db")

    def real(name, text, opts, inc=True):
        h = os.path.join(d, name + ".h")
        with open(h, "w") as f:
            f.write(text)
        out = os.path.join(d, name + ".in")
        r = tools.interrogate(br, ["-oc", os.path.join(d, name + ".cxx"), "-od", out,
                                   "-module", "mod_" + name, "-library", "lib_" + name,
                                   "-I" + d] + opts + [name + ".h"], cwd=d)
        if r.rc != 0 or not os.path.exists(out):
            raise HarnessError("interrogate failed on generated header %s: %s" % (name, r.brief()))
        return out

    files = {}
    files["rich"] = real("rich", lib_c20.rich_header("A_"), ["-c", "-python", "-fnames"])
    files["l1"] = real("l1", lib_c20.rich_header("L1_"), ["-python-native"])
    files["l2"] = real("l2", lib_c20.rich_header("L2_", base="L1_Base", includes=["l1.h"]),
                       ["-c", "-fnames"])
    files["l3"] = real("l3", lib_c20.rich_header("L3_", base="L2_Derived",
                                                 includes=["l1.h", "l2.h"]),
                       ["-python", "-fnames"])
    files["fq1"] = real("fq1", small_header("Q1_"), ["-c", "-fnames"])
    files["fq2"] = real("fq2", small_header("Q2_"), ["-python-native"])
    syn = os.path.join(d, "syn.in")
    with open(syn, "wb") as f:
        f.write(idb.write(lib_c20.synthetic_db()))
    files["syn"] = syn
    if thorough:
        files["big"] = real("big", lib_c20.rich_header("B_", nextra=60), ["-c", "-python", "-fnames"])
    return files


def scenarios(thorough):
    s = [("empty", []), ("rich", ["rich"]), ("synthetic", ["syn"]), ("merged", ["l1", "l2", "l3"])]
    if thorough:
        for perm in itertools.permutations(["l1", "l2", "l3"]):
            if list(perm) != ["l1", "l2", "l3"]:
                s.append(("merged-" + "".join(x[1] for x in perm), list(perm)))
        s.append(("big", ["big"]))
        s.append(("all", ["syn", "rich", "l3", "l1", "big", "l2"]))
    return s


def stage_dumps(ba, paths):
    """idbdump after each load of the history (same process = same history)."""
    ops = ["dump"]
    for p in paths:
        ops += ["load:" + p, "sync", "dump"]
    r, vals = tools.idb(ba, ops, timeout=300)
    dumps = [v for v in vals if "types" in v]
    if r.rc != 0 or len(dumps) != len(paths) + 1:
        raise HarnessError("idbdump failed on history %s: %s" % (paths, r.brief()))
    return dumps


def name_universe(dump, extra=()):
    """lines (function, name) for the names file: every stored name of the final state and
    its mutations, through every lookup function of the matching kind."""
    lines = []
    for fn, (kind, field) in sorted(lib_c20.NAME_LOOKUPS.items()):
        stored = sorted({r[field] for r in dump[kind].values()})
        q = []
        for n in stored:
            q.append(n)
            q.extend(lib_c20.mutations(n))
        q += ["", "no_such_name", "int", " "]
        seen = set()
        for n in q:
            if n in seen or "\0" in n:
                continue
            seen.add(n)
            lines.append((fn, n))
    uq = sorted({w["unique_name"] for w in dump["wrappers"].values()})[:25]
    for n in uq + ["", "a", "ab", "abc", "abcd", "abcde", "no_such_unique_name"]:
        lines.append((UNIQ, n))
    for fn, n in extra:
        lines.append((fn, n))
    return lines


def write_names(path, lines):
    with open(path, "w") as f:
        for fn, n in lines:
            f.write("%s\t%s\n" % (fn, lib_c20.hexs(n)))


def max_count(dump):
    m = 0
    for kind in idb.KINDS:
        for r in dump[kind].values():
            for v in r.values():
                if isinstance(v, list):
                    m = max(m, len(v))
    return m


def cmp_val(val, exp):
    k, v = val
    if k in "ib":
        return v == int(exp)
    if k == "s":
        return (v in (None, "")) if exp in (None, "") else v == exp
    if k == "p":
        return v == exp
    return True


def bad_status(code):
    return code != 0


def status_text(code):
    if code == -14:
        return "timeout (SIGALRM)"
    if code < 0:
        return "signal %d" % -code
    if code == 99:
        return "AddressSanitizer report"
    if code == 98:
        return "UndefinedBehaviorSanitizer report"
    return "exit status %d" % code


# ---------------------------------------------------------------- the families
class Ctx:
    def __init__(self, ck, ba, exe, protos, flags):
        self.ck, self.ba, self.exe, self.protos, self.flags = ck, ba, exe, protos, flags
        self.calls = 0
        self.neutral_bad = {}      # function -> {"values": set, "example": ...}
        self.unmapped = set()
        self.classes = {}
        self.strfns = {p["name"] for p in protos if p["shape"] == "s"}

    CAP = 6

    def fail(self, key, what, detail=None, confirm=None):
        """ck.fail, but at most CAP reports per (family, function, observation) class: a
        root cause that shows at hundreds of domain points is reported CAP times (each
        confirmed in isolation) and the rest is counted under suppressed_failures."""
        fn = re.search(r"interrogate_\w+", key + " " + what)
        cls = (key.split("/")[0], fn.group(0) if fn else "", (detail or {}).get("observed", "")[:40])
        with self.ck.lock:
            n = self.classes.get(cls, 0)
            self.classes[cls] = n + 1
        if n >= self.CAP:
            return "suppressed"
        return self.ck.fail(key, what, detail, confirm=confirm)

    def single(self, pre_ops, call_op, scale=1):
        """one call in a fresh process; returns (rc, Result)"""
        res = lib_c20.run(self.ba, self.exe, list(pre_ops) + [call_op], scale=scale, timeout=120 * scale)
        return res

    def confirm_crash(self, pre_ops, call_op):
        def f():
            res = self.single(pre_ops, call_op, scale=10)
            r = res.r
            return r.timeout or r.rc != 0
        return f

    def confirm_value(self, pre_ops, call_op, pred):
        def f():
            res = self.single(pre_ops, call_op)
            if res.r.rc != 0 or res.r.timeout:
                return True
            v = answer_of(res, call_op)
            return v is None or pred(v)
        return f


def answer_of(res, call_op):
    """the answer to the final call:/calls: op of a single-call run (None if there is none)"""
    if call_op.startswith("calls:"):
        _, f, hx = call_op.split(":")
        return res.N[-1][3] if res.N and res.N[-1][1] == f and res.N[-1][2] == hx else None
    _, f, a, b = call_op.split(":")
    for (st, f2, a2, b2), v in res.R.items():
        if f2 == f and a2 == int(a) and b2 == int(b):
            return v
    return None


def run_db_scenario(cx, name, keys, files, thorough):
    ck = cx.ck
    paths = [files[k] for k in keys]
    dumps = stage_dumps(cx.ba, paths)
    final = dumps[-1]
    extra = []
    if not keys:
        extra = [(fn, n) for fn in sorted(cx.strfns) if fn not in lib_c20.NAME_LOOKUPS and fn != UNIQ
                 for n in ("", "some/dir", "a:b")]
    lines = name_universe(final, extra)
    nfile = os.path.join(ck.scratch("names"), name + ".txt")
    write_names(nfile, lines)
    ops = []
    load_prefix = []          # ops that recreate each stage: stage -> ops
    prefixes = [[]]
    if not keys:
        ops += ["names:" + nfile]
    for p in paths:
        ops += ["load:" + p, "sync", "names:" + nfile]
        load_prefix += ["load:" + p, "sync"]
        prefixes.append(list(load_prefix))
        if thorough and p != paths[-1]:
            d = dumps[len(prefixes) - 1]
            ops.append("sweep:-2:%d:%d" % (d["next_index"] + 2, max_count(d) + 1))
    ops.append("sweep:-2:%d:%d" % (final["next_index"] + 2, max_count(final) + 1))
    res = lib_c20.run(cx.ba, cx.exe, ops, timeout=900)
    if res.r.timeout or res.r.rc not in (0,):
        raise HarnessError("qtotal driver failed on scenario %s: %s" % (name, res.r.brief()))
    if len(res.S) != len(paths):
        raise HarnessError("qtotal: %d sync records for %d loads (%s)" % (len(res.S), len(paths), name))
    models = [lib_c20.Model(d, cx.flags, cx.protos) for d in dumps]
    cx.calls += res.ncalls

    # ---- crashes
    crashed = set()
    for st, f, a, b, code in res.C:
        crashed.add((st, f))
        key = "crash/%s@%d/%s(%d,%d)" % (name, st, f, a, b)
        call = "call:%s:%d:%d" % (f, a, b)
        cx.fail(key, "%s(%d, %d) on database %s after %d load(s): %s"
                % (f, a, b, name, st, status_text(code)),
                {"observed": status_text(code), "scenario": name, "keys": keys,
                 "pre_ops": sub_paths(prefixes[st], files), "call": call},
                confirm=cx.confirm_crash(prefixes[st], call))
    for st, f, hx, code in res.CN:
        crashed.add((st, f))
        key = "crash/%s@%d/%s(%r)" % (name, st, f, bytes.fromhex(hx).decode("latin-1"))
        call = "calls:%s:%s" % (f, hx)
        cx.fail(key, "%s(%r) on database %s after %d load(s): %s"
                % (f, bytes.fromhex(hx).decode("latin-1"), name, st, status_text(code)),
                {"observed": status_text(code), "scenario": name, "keys": keys,
                 "pre_ops": sub_paths(prefixes[st], files), "call": call},
                confirm=cx.confirm_crash(prefixes[st], call))
    for st, f, code, n in res.G:
        if bad_status(code) and (st, f) not in crashed:
            key = "crash-group/%s@%d/%s" % (name, st, f)
            cx.fail(key, "%s dies only when called over the whole domain in one process: %s"
                    % (f, status_text(code)), {"observed": status_text(code), "scenario": name})

    # ---- sweep values
    groups = {}
    for (st, f, a, b), val in res.R.items():
        g = groups.setdefault((st, f), {"valid": 0, "invalid": 0, "nonneutral": 0, "bad": None,
                                        "n": 0, "unmapped": False})
        g["n"] += 1
        m = models[st]
        kind, exp = m.expect(f, a, b)
        if kind == "unmapped":
            g["unmapped"] = True
            cx.unmapped.add(f)
            continue
        if kind == "neutral":
            g["invalid"] += 1
            if not m.is_neutral(f, val):
                e = cx.neutral_bad.setdefault(f, {"values": set(), "example": None})
                e["values"].add(repr(val[1]))
                if e["example"] is None:
                    e["example"] = (name, st, a, b, val, prefixes[st])
            continue
        g["valid"] += 1
        if not m.is_neutral(f, val):
            g["nonneutral"] += 1
        if not cmp_val(val, exp) and g["bad"] is None:
            g["bad"] = (a, b, val, exp)
    for (st, f), g in sorted(groups.items()):
        key = "sweep/%s@%d/%s" % (name, st, f)
        outcome = ("mismatch" if g["bad"] else "unmapped" if g["unmapped"] else
                   "ok:valid+invalid" if g["valid"] and g["invalid"] else
                   "ok:valid-only" if g["valid"] else "ok:invalid-only")
        ck.note(key, nontrivial=bool(g["nonneutral"] and g["invalid"]), outcome=outcome,
                family="sweep", transitions=g["n"],
                sample={"scenario": name, "loads": keys[:st], "function": f, "calls": g["n"],
                        "valid_calls": g["valid"], "invalid_calls": g["invalid"]})
        if g["bad"]:
            a, b, val, exp = g["bad"]
            call = "call:%s:%d:%d" % (f, a, b)
            cx.fail("value/%s@%d/%s(%d,%d)" % (name, st, f, a, b),
                    "%s(%d, %d) on database %s returns %r, idbdump shows %r" % (f, a, b, name, val[1], exp),
                    {"observed": repr(val[1]), "expected": repr(exp), "scenario": name, "keys": keys,
                     "pre_ops": sub_paths(prefixes[st], files), "call": call},
                    confirm=cx.confirm_value(prefixes[st], call, lambda v, exp=exp: not cmp_val(v, exp)))

    # ---- counts vs accessors
    for st in sorted({k[0] for k in res.R}):
        m = models[st]
        d = dumps[st]
        pmax = max_count(d) + 1
        for cf, af in lib_c20.Model.COUNT_PAIRS:
            if cf not in m.table or af not in m.table:
                continue
            kind = m.table[cf][0]
            for idx in list(d[kind]) + ["0", "-1"]:
                i = int(idx)
                c = res.R.get((st, cf, i, 0))
                if c is None:
                    continue
                ent = [res.R.get((st, af, i, n)) for n in range(-1, pmax + 1)]
                if any(e is None for e in ent):
                    continue
                nz = [n for n, e in zip(range(-1, pmax + 1), ent) if e[1] != 0]
                if nz != list(range(c[1])):
                    cx.fail("count/%s@%d/%s(%d)" % (name, st, cf, i),
                            "%s(%d) = %d but %s returns non-zero entries exactly at positions %s"
                            % (cf, i, c[1], af, nz), {"scenario": name, "keys": keys})
        for cf, af in lib_c20.Model.ENUM_PAIRS:
            c = res.R.get((st, cf, 0, 0))
            if c is None:
                continue
            nz = [a for (s2, f2, a, b), v in res.R.items() if s2 == st and f2 == af and v[1] != 0]
            if sorted(nz) != list(range(c[1])):
                cx.fail("count/%s@%d/%s" % (name, st, cf),
                        "%s() = %d but %s returns non-zero entries at positions %s"
                        % (cf, c[1], af, sorted(nz)[:20]), {"scenario": name, "keys": keys})

    # ---- names
    if sorted(res.n) != sorted(x for x in res.N if not any(c[1] == x[1] and c[0] == x[0] for c in res.CN)):
        a, b = set(map(repr, res.n)), set(map(repr, res.N))
        raise HarnessError("forked rehearsal and in-process lookups disagree on %s: %s"
                           % (name, sorted(a ^ b)[:4]))
    ngroups = {}
    for st, f, hx, val in res.N:
        nm = bytes.fromhex(hx).decode("latin-1")
        g = ngroups.setdefault((st, f), {"found": 0, "absent": 0, "n": 0, "bad": None})
        g["n"] += 1
        d = dumps[st]
        if f in lib_c20.NAME_LOOKUPS:
            kind, field = lib_c20.NAME_LOOKUPS[f]
            bearers = [int(i) for i, r in d[kind].items() if r[field] == nm]
            got = val[1]
            if bearers:
                g["found"] += 1
                ok = got in bearers
                exp = "one of %s" % bearers[:5]
            else:
                g["absent"] += 1
                ok = got == 0
                exp = 0
        elif f == UNIQ:
            g["absent"] += 1
            ok = val[1] == 0
            exp = 0
        else:
            ok, exp = True, None
            if val[0] != "v":
                cx.unmapped.add(f)
        if not ok and g["bad"] is None:
            g["bad"] = (nm, hx, val, exp)
    for (st, f), g in sorted(ngroups.items()):
        key = "names/%s@%d/%s" % (name, st, f)
        ck.note(key, nontrivial=bool(g["found"] and g["absent"]),
                outcome="mismatch" if g["bad"] else "ok:found=%s,absent=%s" % (bool(g["found"]), bool(g["absent"])),
                family="names", transitions=g["n"],
                sample={"scenario": name, "loads": keys[:st], "function": f, "lookups": g["n"],
                        "found": g["found"], "absent": g["absent"]})
        if g["bad"]:
            nm, hx, val, exp = g["bad"]
            # lookups happen between loads: recreate the whole history up to that stage,
            # including the earlier lookups that freshened the maps
            pre = []
            for i, p in enumerate(paths[:st]):
                pre += ["load:" + p, "sync"]
                if i < st - 1:
                    pre += ["names:" + nfile]
            call = "calls:%s:%s" % (f, hx)
            cx.fail("name/%s@%d/%s(%r)" % (name, st, f, nm),
                    "%s(%r) after loading %s returns %r, expected %s" % (f, nm, keys[:st], val[1], exp),
                    {"observed": repr(val[1]), "scenario": name, "keys": keys,
                     "pre_ops": [o.replace(nfile, "{names}") for o in sub_paths(pre, files)], "call": call},
                    confirm=cx.confirm_value(pre, call, lambda v, val=val: v == val))
    return len(dumps)


def sub_paths(ops, files):
    """replace scratch paths by {name} placeholders so a replay can regenerate them"""
    out = []
    inv = {v: k for k, v in files.items()}
    for o in ops:
        for p, k in inv.items():
            o = o.replace(p, "{%s}" % k)
        out.append(o)
    return out


def report_neutral(cx):
    for f, e in sorted(cx.neutral_bad.items()):
        name, st, a, b, val, pre = e["example"]
        observed = ",".join(sorted(e["values"]))
        call = "call:%s:%d:%d" % (f, a, b)
        m_is_neutral = lib_c20.Model.is_neutral
        cx.fail("neutral/%s" % f,
                   "%s returns %s for an index that names no record of its kind (e.g. (%d, %d) on "
                   "database %s); the property requires 0 / false / \"\"" % (f, observed, a, b, name),
                   {"observed": observed, "scenario": name, "pre_ops": pre, "call": call},
                   confirm=cx.confirm_value(pre, call, lambda v: not m_is_neutral(None, f, v)))


# unique names ----------------------------------------------------------------
KEYS = ["b", "bb", "d", "f", "ff", "h", "j", "jq", "l", "n", "p", "r"]
HA, HB = "aBcD", "wXyZ"
BTAB = {"d": 0, "k": 1}


def uniq_queries(nmax):
    keys = KEYS[:nmax]
    q = []
    for k in keys:
        q += [HA + k, HB + k]
    for g in ["", "a"] + [k + "!" for k in keys] + ["zzzz", "B", "~"]:
        q.append(HA + g)
    q += ["", "a", "aB", "aBc", "aBcD", "aBcDb", "q", "qq", "qqq", "qqqq", "qqqqq"]
    q += ["nope" + "b", HB + "d", HB + "e", HB + "k", HB + "zz", HB + "", HB + "a", HA + "b" * 300,
          "\xff\xfe", "\xff\xfe\xfd\xfc\xfb"]
    out, seen = [], set()
    for x in q:
        if x not in seen:
            seen.add(x)
            out.append(x)
    return out


def moddef_op(lib, hsh, nidx, nf, table):
    u = ",".join("%s=%d" % (lib_c20.hexs(k), off) for k, off in sorted(table.items()))
    return "moddef:%s:%s:%d:%d:%s" % ("-" if lib is None else lib_c20.hexs(lib),
                                     "-" if hsh is None else lib_c20.hexs(hsh), nidx, nf, u)


def run_uniq(cx, n, order, nolib, nmax):
    ck = cx.ck
    keys = KEYS[:n]
    atab = {k: (n - 1 - i) for i, k in enumerate(keys)}
    a_op = moddef_op(None if nolib else "libA", HA, n, 0, atab)
    b_op = moddef_op("libB", HB, len(BTAB), 0, BTAB)
    pre = [a_op, b_op] if order == "AB" else [b_op, a_op]
    state = "uniq/%s%s/n=%d" % (order, "-nolib" if nolib else "", n)
    queries = uniq_queries(nmax)
    nfile = os.path.join(ck.scratch("names"), state.replace("/", "_") + ".txt")
    write_names(nfile, [(UNIQ, q) for q in queries])
    res = lib_c20.run(cx.ba, cx.exe, pre + ["names:" + nfile], timeout=600)
    if res.r.timeout or res.r.rc != 0 or len(res.M) != 2:
        raise HarnessError("qtotal driver failed on %s: %s" % (state, res.r.brief()))
    cx.calls += res.ncalls
    first = {}
    for (k, fi, nx), which in zip(res.M, order):
        first[which] = fi
    tabs = {}
    if n > 0 and not nolib:
        tabs[HA] = (first["A"], atab)
    tabs[HB] = (first["B"], BTAB)

    def expected(q):
        if len(q) < 4:
            return 0
        t = tabs.get(q[:4])
        if t and q[4:] in t[1]:
            return t[0] + t[1][q[4:]]
        return 0
    got = {bytes.fromhex(hx).decode("latin-1"): val for st, f, hx, val in res.N}
    crashed = {bytes.fromhex(hx).decode("latin-1"): code for st, f, hx, code in res.CN}
    for q in queries:
        key = "%s/%s" % (state, lib_c20.hexs(q) or "empty")
        exp = expected(q)
        call = "calls:%s:%s" % (UNIQ, lib_c20.hexs(q))
        if q in crashed:
            outcome = "crash"
        elif q not in got:
            raise HarnessError("no answer and no crash record for %r in %s" % (q, state))
        else:
            outcome = "found" if got[q][1] else "zero"
        ck.note(key, nontrivial=n > 0 and not nolib, outcome=outcome, family="uniq",
                sample={"tables": {HA: atab if not nolib else None, HB: BTAB}, "order": order,
                        "query": q if len(q) < 40 else q[:20] + "...", "expected": exp})
        if q in crashed:
            cx.fail(key, "%s(%r) with a %d-entry table %s: %s (expected %d)"
                    % (UNIQ, q if len(q) < 40 else q[:20] + "...", n, sorted(atab), status_text(crashed[q]), exp),
                    {"observed": status_text(crashed[q]), "pre_ops": pre, "call": call},
                    confirm=cx.confirm_crash(pre, call))
        elif got[q][1] != exp:
            cx.fail(key, "%s(%r) with tables %s/%s returns %d, expected %d"
                    % (UNIQ, q, sorted(atab), sorted(BTAB), got[q][1], exp),
                    {"observed": str(got[q][1]), "pre_ops": pre, "call": call},
                    confirm=cx.confirm_value(pre, call, lambda v, exp=exp: v[1] != exp))


def run_fptr(cx, n1, f1, n2, f2):
    ck = cx.ck
    pre = [moddef_op("lib1", "h1h1", n1, f1, {}), moddef_op("lib2", "h2h2", n2, f2, {})]
    state = "fptr/n1=%d,f1=%d,n2=%d,f2=%d" % (n1, f1, n2, f2)
    fns = ["interrogate_wrapper_has_pointer", "interrogate_wrapper_pointer"]
    hi = n1 + n2 + 3
    res = lib_c20.run(cx.ba, cx.exe, pre + ["only:" + ",".join(fns), "sweep:-2:%d:0" % hi], timeout=300)
    if res.r.timeout or res.r.rc != 0 or len(res.M) != 2:
        raise HarnessError("qtotal driver failed on %s: %s" % (state, res.r.brief()))
    cx.calls += res.ncalls
    mods = []
    for (k, fi, nx), nf, n in zip(res.M, (f1, f2), (n1, n2)):
        if n > 0:
            mods.append((k, fi, nx, nf))
    m = lib_c20.Model({"functions": {}}, cx.flags, cx.protos, mods)
    crashed = {(f, a): code for st, f, a, b, code in res.C}
    hits = 0
    bad = None
    for f in fns:
        for a in list(range(-2, hi + 1)) + [lib_c20.INT_MIN, lib_c20.INT_MAX]:
            if (f, a) in crashed:
                cx.fail("%s/%s(%d)" % (state, f, a),
                        "%s(%d) with module ranges %s: %s" % (f, a, mods, status_text(crashed[(f, a)])),
                        {"observed": status_text(crashed[(f, a)]), "pre_ops": pre, "call": "call:%s:%d:0" % (f, a)},
                        confirm=cx.confirm_crash(pre, "call:%s:%d:0" % (f, a)))
                continue
            val = res.R.get((0, f, a, 0))
            if val is None:
                if any(g[1] == f and g[2] != 0 for g in res.G):
                    continue        # beyond the reported-crash cap
                raise HarnessError("no answer for %s(%d) in %s" % (f, a, state))
            kind, exp = m.expect(f, a, 0)
            ok = m.is_neutral(f, val) if kind == "neutral" else cmp_val(val, exp)
            if kind == "exact":
                hits += 1
            if not ok and bad is None:
                bad = (f, a, val, exp)
    ck.note(state, nontrivial=hits > 0, outcome="mismatch" if bad else "ok:hits=%d" % min(hits, 9),
            family="fptr", transitions=len(res.R),
            sample={"modules": [{"indices": n1, "fptrs": f1}, {"indices": n2, "fptrs": f2}],
                    "ranges": mods})
    if bad:
        f, a, val, exp = bad
        call = "call:%s:%d:0" % (f, a)
        cx.fail("%s/%s(%d)" % (state, f, a),
                "%s(%d) with module ranges %s returns %r, expected %r" % (f, a, mods, val[1], exp or "null/false"),
                {"observed": repr(val[1]), "pre_ops": pre, "call": call},
                confirm=cx.confirm_value(pre, call, lambda v, val=val: v == val))



# first query -----------------------------------------------------------------
def small_header(P):
    return """
/// doc
class %(P)sA {
__published:
  %(P)sA();
  virtual ~%(P)sA();
  int get_v() const;
  void set_v(int v);
  __make_property(v, get_v, set_v);
  int get_num_w() const;
  int get_w(int n) const;
  __make_seq(get_ws, get_num_w, get_w);
  enum E { e_a, e_b = 4 };
  class N { __published: N(); int q; };
  operator int () const;
  int f;
};
class %(P)sB : public %(P)sA {
__published:
  %(P)sB(int a, const char *s = "x");
};
__begin_publish
int %(P)sfree(const char *s);
extern int %(P)sglobal;
#define %(P)sLIMIT 10
__end_publish
""" % {"P": P}


def first_query_sets(files, thorough):
    """(name, request ops with {req} to be replaced by load / loadid, reference ops)"""
    a, b = (files["fq1"], files["fq2"]) if not thorough else (files["l1"], files["l2"])
    def rq(p, kind):
        return "load:" + p if kind == "database" else "loadid:%s:0" % p
    out = []
    for kind in ("database", "module"):
        out.append(("one", kind, [rq(a, kind)], [rq(a, kind), "sync"]))
        out.append(("two-together", kind, [rq(a, kind), rq(b, kind)], [rq(a, kind), rq(b, kind), "sync"]))
        out.append(("second-after-sync", kind, [rq(a, kind), "sync", rq(b, kind)],
                    [rq(a, kind), "sync", rq(b, kind), "sync"]))
    return out


def run_first_query_set(cx, setname, kind, reqs, refops, only_fn=None):
    """For EVERY interface function f: fresh process, the request(s), f as the very first
    query, then the whole battery.  Every answer must equal the answer of the same call in
    a reference process that forced the load first, and counts must match accessors."""
    ck = cx.ck
    # reference: dump (for the domain), then the battery after a forced sync
    r, vals = tools.idb(cx.ba, refops + ["dump"], timeout=120)
    dumps = [v for v in vals if "types" in v]
    if r.rc != 0 or not dumps:
        raise HarnessError("idbdump failed on %s/%s: %s" % (setname, kind, r.brief()))
    dump = dumps[-1]
    if dump["error"] or dump["pending_requests"]:
        raise HarnessError("reference load of %s/%s did not complete" % (setname, kind))
    sweep = "sweep:-2:%d:%d" % (dump["next_index"] + 2, max_count(dump) + 1)
    # one representative string argument per string function
    sargs = {}
    for p in cx.protos:
        if p["shape"] != "s":
            continue
        f = p["name"]
        if f in lib_c20.NAME_LOOKUPS:
            k, fld = lib_c20.NAME_LOOKUPS[f]
            stored = sorted(r_[fld] for i, r_ in sorted(dump[k].items(), key=lambda kv: int(kv[0])) if r_[fld])
            sargs[f] = stored[-1] if stored else "x"
        elif f == UNIQ:
            sargs[f] = "abcdefgh"
        else:
            sargs[f] = "some/dir"
    nfile = os.path.join(ck.scratch("names"), "first-%s-%s.txt" % (setname, kind))
    write_names(nfile, sorted(sargs.items()))
    ref = lib_c20.run(cx.ba, cx.exe, refops + [sweep, "names:" + nfile], timeout=600)
    if ref.r.timeout or ref.r.rc != 0 or any(g[2] != 0 for g in ref.G):
        raise HarnessError("reference battery failed on %s/%s: %s" % (setname, kind, ref.r.brief()))
    sweep1 = sweep.replace("sweep:", "sweep1:")

    def after_last_sync(out):
        i = out.rfind("\nS\t")
        return out[out.index("\n", i + 1) + 1:]
    ref_text = {sweep: after_last_sync("\n" + ref.r.out)}
    if cx.ck.tier != "thorough":
        r1 = lib_c20.run(cx.ba, cx.exe, refops + [sweep1, "names:" + nfile], timeout=600)
        if r1.r.timeout or r1.r.rc != 0:
            raise HarnessError("reference battery failed on %s/%s: %s" % (setname, kind, r1.r.brief()))
        ref_text[sweep1] = after_last_sync("\n" + r1.r.out)
    # the reference itself must satisfy count == entries
    for cf, af in lib_c20.Model.ENUM_PAIRS:
        c = ref.R.get((len(ref.S), cf, 0, 0))
        nz = sorted(a for (st, f2, a, b), v in ref.R.items() if f2 == af and v[1] != 0)
        if c is None or nz != list(range(c[1])):
            raise HarnessError("reference run violates count == entries for %s" % cf)
    refR = {k[1:]: v for k, v in ref.R.items()}
    refN = {(f, hx): v for st, f, hx, v in ref.N}
    model = lib_c20.Model(dump, cx.flags, cx.protos)
    cx.calls += ref.ncalls

    def first_call(p):
        f = p["name"]
        if p["shape"] == "s":
            return "calls:%s:%s" % (f, lib_c20.hexs(sargs[f])), refN[(f, lib_c20.hexs(sargs[f]))]
        # a valid argument of the LAST requested library: the non-neutral answer with the
        # greatest index (index assignment is deterministic for a given load order)
        best = None
        for (f2, a, b), v in refR.items():
            if f2 == f and abs(a) < 2 ** 30 and abs(b) < 2 ** 30 and not model.is_neutral(f, v):
                if best is None or (a, -b) > (best[0], -best[1]):
                    best = (a, b)
        a, b = best or (1, 0)
        if len(p["shape"]) < 2:
            b = 0
        if len(p["shape"]) < 1:
            a = 0
        return "call:%s:%d:%d" % (f, a, b), refR[(f, a, b)]

    def one(p):
        if p is None:
            # no first query in the driver: every function's forked child is itself the
            # first query after the request(s)
            f, key, call, want = "(each function in its own child)", "first/%s/%s/each" % (setname, kind), None, None
            sw = sweep
            ops = list(reqs) + [sw, "names:" + nfile]
        else:
            f = p["name"]
            key = "first/%s/%s/%s" % (setname, kind, f)
            call, want = first_call(p)
            sw = sweep if cx.ck.tier == "thorough" else sweep1
            ops = list(reqs) + [call, sw, "names:" + nfile]

        def run():
            res = lib_c20.run(cx.ba, cx.exe, ops, timeout=600, parse=False)
            if res.r.timeout or res.r.rc != 0:
                return res, "crash", "%s as the first query after the request: %s; %s" % (
                    call, "timeout" if res.r.timeout else status_text(res.r.rc), (res.r.err or "")[-300:])
            out = res.r.out or ""
            if reqs[-1] != "sync" and "sync" in reqs:
                out = after_last_sync("\n" + out)
            if call is None:
                got, rest = want, out
            else:
                first, _, rest = out.partition("\n")
                first = first.split("\t")
                if first[0] not in ("R", "N") or first[1] != f:
                    return res, "no-answer", "no answer recorded for the first query %s" % call
                got = lib_c20._val(first[-1])
            if got != want:
                return res, "first-differs", ("%s as the FIRST query after the request answers %r; the same "
                                              "call after a forced load answers %r" % (call, got[1], want[1]))
            if rest == ref_text[sw]:
                return res, "same", None
            # slow path: find the difference
            lib_c20.parse_output(out, res)
            for g in res.G:
                if g[2] != 0:
                    return res, "crash", "%s dies in the battery after first query %s: %s" % (
                        g[1], call, status_text(g[2]))
            R = {k[1:]: v for k, v in res.R.items()}
            for k2 in sorted(refR):
                if R.get(k2) != refR[k2]:
                    return res, "battery-differs", (
                        "after first query %s, %s%r answers %r; with the load forced first it answers %r"
                        % (call, k2[0], k2[1:], (R.get(k2) or (None, None))[1], refR[k2][1]))
            for st, f2, hx, v in res.N:
                if refN.get((f2, hx)) != v:
                    return res, "battery-differs", (
                        "after first query %s, %s(%r) answers %r; with the load forced first it answers %r"
                        % (call, f2, bytes.fromhex(hx).decode("latin-1"), v[1], refN.get((f2, hx), (None, None))[1]))
            for cf, af in lib_c20.Model.ENUM_PAIRS:
                c = R.get((cf, 0, 0))
                nz = sorted(a for (f2, a, b), v in R.items() if f2 == af and v[1] != 0)
                if c is not None and nz != list(range(c[1])):
                    return res, "count-differs", "%s() = %d but %s returns entries at %s" % (cf, c[1], af, nz[:12])
            return res, "same", None
        res, outcome, prob = run()
        ncalls = (res.r.out or "").count("\nR\t") + (res.r.out or "").count("\nN\t")
        cx.calls += ncalls
        ck.note(key, nontrivial=p is None or not model.is_neutral(f, want) or p["rk"] == "v", outcome=outcome,
                family="first-query", transitions=max(1, ncalls),
                sample={"set": setname, "request": kind, "first_query": call, "reference_answer": want[1] if want else None,
                        "battery_calls": ncalls})
        if prob:
            cx.fail(key, "[%s, request_%s] %s" % (setname, kind, prob),
                    {"observed": outcome + ": " + prob[:120], "ops": sub_paths(ops, cx.files)},
                    confirm=lambda: run()[2] is not None)
    jobs = [None] + list(cx.protos)
    if only_fn is not None:
        jobs = [None] if only_fn == "each" else [p for p in cx.protos if p["name"] == only_fn]
    pmap(one, jobs)


# ------------------------------------------------------------------------ main
def main():
    ck = Check(PID)
    thorough = ck.tier == "thorough"
    br = build.build("rel")
    ba = build.build("asan")
    exe, protos = lib_c20.qtotal(ba)
    flags = lib_c20.read_flags(ba["repo"])
    cx = Ctx(ck, ba, exe, protos, flags)
    files = make_files(ck, br, thorough)
    cx.files = files
    if ck.replay:
        return replay(cx, files)

    want = lambda fam: ck.only is None or fam in ck.only
    states = 0
    if want("sweep"):
        scen = scenarios(thorough)
        done = 0

        def one(s):
            return run_db_scenario(cx, s[0], s[1], files, thorough)
        for n in pmap(one, scen, workers=8):
            states += n
        report_neutral(cx)
        # vacuity guard on the generator: the real library must make every vector non-empty
        d = idb.parse(open(files["rich"], "rb").read())
        empty = []
        for kind in idb.KINDS:
            for f, v in idb._DEFAULTS[kind].items():
                if isinstance(v, list) and f != "alt_names":
                    if not any(r[f] for r in d[kind].values()):
                        empty.append("%s.%s" % (kind, f))
        if empty:
            raise HarnessError("generated header leaves vectors empty: %s" % empty)
    if want("first") and not ck.expired():
        for setname, kind, reqs, refops in first_query_sets(files, thorough):
            if ck.expired():
                ck.cap("first-query family cut by the deadline before %s/%s" % (setname, kind))
                break
            run_first_query_set(cx, setname, kind, reqs, refops)
            states += len(protos) + 1
    nmax = 12 if thorough else 6
    if want("uniq") and not ck.expired():
        jobs = [(n, order, False) for n in range(nmax + 1) for order in ("AB", "BA")]
        jobs += [(2, "AB", True)]
        pmap(lambda j: run_uniq(cx, j[0], j[1], j[2], nmax), jobs)
        states += len(jobs)
    if want("fptr") and not ck.expired():
        top = 4 if thorough else 3
        jobs = list(itertools.product(range(top + 1), repeat=4))
        for i in range(0, len(jobs), 128):
            if ck.expired():
                ck.cap("fptr family cut by the deadline after %d of %d histories" % (i, len(jobs)))
                break
            pmap(lambda j: run_fptr(cx, *j), jobs[i:i + 128])
            states += len(jobs[i:i + 128])

    ck.extra["interface_functions"] = len(protos)
    ck.extra["calls"] = cx.calls
    ck.extra["functions_without_value_model"] = sorted(cx.unmapped)
    ck.extra["suppressed_failures"] = sum(max(0, n - cx.CAP) for n in cx.classes.values())
    return ck.finish(
        rule="one case = one forked child of the harness: (database history, stage, interface "
             "function) called over the whole index x position domain, or one unique-name query "
             "on one module-table state, or one two-module fptr history; non-trivial = the "
             "function saw an index naming a record (non-neutral answer) AND one naming none / "
             "a lookup function found one name and missed another / a table of size >= 1 / a "
             "pointer was actually returned / the first query has a non-neutral reference answer",
        exhaustive=True, states=states, min_nontrivial=50,
        bound="indices [-2,next_index+2]+{INT_MIN,INT_MAX}; positions [-1,maxcount+1]+extremes; "
              "unique tables 0..%d x 2 orders; fptr (n1,f1,n2,f2) in 0..%d"
              % (nmax, 4 if thorough else 3),
        assumptions=["NULL is accepted as the neutral value of a const char* function",
                     "functions listed under functions_without_value_model are checked for "
                     "totality only"])


def replay(cx, files):
    rp = cx.ck.load_replay()
    d = rp["detail"] or {}
    if rp["key"].startswith("first/"):
        _, setname, kind, fn = rp["key"].split("/")
        for sn, k, reqs, refops in first_query_sets(files, rp.get("tier") == "thorough"):
            if (sn, k) == (setname, kind):
                run_first_query_set(cx, sn, k, reqs, refops, only_fn=fn)
        print("recorded:", rp["what"])
        print("observed now:", [v["what"] for v in cx.ck.violations] or "same answers as the reference process")
        cx.ck.cleanup()
        return 1 if cx.ck.violations else 0
    if "call" not in d:
        print("replay file holds no single call:", rp.get("what"))
        cx.ck.cleanup()
        return 1
    pre = []
    for o in d.get("pre_ops", []):
        for k, p in files.items():
            o = o.replace("{%s}" % k, p)
        pre.append(o)
    if any("{names}" in o for o in pre):
        # the lookups made between the loads are part of the history: regenerate them
        paths = [files[k] for k in d["keys"]]
        final = stage_dumps(cx.ba, paths)[-1]
        nfile = os.path.join(cx.ck.scratch("names"), "replay.txt")
        write_names(nfile, name_universe(final))
        pre = [o.replace("{names}", nfile) for o in pre]
    res = cx.single(pre, d["call"], scale=10)
    print("ops:", " ".join(pre + [d["call"]]))
    print("exit status:", res.r.rc, "timeout:", res.r.timeout)
    v = answer_of(res, d["call"])
    print("answer:", v)
    print("stderr:", (res.r.err or "")[-1500:])
    print("recorded:", rp["what"])
    cx.ck.cleanup()
    bad = res.r.timeout or res.r.rc != 0 or v is None
    if not bad and "observed" in d:
        bad = repr(v[1]) == d["observed"] or (rp["key"].startswith("neutral/") and repr(v[1]) in d["observed"].split(","))
    return 1 if bad else 0


if __name__ == "__main__":
    run_main(main)
