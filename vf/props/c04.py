"""C04 -- only the published API of the files named on the command line is exported.

Shape S.  The enumerated space is

    layout     a class/struct with <=3 members, member in {method, static method, data
               member, nested enum, nested class, constructor, destructor, =delete method,
               template method, method taking a private nested type, method taking T&&,
               friend function} x label in {__published, public, protected, private,
               private + __begin_publish region around the member, private + empty region
               before the member, no label}, the class inside or outside a __begin_publish
               region; global functions / variables / macros / enums / classes / typedefs
               inside or outside a publish region; static/deleted/template/rvalue functions;
               namespace members (unreferenced / referenced by an exported signature); a
               foreign type named by an exported signature or base list; a derived class
               re-declaring an inherited virtual (base declaration x derived declaration
               sections, 8 inheritance shapes, const/pure) which must stay reachable; a
               published member whose parameter / return / data / callback type involves a
               private or protected nested class or enum directly, through pointer or const
               reference, or through typedefs declared in any section
  x placement  command-line file, second command-line file, header found in cwd, header
               found via the includer's directory, via -I, via -S (<> and ""), .cxx file
               (included / named on the command line)
               -- and 2 or 3 command-line headers in every ORDER x include relation {none,
               a>b, a>b>c, a>c+b>c} x how the include is found {includer's directory, -I, -S
               with <> and "", path relative to cwd} x location of each file {cwd,
               subdirectory, absolute path} x {#pragma once, include guard}
               -- and chains of 2-3 classes, each with published / only public / no members,
               each derivation public / protected / private / default of class / default of
               struct / virtual public: a base reachable through the recorded derivations (or
               named in the python-native tp_bases tuple) must satisfy std::is_convertible
               <Derived*, Base*> according to g++
  x mode       default | -promiscuous
  x command    none | ignoremember | ignoretype | ignoreinvolved | ignorefile (of the main
               file / of the cwd header) | forcetype | forcevisible    (.N next to the source)
  x back-end   -c -fnames | -python-native

Every (layout, placement, mode, command, back-end) is one case.  Layouts carry globally
unique identifiers, so many are batched into one interrogate run; each failing case is
re-run alone twice before it is reported.

Oracle: vf/hg.py holds, per atom, a literal transcription of the property's "if and only
if" (verdict present / absent / free per declared identifier).  Observed: the entities of
the database written by the run (tools.idb_dump: functions, wrappers, elements, manifests,
defined types) and the atom identifiers mentioned by the generated -oc code (comments
stripped); for -c the set of wrapper symbols defined in the -oc file must equal the set of
wrappers in the database.  The SAFETY direction (an identifier judged absent is reachable)
and the PRESENCE direction (an identifier judged present is missing) are separate families.
"""
import os
import re
import shutil

from vf import build, hg, tools
from vf.core import Check, HarnessError, pmap_proc, run_main

PID = "C04"

# InterrogateType / InterrogateFunction flags
T_GLOBAL, T_FULLY, T_NESTED, T_ENUM, T_TYPEDEF = 0x1, 0x2000, 0x40000, 0x80000, 0x200000
T_ATOMIC, T_CLASSISH = 0x2, 0x400 | 0x800 | 0x1000
F_GETTER, F_SETTER, F_CTOR, F_DTOR = 0x10, 0x20, 0x100, 0x200

PLACEMENTS = ("main", "second", "cwd", "incl", "I", "Sang", "Squo", "cxxinc", "cxxcmd")
LOCAL = {"main": True, "second": True, "cwd": True, "incl": False, "I": False,
         "Sang": False, "Squo": False, "cxxinc": None, "cxxcmd": None}   # None: .cxx, see rule
FILE_OF = {"main": "sub/m.h", "second": "second.h", "cwd": "bycwd.h", "incl": "sub/byincl.h",
           "I": "dI/byI.h", "Sang": "dS/bySa.h", "Squo": "dS/bySq.h", "cxxinc": "srcinc.cxx",
           "cxxcmd": "third.cxx"}
MAIN_INCLUDES = ['#include "bycwd.h"', '#include "byincl.h"', '#include "byI.h"',
                 '#include <bySa.h>', '#include "bySq.h"', '#include "srcinc.cxx"',
                 '#include "foreign.h"']
COMMANDS = (None, "ignoremember", "ignoretype", "ignoreinvolved", "ignorefile:main",
            "ignorefile:cwd", "forcetype", "forcevisible")
LAYOUT_COMMANDS = (None, "ignoremember", "ignoreinvolved", "forcevisible")
MODES = (False, True)
BACKENDS = {"c": ["-c", "-fnames"], "pynative": ["-python-native"]}

# every identifier the generator emits: <prefix letters+digits> then _word / Upper+digits
_MENTION_RE = re.compile(
    r"(?<![A-Za-z0-9])([a-z]{1,2}[0-9]+(?:_[A-Za-z]+[0-9]*[a-z]?|[A-Z][0-9]*))(?![A-Za-z0-9])")


class MentionSet(set):
    """identifiers mentioned by the generated code (+ .tp_bases for python-native)"""
    tp_bases = None


def mentions(code):
    return set(_MENTION_RE.findall(hg.strip_comments(code)))


class Bundle:
    """A set of atoms per placement = the input files of one interrogate run."""

    def __init__(self, name, placed):
        self.name = name
        self.placed = placed                      # placement -> [atom]
        self.n = sum(len(v) for v in placed.values())

    def files(self):
        out = {}
        for pl in PLACEMENTS:
            atoms = self.placed.get(pl, [])
            body = "".join(a.render() for a in atoms)
            if pl == "main":
                body = "\n".join(MAIN_INCLUDES) + "\n" + body
            out[FILE_OF[pl]] = body
        # foreign classes of RefAtoms live in a header reached through -I
        out["dI/foreign.h"] = "".join(a.render_foreign() for v in self.placed.values()
                                      for a in v if isinstance(a, hg.RefAtom))
        return out

    def command_file(self, cmd):
        if cmd is None:
            return None
        L = ["# generated for " + cmd]
        if cmd == "ignorefile:main":
            L.append("ignorefile sub/m.h")
        elif cmd == "ignorefile:cwd":
            L.append("ignorefile  bycwd.h   # trailing comment")
        else:
            for v in self.placed.values():
                for a in v:
                    if not isinstance(a, hg.ClassAtom):
                        continue
                    if cmd == "ignoremember":
                        L.append("ignoremember\t%s " % a.mname(0))
                    elif cmd == "ignoreinvolved":
                        L.append("ignoreinvolved %s \t# the forward-declared helper" % a.kname)
                    else:
                        L.append("  %s\t%s  " % (cmd, a.cname))
        return "\n".join(L) + "\n"


def atom_cmd(cmd, placement):
    """the command as seen by an atom sitting in `placement`"""
    if cmd is None:
        return None
    if cmd.startswith("ignorefile"):
        tgt = cmd.split(":")[1]
        return "ignorefile" if tgt == placement else None
    return cmd


def run_bundle(b, bundle, promiscuous, cmd, backend, rundir):
    """Execute interrogate on the bundle; returns (db dump, mentioned identifiers,
    wrapper symbols defined in -oc (None for pynative), R)."""
    shutil.rmtree(rundir, ignore_errors=True)
    for rel, text in bundle.files().items():
        p = os.path.join(rundir, rel)
        os.makedirs(os.path.dirname(p), exist_ok=True)
        with open(p, "w") as f:
            f.write(text)
    cf = bundle.command_file(cmd)
    if cf is not None:
        with open(os.path.join(rundir, "sub", "m.N"), "w") as f:
            f.write(cf)
    args = ["-oc", "o.cxx", "-od", "o.in", "-module", "m", "-library", "l"] + BACKENDS[backend] \
        + ["-IdI", "-SdS"]
    if promiscuous:
        args.append("-promiscuous")
    args += ["sub/m.h", "second.h", "third.cxx"]
    r = tools.interrogate(b, args, cwd=rundir, timeout=1800)
    if r.rc != 0 or r.timeout:
        return None, None, None, r
    db = tools.idb_dump(b, [os.path.join(rundir, "o.in")])
    code = open(os.path.join(rundir, "o.cxx")).read()
    ment = mentions(code)
    # python-native: the base tuple each generated Python type is given
    tpb = {}
    for m in re.finditer(r"Dtool_(\w+)\._PyType\.tp_bases = PyTuple_Pack\(\d+([^;]*)\);", code):
        tpb[m.group(1)] = re.findall(r"Dtool_(?:Ptr_)?(\w+)", m.group(2))
    ment = MentionSet(ment)
    ment.tp_bases = tpb
    syms = None
    if backend == "c":
        syms = set(re.findall(r"^EXPORT_FUNC [^;]*?\b(_in[A-Za-z0-9_]+)\(", code, re.M))
    return db, ment, syms, r


class Observed:
    """Entities of one database, attributed to atoms by identifier prefix."""

    def __init__(self, db, ment, syms):
        self.ment, self.syms = ment, syms
        self.tp_bases = getattr(ment, "tp_bases", None) or {}
        T, F, W = db["types"], db["functions"], db["wrappers"]
        self.names = {}          # prefix -> set of identifiers exposed by database records
        self.ctor_int = set()    # (class name, n): a constructor wrapper with n int params exists
        self.dtor = set()        # class names with a destructor recorded
        self.cls_defined = set() # scoped names of class/enum/typedef records that are defined
        self.cls_any_fn = set()  # first components of every function record
        self.fn_scoped = set()   # scoped names of all function records
        self.methods = {}        # class scoped name -> simple names of its recorded methods
        self.bases = {}          # class scoped name -> scoped names of its recorded bases
        nested_listed = set()
        for t in T.values():
            nested_listed.update(t["nested_types"])
        glob = set(db["global_types"])

        def expose(scoped, strip_acc=False):
            comps = [c.strip() for c in scoped.split("::")]
            if strip_acc and comps:
                comps[-1] = re.sub(r"^[gs]et_", "", comps[-1])
            for c in comps:
                o = hg.owner(c)
                if o:
                    self.names.setdefault(o, set()).add(c.lstrip("~"))

        for i, t in T.items():
            fl = t["flags"]
            if not (fl & (T_CLASSISH | T_ENUM | T_TYPEDEF)):
                continue
            defined = bool(fl & T_FULLY) or t["constructors"] or t["methods"] or t["elements"] \
                or t["nested_types"] or t["destructor"] or t["casts"] or t["make_seqs"] \
                or t["enum_values"]
            listed = int(i) in glob or int(i) in nested_listed
            if fl & T_CLASSISH and not (fl & (T_ENUM | T_TYPEDEF)):
                self.methods[t["scoped_name"]] = set(
                    F[str(m)]["name"] for m in t["methods"] if str(m) in F
                    and (F[str(m)]["c_wrappers"] or F[str(m)]["python_wrappers"]))
                self.bases[t["scoped_name"]] = [T[str(d["base"])]["scoped_name"]
                                                for d in t["derivations"] if str(d["base"]) in T]
                if defined:
                    self.cls_defined.add(t["scoped_name"])
                    expose(t["scoped_name"])
                if t["destructor"]:
                    self.dtor.add(t["scoped_name"])
            elif defined and (listed or fl & T_FULLY):
                self.cls_defined.add(t["scoped_name"])
                expose(t["scoped_name"])
                for ev in t["enum_values"]:
                    expose(ev["scoped_name"])
        for i, f in F.items():
            sn = f["scoped_name"]
            comps = sn.split("::")
            self.cls_any_fn.add(comps[0])
            self.fn_scoped.add(sn)
            fl = f["flags"]
            if fl & F_DTOR:
                self.dtor.add("::".join(comps[:-1]))
                # the enclosing classes are exposed, the destructor itself is '@dtor'
                expose("::".join(comps[:-1]))
                continue
            if fl & F_CTOR:
                expose("::".join(comps[:-1]))
                for wi in f["c_wrappers"] + f["python_wrappers"]:
                    w = W[str(wi)]
                    n_int = 0
                    for p in w["parameters"]:
                        pt = T[str(p["type"])]
                        if pt["flags"] & T_ATOMIC and pt["true_name"] == "int":
                            n_int += 1
                    self.ctor_int.add(("::".join(comps[:-1]), n_int))
                continue
            expose(sn, strip_acc=bool(fl & (F_GETTER | F_SETTER)))
        for e in db["elements"].values():
            # an element record without any accessor function makes nothing reachable
            if e["getter"] or e["setter"] or e["has_function"] or e["clear_function"] \
                    or e["del_function"] or e["length_function"]:
                expose(e["scoped_name"])
        for m in db["manifests"].values():
            expose(m["name"])
        for s in db["make_seqs"].values():
            expose(s["scoped_name"])
        self.wrapper_names = set(w["name"] for w in W.values())

    def reachable(self, cls, fname):
        """is a callable method `fname` recorded for `cls` or for a class the database lists
        (transitively) among its bases?"""
        seen, todo = set(), [cls]
        while todo:
            c = todo.pop()
            if c in seen:
                continue
            seen.add(c)
            if fname in self.methods.get(c, ()):
                return True
            todo += self.bases.get(c, [])
        return False


def judge(atom, placement, promiscuous, cmd, obs):
    """Compare the model of one atom with the observation.  Returns (leaks, missing,
    counts) where leaks/missing are lists of (identifier, detail)."""
    loc = LOCAL[placement]
    v = atom.model(promiscuous, atom_cmd(cmd, placement), bool(loc))
    if loc is None:
        # .cxx placement: the property says "named on the command line / found in cwd",
        # generated code cannot include a .cxx; presence is left unjudged, safety is kept
        v = atom.model(promiscuous, atom_cmd(cmd, placement), True)
        v = {k: ("free" if x == "present" else x) for k, x in v.items()}
    if cmd == "forcetype" and loc is False and isinstance(atom, hg.ClassAtom):
        # forcetype deliberately pulls in a type from a non-local file; the property does not
        # define that.  Judge it as if the file were local, but require nothing: what the
        # visibility rules exclude stays excluded, the rest is unjudged
        v = atom.model(promiscuous, "forcetype", True)
        v = {k: ("free" if x == "present" else x) for k, x in v.items()}
    names = obs.names.get(atom.p, set())
    leaks, missing = [], []
    n = {"present": 0, "absent": 0, "free": 0}
    for ident, verdict in sorted(v.items()):
        n[verdict] += 1
        if ident == "@class":
            seen_db = atom.cname in obs.cls_defined
            seen_code = atom.cname in obs.ment
            if verdict == "absent":
                # nothing of the class may be reachable: no defined record, no function
                # record under it, not named in the code
                if seen_db or seen_code or atom.cname in obs.cls_any_fn:
                    leaks.append((ident, "class record defined=%s fn=%s code=%s"
                                  % (seen_db, atom.cname in obs.cls_any_fn, seen_code)))
            elif verdict == "present" and not seen_db:
                missing.append((ident, "no defined type record"))
            continue
        if ident.startswith("@ctor/"):
            seen = (atom.cname, int(ident[6:])) in obs.ctor_int
            if verdict == "absent" and seen:
                leaks.append((ident, "constructor wrapper with that many int parameters exists"))
            elif verdict == "present" and not seen:
                missing.append((ident, "no constructor wrapper with that many int parameters"))
            continue
        if ident.startswith("@fn/"):
            seen = ident[4:] in obs.fn_scoped
            if verdict == "absent" and seen:
                leaks.append((ident, "function record exists"))
            elif verdict == "present" and not seen:
                missing.append((ident, "no function record"))
            continue
        if ident.startswith("@reach/"):
            _, cls, fname = ident.split("/")
            if verdict == "present" and not obs.reachable(cls, fname):
                missing.append((ident, "a method declared with the requested visibility is recorded "
                                       "neither for the class nor for any base class the database "
                                       "lists for it"))
            continue
        if ident == "@hier":
            # every base that the database (or the python-native base tuple) makes reachable
            # from an exported class of the chain must be reachable for an outsider in C++
            for li, L in enumerate(atom.classes):
                if L not in obs.cls_defined:
                    continue
                seen, todo = set(), list(obs.bases.get(L, []))
                while todo:
                    x = todo.pop()
                    if x in seen:
                        continue
                    seen.add(x)
                    todo += obs.bases.get(x, [])
                for bi, B in enumerate(atom.classes[:li]):
                    if B in seen and not atom.conv[(li, bi)]:
                        leaks.append(("%s->%s" % (L, B), "recorded derivations lead from the "
                                      "exported class to a base that g++ does not let an outsider "
                                      "convert to (std::is_convertible is false)"))
                    if B in obs.tp_bases.get(L, ()) and not atom.conv[(li, bi)]:
                        leaks.append(("%s->%s" % (L, B), "python-native tp_bases names a base "
                                      "that is not accessible in C++"))
            continue
        if ident == "@dtor":
            seen = atom.cname in obs.dtor
            if verdict == "absent" and seen:
                leaks.append((ident, "destructor recorded"))
            elif verdict == "present" and not seen:
                missing.append((ident, "destructor not recorded"))
            continue
        in_db = ident in names
        in_code = ident in obs.ment
        if verdict == "absent" and (in_db or in_code):
            leaks.append((ident, "db=%s code=%s" % (in_db, in_code)))
        elif verdict == "present" and not in_db:
            missing.append((ident, "not in the database"))
    return leaks, missing, n


# --------------------------------------------------------------------------- spaces

def make_bundles(tier, only):
    """The enumerated space, split into bundles (= runs).  Returns list of
    (Bundle, configs) in canonical order, simplest first."""
    ctr = [0]

    def pfx(letter):
        ctr[0] += 1
        return "%s%d" % (letter, ctr[0])

    def class_list(depth, labels, in_publish=(False,)):
        return [hg.ClassAtom(pfx("c"), combo, ip, st)
                for combo, ip, st in hg.class_atoms(depth, labels=labels, in_publish=in_publish)]

    def globals_list():
        return [hg.GlobalAtom(pfx("g"), k, ip) for k in hg.GKINDS for ip in (False, True)]

    ALL = [(m, c, "c") for c in COMMANDS for m in MODES]
    NOCWD = [x for x in ALL if x[1] != "ignorefile:cwd"]
    PYN = [(m, c, "pynative") for c in COMMANDS for m in MODES]
    out = []

    def chunked(name, placement, atoms, size, cfgs):
        for i in range(0, len(atoms), size):
            out.append((Bundle("%s-%d" % (name, i // size), {placement: atoms[i:i + size]}), cfgs))

    # 1. every single-member layout (all labels, inside/outside a publish region, struct
    #    variants) and the global atoms in EVERY placement; foreign references in the local
    #    placements.  Both back-ends.
    placed = {}
    for pl in PLACEMENTS:
        placed[pl] = class_list(1, hg.LABELS, in_publish=(False, True)) + globals_list()
        if LOCAL[pl]:
            placed[pl] += [hg.RefAtom(pfx("r"), how) for how in ("sig", "base")]
    # inherited virtual overrides: in the command-line file, a cwd header and an -I header
    for pl in ("main", "cwd", "I"):
        placed[pl] += [hg.VirtAtom(pfx("v"), *x) for x in hg.virt_space(tier)]
    # signatures involving a private/protected nested type, directly or through aliases
    for pl in ("main", "cwd"):
        placed[pl] += [hg.ProtAtom(pfx("h"), *x) for x in hg.prot_space(tier)]
    out.append((Bundle("singles-all-placements", placed), ALL + PYN))
    # 2. all ordered pairs over the 12 kinds x 7 labels in the command-line file
    # hierarchies with hidden derivations (their accessibility facts come from g++)
    chunked("hier", "main", [hg.HierAtom(pfx("y"), c, d) for c, d in hg.hier_space(tier)], 600,
            [(m, None, be) for be in ("c", "pynative") for m in MODES])
    chunked("pairs-main", "main", class_list(2, hg.LABELS), 1000, NOCWD)
    if tier == "thorough":
        chunked("pairs-publish-main", "main", class_list(2, hg.SECTIONS + ("none",), (True,)),
                1000, NOCWD)
        chunked("pairs-main-pynative", "main", class_list(2, hg.SECTIONS), 800,
                [x for x in PYN if x[1] != "ignorefile:cwd"])
        for pl in PLACEMENTS[1:]:
            cf = ALL if pl == "cwd" else NOCWD
            chunked("pairs-" + pl, pl, class_list(2, hg.SECTIONS), 1200, cf)
        LAY = [(m, c, "c") for c in LAYOUT_COMMANDS for m in MODES]
        chunked("triples-main", "main", class_list(3, hg.SECTIONS), 3000, LAY)
    if only:
        out = [x for x in out if any(x[0].name.startswith(o) for o in only)]
    return out


def case_key(atom, placement, promiscuous, cmd, backend):
    return "%s@%s/%s/%s%s" % (atom.key, placement, "promiscuous" if promiscuous else "default",
                              cmd or "none", "" if backend == "c" else "/" + backend)


def single_case(b, scratch, atom, placement, promiscuous, cmd, backend, tag):
    """Re-run one atom alone (same placement/mode/command).  Returns (leaks, missing, info)."""
    bun = Bundle("single", {placement: [atom]})
    rundir = os.path.join(scratch, "single-" + tag)
    db, ment, syms, r = run_bundle(b, bun, promiscuous, cmd, backend, rundir)
    if db is None:
        return None, None, {"tool": r.brief()}
    obs = Observed(db, ment, syms)
    leaks, missing, n = judge(atom, placement, promiscuous, cmd, obs)
    info = {"files": {k: v for k, v in bun.files().items() if v},
            "command_file": bun.command_file(cmd),
            "args": r.cmd, "db_names": sorted(obs.names.get(atom.p, ())),
            "code_idents": sorted(x for x in ment if hg.owner(x) == atom.p),
            "leaks": leaks, "missing": missing}
    shutil.rmtree(rundir, ignore_errors=True)
    return leaks, missing, info


def probe_hier(bun, scratch):
    """ask g++ which bases of the hierarchy atoms an outsider may convert to"""
    atoms = [a for v in bun.placed.values() for a in v if isinstance(a, hg.HierAtom)]
    if not atoms:
        return
    d = os.path.join(scratch, "gxx-" + bun.name)
    os.makedirs(d, exist_ok=True)
    src = os.path.join(d, "p.cxx")
    with open(src, "w") as f:
        f.write(hg.hier_probe_source(atoms, "".join(a.render() for a in atoms)))
    r = tools.run(["g++", "-std=c++17", "-w", "-O0"] + tools.PUBLISH_DEFS + ["-o", "p", "p.cxx"],
                  cwd=d, timeout=900, env=dict(os.environ, LC_ALL="C"))
    if r.rc != 0:
        raise HarnessError("g++ rejects the hierarchy atoms (generator broken): %s" % r.err[-1200:])
    r = tools.run([os.path.join(d, "p")], cwd=d, timeout=60, env={"LC_ALL": "C"})
    by = {a.p: a for a in atoms}
    for a in atoms:
        a.conv = {}
    for line in r.out.splitlines():
        pfx, i, j, v = line.split()
        by[pfx].conv[(int(i), int(j))] = v == "1"
    for a in atoms:
        n = len(a.classes)
        if len(a.conv) != n * (n - 1) // 2:
            raise HarnessError("g++ probe gave no answer for hierarchy atom " + a.key)
    shutil.rmtree(d, ignore_errors=True)


def eval_run(job):
    """Worker (separate process): one interrogate run over a bundle, every atom judged."""
    b, bun, m, c, backend, rundir = job
    db, ment, syms, r = run_bundle(b, bun, m, c, backend, rundir)
    if db is None:
        return {"error": r.brief(), "bundle": bun.name}
    obs = Observed(db, ment, syms)
    res = {"notes": [], "fails": [], "nsyms": 0, "symdiff": None, "sample": None}
    if syms is not None:
        res["nsyms"] = len(syms)
        if obs.wrapper_names != syms:
            res["symdiff"] = {"only_db": sorted(obs.wrapper_names - syms)[:20],
                              "only_code": sorted(syms - obs.wrapper_names)[:20]}
    for pl, atoms in bun.placed.items():
        for ai, a in enumerate(atoms):
            leaks, missing, n = judge(a, pl, m, c, obs)
            outcome = "P%dA%dF%d %s" % (n["present"], n["absent"], n["free"],
                                        "ok" if not (leaks or missing) else
                                        ("LEAK" if leaks else "MISSING"))
            res["notes"].append((case_key(a, pl, m, c, backend),
                                 n["present"] > 0 and n["absent"] > 0, outcome,
                                 "%s/%s/%s" % (type(a).__name__, pl, backend)))
            if res["sample"] is None and n["present"] and n["absent"]:
                res["sample"] = {"atom": a.key, "placement": pl, "promiscuous": m, "command": c,
                                 "backend": backend, "header": a.render(), "verdicts": n}
            if leaks or missing:
                res["fails"].append((pl, ai, leaks, missing))
    shutil.rmtree(rundir, ignore_errors=True)
    return res


def main():
    ck = Check(PID)
    b = build.build("rel")
    tools.idb(b, ["counts"])                # compile the observer once, before the workers
    if ck.replay:
        return replay(ck, b)
    plan = make_bundles(ck.tier, ck.only)
    scratch = ck.scratch()
    for bun, _ in plan:
        probe_hier(bun, scratch)
    jobs = []
    for bi, (bun, cfgs) in enumerate(plan):
        for (m, c, be) in cfgs:
            jobs.append((bi, m, c, be))
    seen_root, suppressed = {}, {}
    stats = {"tool_runs": 0, "wrapper_symbols_matched": 0}
    fail_ctr = [0]
    done = 0

    def handle(job, res):
        bi, m, c, be = job
        bun = plan[bi][0]
        if "error" in res:
            raise HarnessError("interrogate failed on bundle %s (%s/%s/%s): %s"
                               % (bun.name, m, c, be, res["error"]))
        stats["tool_runs"] += 1
        stats["wrapper_symbols_matched"] += res["nsyms"]
        if res["symdiff"]:
            key = "wrappers:%s/%s/%s" % (bun.name, "promiscuous" if m else "default", c or "none")
            ck.fail(key, "wrapper symbols of the -oc file differ from the wrappers of the database",
                    res["symdiff"])
        first = True
        for key, nt, outcome, fam in res["notes"]:
            ck.note(key, nontrivial=nt, outcome=outcome, family=fam,
                    sample=res["sample"] if first else None)
            first = False
        for pl, ai, leaks, missing in res["fails"]:
            a = bun.placed[pl][ai]
            key = case_key(a, pl, m, c, be)
            for direction, items in (("safety", leaks), ("presence", missing)):
                if not items:
                    continue
                # one root cause can hit hundreds of layouts: report the first few of each
                # (direction, identifier class, command), count the rest
                kinds = sorted(set(re.sub(r"^[a-z]+[0-9]+", "", i) for i, _ in items))
                root = (direction, tuple(re.sub(r"[0-9]", "", k) for k in kinds), c, be)
                seen_root[root] = seen_root.get(root, 0) + 1
                if seen_root[root] > 3 or len(ck.violations) + len(ck.known_hit) >= 40:
                    suppressed[str(root)] = suppressed.get(str(root), 0) + 1
                    continue
                fail_ctr[0] += 1
                tag = "%d-%d" % (bi, fail_ctr[0])

                def confirm(a=a, pl=pl, direction=direction, tag=tag):
                    l2, m2, info = single_case(b, scratch, a, pl, m, c, be, tag)
                    if l2 is None:
                        return True
                    return bool(l2 if direction == "safety" else m2)
                _, _, info = single_case(b, scratch, a, pl, m, c, be, tag + "i")
                what = "%s: %s (%s)" % (
                    direction.upper(),
                    "; ".join("%s %s" % (i, d) for i, d in items),
                    "reachable although the property excludes it" if direction == "safety"
                    else "missing although the property includes it")
                ck.fail(key + ":" + direction, what,
                        {"atom": {"prefix": a.p, "cls": type(a).__name__,
                                  "args": atom_args(a)},
                         "placement": pl, "promiscuous": m, "command": c, "backend": be,
                         "direction": direction, "observed": sorted(i for i, _ in items),
                         "why_free": getattr(a, "why", {}), "single": info},
                        confirm=confirm)

    # several command-line files: one run per case (order / inclusion / location cannot be
    # batched), executed before the batched bundles
    from vf.core import pmap
    mf = multifile_cases(ck.tier) if (not ck.only or "files" in ck.only) else []

    def mf_one(ic):
        i, c = ic
        if ck.expired(reserve=60):
            return None
        rd = os.path.join(scratch, "mf-%d" % i)
        leaks, missing, info = run_multifile(b, c, rd)
        key = mf_key(c)
        if leaks is None:
            ck.note(key, nontrivial=True, outcome="files TOOL-FAILURE", family="files")
            ck.fail(key + ":rejected", "interrogate fails on valid command-line headers",
                    {"multifile": c, "direction": "presence", "single": info})
            return True
        ck.note(key, nontrivial=True,
                outcome="files %d %s" % (len(c["names"]), "ok" if not (leaks or missing) else
                                         ("LEAK" if leaks else "MISSING")),
                family="files/%d" % len(c["names"]),
                sample={"case": c, "files": info["files"], "args": info["args"]})
        for direction, items in (("safety", leaks), ("presence", missing)):
            if not items:
                continue
            root = (direction, "files", c["how"], c["prot"])
            with ck.lock:
                seen_root[root] = seen_root.get(root, 0) + 1
                over = seen_root[root] > 3 or len(ck.violations) + len(ck.known_hit) >= 40
                if over:
                    suppressed[str(root)] = suppressed.get(str(root), 0) + 1
            if over:
                continue

            def confirm(c=c, direction=direction, i=i):
                l2, m2, _ = run_multifile(b, c, os.path.join(scratch, "mfc-%d" % i))
                return True if l2 is None else bool(l2 if direction == "safety" else m2)
            ck.fail(key + ":" + direction,
                    "%s: %s" % (direction.upper(), "; ".join("%s %s" % x for x in items)),
                    {"multifile": c, "direction": direction,
                     "observed": sorted(x[0] for x in items), "single": info}, confirm=confirm)
        return True
    with ck.lock:
        pass
    resmf = pmap(mf_one, list(enumerate(mf)), workers=12)
    stats["tool_runs"] += sum(1 for x in resmf if x)
    if any(x is None for x in resmf):
        ck.cap("deadline inside the several-command-line-files family")

    # canonical order, simplest first; runs of a chunk execute in parallel worker processes
    chunk = 32
    for i in range(0, len(jobs), chunk):
        if ck.expired(reserve=60):
            ck.cap("deadline after %d of %d runs (at bundle %s)"
                   % (i, len(jobs), plan[jobs[i][0]][0].name))
            break
        part = jobs[i:i + chunk]
        args = [(b, plan[j[0]][0], j[1], j[2], j[3],
                 os.path.join(scratch, "run-%d" % (i + k))) for k, j in enumerate(part)]
        for job, res in zip(part, pmap_proc(eval_run, args, workers=16)):
            handle(job, res)
        done = i + len(part)
    names = []
    for j in jobs[:done]:
        n = plan[j[0]][0].name.rsplit("-", 1)[0]
        if n not in names:
            names.append(n)
    return ck.finish(
        rule="one case = (layout atom, file placement, mode, command file, back-end); "
             "non-trivial = the reference model judges at least one identifier of the atom "
             "'present' and at least one 'absent' under that configuration (both directions "
             "are exercised by it)",
        exhaustive=True, bound="%d command-line-file cases; completed bundles: %s"
                               % (len(mf), ", ".join(names)),
        assumptions=[
            "a class is an exported class iff it sits in a local file, is not ignored, and it or "
            "one of its declarations has the requested visibility; where only unexportable "
            "declarations are visible the class record itself is unjudged",
            "DESIGN C04 readings: a public unpublished destructor recorded as the class's "
            "destructor is life-cycle plumbing (unjudged); get_class_type() is not generated",
            "implicit special members (default/copy constructor, implicit destructor) are "
            "permitted on an exported class and never required (C10 decides them)",
            ".cxx placements: presence unjudged (the property says command line / cwd, generated "
            "code cannot include a .cxx); safety judged",
            "forcetype/forcevisible: the property defines only exclusion by commands; a forced "
            "class that is not exported anyway is unjudged except for what no configuration may "
            "expose (private/protected/deleted/template/rvalue members)",
            "friend declarations in a visible section, ignoremember naming a nested type, a "
            "typedef outside a publish region aliasing an exported class, the unlabelled leading "
            "section of a struct inside a publish region: unjudged",
            "layouts with two destructors are not valid programs and are skipped",
            "a data-member record that has no accessor function exposes nothing callable and is "
            "not counted as exported; a typedef aliasing a hidden nested type is unjudged",
            "a re-declared inherited virtual may be elided from the derived class iff the method "
            "stays callable through a base class the database lists for it (reachability)"],
        extra=dict(stats, suppressed_duplicate_failures=suppressed,
                   bundles=[{"name": x.name, "atoms": x.n, "configs": len(c)} for x, c in plan]))


# ----------------------------------------------- several command-line files, any order

MF_HOW = ("dir", "I", "Sang", "Squo", "cwdrel")
MF_RELS2 = {"none": [], "a>b": [("a", "b")]}
MF_RELS3 = {"none": [], "a>b": [("a", "b")], "a>b>c": [("a", "b"), ("b", "c")],
            "a>c,b>c": [("a", "c"), ("b", "c")]}


def multifile_cases(tier):
    """Every (files, command-line order, include relation, how the include is found,
    location of each file, re-inclusion protection, mode)."""
    import itertools
    out = []
    locs_uniform = ("cwd", "sub", "abs")
    for names, rels in ((("a", "b"), MF_RELS2), (("a", "b", "c"), MF_RELS3)):
        if tier == "thorough":
            loc_sets = list(itertools.product(locs_uniform, repeat=len(names)))
        else:
            loc_sets = [tuple([l] * len(names)) for l in locs_uniform]
            if len(names) == 2:
                loc_sets += [("cwd", "sub"), ("sub", "cwd"), ("sub", "abs"), ("abs", "sub")]
        for rel, edges in rels.items():
            for how in (MF_HOW if edges else ("-",)):
                for locs in loc_sets:
                    if how == "dir" and len(set(locs)) != 1:
                        continue        # "includer's directory" needs a common directory
                    for order in itertools.permutations(names):
                        for prot in ("pragma", "guard"):
                            for prom in ((False, True) if (len(names) == 2 or tier == "thorough")
                                         else (False,)):
                                out.append({"names": list(names), "order": list(order), "rel": rel,
                                            "edges": [list(e) for e in edges], "how": how,
                                            "locs": list(locs), "prot": prot, "promiscuous": prom})
    return out


def mf_key(c):
    return "files:%s:%s:%s:%s:%s/%s" % (",".join(c["order"]), c["rel"], c["how"],
                                        ",".join(c["locs"]), c["prot"],
                                        "promiscuous" if c["promiscuous"] else "default")


def run_multifile(b, c, rundir):
    """One interrogate run over 2-3 command-line headers.  Returns (leaks, missing, info)."""
    shutil.rmtree(rundir, ignore_errors=True)
    os.makedirs(rundir)
    shared = c["how"] == "dir"
    loc = dict(zip(c["names"], c["locs"]))

    def reldir(n):
        if loc[n] == "cwd":
            return "."
        d = ("s" if loc[n] == "sub" else "x") + ("" if shared else n)
        return d

    def cmdname(n):
        d = reldir(n)
        rel = ("%s.h" % n) if d == "." else "%s/%s.h" % (d, n)
        return os.path.join(rundir, rel) if loc[n] == "abs" else rel
    atoms = {n: hg.FileAtom("f%s%d" % (n, i)) for i, n in enumerate(c["names"])}
    flags, files = [], {}
    for n in c["names"]:
        inc = []
        for frm, to in c["edges"]:
            if frm != n:
                continue
            d = reldir(to)
            if c["how"] == "Sang":
                inc.append("#include <%s.h>" % to)
                flags.append("-S" + d)
            elif c["how"] == "cwdrel":
                inc.append('#include "%s"' % (("%s.h" % to) if d == "." else "%s/%s.h" % (d, to)))
            else:
                inc.append('#include "%s.h"' % to)
                if c["how"] == "I":
                    flags.append("-I" + d)
                elif c["how"] == "Squo":
                    flags.append("-S" + d)
        body = "\n".join(inc + [atoms[n].render()])
        if c["prot"] == "pragma":
            text = "#pragma once\n" + body
        else:
            text = "#ifndef GUARD_%s\n#define GUARD_%s\n%s#endif\n" % (n, n, body)
        d = reldir(n)
        files[("%s.h" % n) if d == "." else "%s/%s.h" % (d, n)] = text
    for rel, text in files.items():
        pth = os.path.join(rundir, rel)
        os.makedirs(os.path.dirname(pth), exist_ok=True)
        with open(pth, "w") as f:
            f.write(text)
    args = ["-oc", "o.cxx", "-od", "o.in", "-module", "m", "-library", "l", "-c", "-fnames"] \
        + sorted(set(flags)) + (["-promiscuous"] if c["promiscuous"] else []) \
        + [cmdname(n) for n in c["order"]]
    r = tools.interrogate(b, args, cwd=rundir, timeout=120)
    info = {"files": files, "args": r.cmd, "rc": r.rc, "stderr": r.err[-600:]}
    if r.rc != 0 or r.timeout:
        return None, None, info
    db = tools.idb_dump(b, [os.path.join(rundir, "o.in")])
    code = open(os.path.join(rundir, "o.cxx")).read()
    syms = set(re.findall(r"^EXPORT_FUNC [^;]*?\b(_in[A-Za-z0-9_]+)\(", code, re.M))
    obs = Observed(db, mentions(code), syms)
    leaks, missing, n = [], [], {"present": 0, "absent": 0, "free": 0}
    for name in c["names"]:
        l, m, nn = judge(atoms[name], "main", c["promiscuous"], None, obs)
        leaks += [("%s.h: %s" % (name, i), d) for i, d in l]
        missing += [("%s.h: %s" % (name, i), d) for i, d in m]
        for k in n:
            n[k] += nn[k]
    if obs.wrapper_names != syms:
        missing.append(("wrappers", "wrapper symbols of the -oc file differ from the database"))
    info.update(leaks=leaks, missing=missing)
    shutil.rmtree(rundir, ignore_errors=True)
    return leaks, missing, info


def atom_args(a):
    if isinstance(a, hg.ClassAtom):
        return {"members": [list(x) for x in a.members], "in_publish": a.in_publish,
                "struct": a.struct}
    if isinstance(a, hg.GlobalAtom):
        return {"kind": a.kind, "in_publish": a.in_publish}
    if isinstance(a, hg.VirtAtom):
        return {"virt": [a.base_sec, a.der_sec, a.inh, a.constness, a.pure]}
    if isinstance(a, hg.ProtAtom):
        return {"prot": [a.hide, a.hkind, a.reach, a.use]}
    if isinstance(a, hg.HierAtom):
        return {"hier": [list(a.contents), list(a.derivs)],
                "conv": [[i, j, v] for (i, j), v in sorted(a.conv.items())]}
    return {"how": a.how}


def atom_from(d):
    cls, p, args = d["cls"], d["prefix"], d["args"]
    if cls == "ClassAtom":
        return hg.ClassAtom(p, [tuple(x) for x in args["members"]], args["in_publish"],
                            args.get("struct", False))
    if cls == "GlobalAtom":
        return hg.GlobalAtom(p, args["kind"], args["in_publish"])
    if cls == "VirtAtom":
        return hg.VirtAtom(p, *args["virt"])
    if cls == "ProtAtom":
        return hg.ProtAtom(p, *args["prot"])
    if cls == "HierAtom":
        a = hg.HierAtom(p, *args["hier"])
        a.conv = {(i, j): v for i, j, v in args["conv"]}
        return a
    return hg.RefAtom(p, args["how"])


def replay(ck, b):
    rp = ck.load_replay()
    d = rp["detail"]
    if "multifile" in d:
        leaks, missing, info = run_multifile(b, d["multifile"], os.path.join(ck.scratch(), "replay"))
        print("case:", rp["key"])
        for rel, text in info["files"].items():
            print("--- %s\n%s" % (rel, text))
        print("cmd:", " ".join(info["args"]), "-> rc", info["rc"])
        print("leaks:", leaks)
        print("missing:", missing)
        ck.cleanup()
        bad = leaks if d["direction"] == "safety" else missing
        return 1 if (bad or leaks is None) else 0
    a = atom_from(d["atom"])
    leaks, missing, info = single_case(b, ck.scratch(), a, d["placement"], d["promiscuous"],
                                       d["command"], d.get("backend", "c"), "replay")
    print("case:", rp["key"])
    for rel, text in info.get("files", {}).items():
        print("--- %s\n%s" % (rel, text))
    print("--- sub/m.N\n%s" % info.get("command_file"))
    print("cmd:", " ".join(info.get("args", [])))
    print("database identifiers of the atom:", info.get("db_names"))
    print("code identifiers of the atom:", info.get("code_idents"))
    print("leaks:", leaks)
    print("missing:", missing)
    ck.cleanup()
    bad = leaks if d["direction"] == "safety" else missing
    return 1 if (bad or leaks is None) else 0


if __name__ == "__main__":
    run_main(main)
