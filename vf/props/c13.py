"""C13 -- loading several libraries yields one consistent, order-independent database.

Shape H: exhaustive search over load/query histories on the real libinterrogatedb.
One process per history (the database is a process-wide singleton); the state reached
is observed through harness/c13hist (idbdump + request_module op): every raw field of
every record.

Alphabet
  library families (vf/lib_c13.py) produced by REAL interrogate runs, in which a type is
  defined in one library and only referenced in the others / forward declared everywhere /
  fully defined twice identically / fully defined twice differently (-D, forcetype) /
  non-global in one library and global in another / a template instance forced twice /
  a three-level inheritance chain across libraries; between them every record kind and
  every index-valued field is populated.
  histories: every non-empty subset of a family x every permutation of the loads x
  load kind per load {d: interrogate_request_database (range taken at load time),
  m: interrogate_request_module with a compiled-in index count (range reserved at
  request time)} x every placement of up to two queries in the gaps before each load.
  Query alphabet per gap: the six by-name lookups of something defined ONLY in the
  library requested next (must not be found yet), the true-name lookup of the family's
  shared type, the enumeration counts, and (single queries only) the six lookups of
  something defined only in the library requested last (must be found).
  After the last load every history runs the full battery: counts, every name of the
  reference model under all six lookups, absent names, error flag, full dump.

Oracle
  (i)   reference model (Python, from the single-library dumps): disjoint union with
        equal-true-name types identified; exactly one fully defined candidate -> it wins
        (including its owning library); none or several -> any of the eligible
        candidates; F_global is the union; every other record is carried over with its
        references renamed.  Comparison is up to index renaming: both sides are brought
        into a canonical form in which every index is replaced by a structural name
        (true name / library + scoped name / position in the owning function's wrapper
        list).
  (ii)  differential: for one loaded set all histories must reach the same canonical
        state (records of legitimately order-dependent groups masked).
  (iii) every load owns one window of index values no larger than the number of records
        of its file, windows are disjoint, _next_index = 1 + sum of the sizes; for kind m
        the _modules entry has exactly that size and contains the window.
  (iv)  closure: every index stored in any field resolves to a record of the right kind;
        enumeration vectors have no duplicates; the error flag stays clear; lookups and
        counts issued in a gap reflect exactly the libraries requested so far, lookups
        after the last load reflect all of them.
  Thorough runs on the ASan+UBSan build: any sanitizer report is a violation.
"""
import hashlib
import itertools
import json
import os

from vf import build, harness, lib_c13, tools
from vf.core import Check, HarnessError, pmap, pmap_proc, run_main

PID = "C13"
F_GLOBAL = 0x1
F_FULLY = 0x2000
F_ATOMIC = 0x2
LOOKUPS = ("tn", "tsn", "ttn", "mn", "en", "esn")

# kind letter -> dump section
SECT = {"T": "types", "F": "functions", "W": "wrappers", "M": "manifests", "E": "elements",
        "S": "make_seqs"}

SCALAR_REFS = {
    "types": {"outer_class": "T", "wrapped_type": "T", "destructor": "F"},
    "functions": {"class": "T"},
    "wrappers": {"function": "F", "return_type": "T", "return_value_destructor": "F"},
    "manifests": {"type": "T", "getter": "F"},
    "elements": {"type": "T", "length_function": "F", "getter": "F", "setter": "F",
                 "has_function": "F", "clear_function": "F", "del_function": "F",
                 "insert_function": "F", "getkey_function": "F"},
    "make_seqs": {"length_getter": "F", "element_getter": "F"},
}
LIST_REFS = {
    "types": {"constructors": "F", "elements": "E", "methods": "F", "casts": "F",
              "make_seqs": "S", "nested_types": "T"},
    "functions": {"c_wrappers": "W", "python_wrappers": "W"},
}


# ================================================================== canonical form
class Canon:
    """Canonical (index-free) form of one raw dump."""

    def __init__(self, d):
        self.raw = d
        self.problems = []
        self.names = {k: {} for k in SECT}        # kind -> {index: name}
        self._name_all()
        self.rec = {k: {} for k in SECT}          # kind -> {name: canonical record}
        self._records()
        self.lists = {}
        for key, kind in (("global_types", "T"), ("all_types", "T"), ("global_functions", "F"),
                          ("all_functions", "F"), ("global_manifests", "M"), ("global_elements", "E")):
            self.lists[key] = sorted(self.ref(i, kind, key) or "NULL" for i in d[key])

    # ---- naming
    def _uniq(self, kind, index, base):
        tab = self.names[kind]
        used = self._used.setdefault(kind, {})
        n = used.get(base, 0)
        used[base] = n + 1
        name = base if n == 0 else "%s#%d" % (base, n)
        if n and kind == "T" and base.startswith("T:"):
            self.problems.append("two type records carry the true name %r (not identified)" % base[2:])
        tab[index] = name

    def _name_all(self):
        d = self.raw
        self._used = {}
        for i in sorted(d["types"], key=int):
            t = d["types"][i]
            if t["name"] != "" and t["true_name"] != "":
                self._uniq("T", int(i), "T:" + t["true_name"])
            else:
                self._uniq("T", int(i), "T?:%s:%s:%s" % (t["lib"], t["scoped_name"],
                                                         ",".join(e["name"] for e in t["enum_values"])))
        for i in sorted(d["functions"], key=int):
            f = d["functions"][i]
            self._uniq("F", int(i), "F:%s:%s" % (f["lib"], f["scoped_name"]))
        fn = self.names["F"]
        for i in sorted(d["functions"], key=lambda x: fn[int(x)]):
            f = d["functions"][i]
            for tag, lst in (("py", f["python_wrappers"]), ("c", f["c_wrappers"])):
                for pos, w in enumerate(lst):
                    if w not in self.names["W"] and str(w) in d["wrappers"]:
                        self._uniq("W", w, "W:%s:%s%d" % (fn[int(i)], tag, pos))
        for i in sorted(d["wrappers"], key=int):
            if int(i) not in self.names["W"]:
                w = d["wrappers"][i]
                self._uniq("W", int(i), "W?:%s:%s:%s" % (w["lib"], w["name"], w["unique_name"]))
        for i in sorted(d["manifests"], key=int):
            m = d["manifests"][i]
            self._uniq("M", int(i), "M:%s:%s" % (m["lib"], m["name"]))
        for i in sorted(d["elements"], key=int):
            e = d["elements"][i]
            self._uniq("E", int(i), "E:%s:%s" % (e["lib"], e["scoped_name"]))
        for i in sorted(d["make_seqs"], key=int):
            s = d["make_seqs"][i]
            self._uniq("S", int(i), "S:%s:%s" % (s["lib"], s["scoped_name"]))

    def ref(self, index, kind, where):
        if index == 0:
            return None
        n = self.names[kind].get(index)
        if n is not None:
            return n
        other = [k for k in SECT if index in self.names[k]]
        if other:
            self.problems.append("%s holds index %d which is a %s record, expected %s"
                                 % (where, index, SECT[other[0]], SECT[kind]))
            return "WRONGKIND:%s" % self.names[other[0]][index]
        self.problems.append("%s holds index %d which resolves to no record" % (where, index))
        return "DANGLING"

    def _records(self):
        d = self.raw
        for kind, sect in SECT.items():
            for i, r in d[sect].items():
                me = self.names[kind][int(i)]
                c = {}
                for k, v in r.items():
                    if k in SCALAR_REFS.get(sect, {}):
                        c[k] = self.ref(v, SCALAR_REFS[sect][k], "%s.%s" % (me, k))
                    elif k in LIST_REFS.get(sect, {}):
                        c[k] = [self.ref(x, LIST_REFS[sect][k], "%s.%s" % (me, k)) for x in v]
                    elif k == "derivations":
                        c[k] = [{"flags": x["flags"], "base": self.ref(x["base"], "T", me + ".derivation.base"),
                                 "upcast": self.ref(x["upcast"], "F", me + ".derivation.upcast"),
                                 "downcast": self.ref(x["downcast"], "F", me + ".derivation.downcast")}
                                for x in v]
                    elif k == "parameters":
                        c[k] = [{"flags": x["flags"], "name": x["name"],
                                 "type": self.ref(x["type"], "T", me + ".parameter.type")} for x in v]
                    else:
                        c[k] = v
                self.rec[kind][me] = c

    def index_of(self):
        """{kind: {name: index}}"""
        return {k: {n: i for i, n in v.items()} for k, v in self.names.items()}


def field_coverage(c):
    """Which index-valued fields are non-null somewhere (vacuity guard for 'every field')."""
    seen = set()
    for kind, sect in SECT.items():
        for r in c.rec[kind].values():
            for k in SCALAR_REFS.get(sect, {}):
                if r.get(k):
                    seen.add("%s.%s" % (sect, k))
            for k in LIST_REFS.get(sect, {}):
                if r.get(k):
                    seen.add("%s.%s" % (sect, k))
            for x in r.get("derivations", []):
                for k in ("base", "upcast", "downcast"):
                    if x[k]:
                        seen.add("types.derivation." + k)
            for x in r.get("parameters", []):
                if x["type"]:
                    seen.add("wrappers.parameter.type")
    return seen


ALL_FIELDS = set()
for _s, _m in SCALAR_REFS.items():
    ALL_FIELDS |= {"%s.%s" % (_s, k) for k in _m}
for _s, _m in LIST_REFS.items():
    ALL_FIELDS |= {"%s.%s" % (_s, k) for k in _m}
ALL_FIELDS |= {"types.derivation.base", "types.derivation.upcast", "types.derivation.downcast",
               "wrappers.parameter.type"}


# ================================================================== reference model
class Model:
    """Disjoint union of single-library canonical forms with equal-true-name types
    identified."""

    def __init__(self, singles, tags):
        self.tags = tuple(sorted(tags))
        self.groups = {}         # type name -> list of (tag, record)
        self.rec = {k: {} for k in SECT if k != "T"}
        self.lists = {k: [] for k in ("global_functions", "all_functions", "global_manifests",
                                      "global_elements")}
        glob = set()
        for tag in self.tags:
            c = singles[tag]
            for n, r in c.rec["T"].items():
                self.groups.setdefault(n, []).append((tag, r))
            glob |= set(c.lists["global_types"])
            for k in self.rec:
                for n, r in c.rec[k].items():
                    if n in self.rec[k]:
                        raise HarnessError("structural name %s is not unique across libraries" % n)
                    self.rec[k][n] = r
            for k in self.lists:
                self.lists[k] += c.lists[k]
        for k in self.lists:
            self.lists[k].sort()
        self.lists["all_types"] = sorted(self.groups)
        self.lists["global_types"] = sorted(n for n in self.groups if n in glob)
        self.accept = {}
        self.ambiguous = set()
        self.shared = 0
        self.content_choice = 0     # groups whose admissible definitions differ in content
        for n, cands in self.groups.items():
            g = F_GLOBAL if any(r["flags"] & F_GLOBAL for _, r in cands) else 0
            fd = [(t, r) for t, r in cands if r["flags"] & F_FULLY]
            elig = fd if fd else cands
            acc = []
            for t, r in elig:
                rr = dict(r)
                rr["flags"] = r["flags"] | g
                if rr not in acc:
                    acc.append(rr)
            self.accept[n] = acc
            if len(acc) > 1:
                self.ambiguous.add(n)
                strip = [{k: v for k, v in a.items() if k not in ("lib", "mod")} for a in acc]
                if any(x != strip[0] for x in strip[1:]):
                    self.content_choice += 1
            if len(cands) > 1 and not (cands[0][1]["flags"] & F_ATOMIC):
                self.shared += 1
        # lookup tables: kind -> name -> set of acceptable structural names
        lk = {k: {} for k in LOOKUPS}
        for n, cands in self.groups.items():
            for _, r in cands:
                lk["tn"].setdefault(r["name"], set()).add(n)
                lk["tsn"].setdefault(r["scoped_name"], set()).add(n)
                lk["ttn"].setdefault(r["true_name"], set()).add(n)
        for n, r in self.rec["M"].items():
            lk["mn"].setdefault(r["name"], set()).add(n)
        for n, r in self.rec["E"].items():
            lk["en"].setdefault(r["name"], set()).add(n)
            lk["esn"].setdefault(r["scoped_name"], set()).add(n)
        self.lookup = lk
        self.counts = {"global_types": len(self.lists["global_types"]), "types": len(self.groups),
                       "global_functions": len(self.lists["global_functions"]),
                       "functions": len(self.lists["all_functions"]),
                       "manifests": len(self.lists["global_manifests"]),
                       "globals": len(self.lists["global_elements"])}

    def compare(self, c):
        """Problems of canonical merged state c against the model; plus the masked hash."""
        p = []
        if sorted(c.rec["T"]) != sorted(self.groups):
            a, b = set(c.rec["T"]), set(self.groups)
            p.append("type set differs: missing %s, unexpected %s" % (sorted(b - a)[:6], sorted(a - b)[:6]))
        for n, r in c.rec["T"].items():
            acc = self.accept.get(n)
            if acc is not None and r not in acc:
                p.append("type %s: merged record is none of the %d admissible definitions: %s"
                         % (n, len(acc), rec_diff(acc[0], r)))
        for k in self.rec:
            if sorted(c.rec[k]) != sorted(self.rec[k]):
                a, b = set(c.rec[k]), set(self.rec[k])
                p.append("%s set differs: missing %s, unexpected %s"
                         % (SECT[k], sorted(b - a)[:6], sorted(a - b)[:6]))
            for n, r in c.rec[k].items():
                e = self.rec[k].get(n)
                if e is not None and e != r:
                    p.append("%s: %s" % (n, rec_diff(e, r)))
        for k, v in self.lists.items():
            if c.lists[k] != v:
                a, b = list(c.lists[k]), list(v)
                p.append("enumeration %s differs: dump has %d entries, model %d; only in dump %s, only in model %s"
                         % (k, len(a), len(b), multiset_minus(a, b)[:6], multiset_minus(b, a)[:6]))
        return p

    def masked_hash(self, c):
        h = hashlib.sha1()
        for k in sorted(SECT):
            for n in sorted(c.rec[k]):
                r = c.rec[k][n]
                if k == "T" and n in self.ambiguous:
                    r = "<order-dependent>"
                h.update(json.dumps([n, r], sort_keys=True).encode())
        h.update(json.dumps(c.lists, sort_keys=True).encode())
        return h.hexdigest()[:16]


def multiset_minus(a, b):
    b = list(b)
    out = []
    for x in a:
        if x in b:
            b.remove(x)
        else:
            out.append(x)
    return out


def rec_diff(e, r):
    out = []
    for k in sorted(set(e) | set(r)):
        if e.get(k) != r.get(k):
            out.append("%s: expected %r, got %r" % (k, e.get(k), r.get(k)))
    return "; ".join(out)[:500]


# ================================================================== histories
def probes(tag):
    x = tag
    return {"tn": "EU_" + x, "tsn": "U_%s::EU_%s" % (x, x), "ttn": "U_" + x, "mn": "MU_" + x,
            "en": "u_" + x, "esn": "U_%s::u_%s" % (x, x)}


def gap_symbols(perm, g, shared, full):
    """query alphabet of gap g (the position just before the g-th load request; g == len
    is the position after the last request, before the final battery)."""
    n = len(perm)
    out = []
    if g < n:
        nxt = probes(perm[g])
        out += [("q", k, nxt[k]) for k in LOOKUPS]          # not requested yet: must not be found
    else:
        last = probes(perm[-1])
        out += [("q", k, last[k]) for k in LOOKUPS]         # requested a moment ago, not yet read
    out.append(("q", "ttn", shared))
    out.append(("counts",))
    if full and g < n:
        if g != n - 1:
            last = probes(perm[-1])
            out += [("q", k, last[k]) for k in LOOKUPS]     # requested later: must not be found
        if g >= 1:
            prev = probes(perm[g - 1])
            out += [("q", k, prev[k]) for k in LOOKUPS]     # requested a moment ago, not yet read
    return out


def placements(perm, shared):
    """every placement of up to two queries in the gaps before each load (single queries
    also directly after the last request)."""
    n = len(perm)
    yield ()
    for g in range(n + 1):
        for s in gap_symbols(perm, g, shared, True):
            yield ((g, s),)
    for g1 in range(n):
        for g2 in range(g1, n):
            for s1 in gap_symbols(perm, g1, shared, False):
                for s2 in gap_symbols(perm, g2, shared, False):
                    yield ((g1, s1), (g2, s2))


def sym_arg(s):
    return "counts" if s[0] == "counts" else "q:%s:%s" % (s[1], s[2])


def history_key(fam, perm, kinds, placed):
    return "%s/%s/%s/%s" % (fam, "".join(perm), "".join(kinds),
                            ",".join("%d:%s" % (g, sym_arg(s)) for g, s in placed) or "-")


# ================================================================== worker side
_CTX = {}        # family -> dict(singles, dbs, nrec, ids, shared, exe, env_b); inherited by fork


def model_for(fam, tags):
    ctx = _CTX[fam]
    key = tuple(sorted(tags))
    m = ctx["models"].get(key)
    if m is None:
        m = ctx["models"][key] = Model(ctx["singles"], key)
    return m


def battery(fam, tags):
    ctx = _CTX[fam]
    key = tuple(sorted(tags))
    bt = ctx["battery"].get(key)
    if bt is None:
        m = model_for(fam, key)
        bt = [("counts",)]
        for k in LOOKUPS:
            for name in sorted(m.lookup[k]):
                if name != "":
                    bt.append(("q", k, name))
            bt.append(("q", k, "NoSuch_" + k))
            # a name of ANOTHER namespace must not be found
        bt.append(("q", "mn", "U_" + key[0]))
        bt.append(("q", "tn", "MU_" + key[0]))
        ctx["battery"][key] = bt
    return bt


def run_history(fam, perm, kinds, placed, timeout=60):
    """Execute one history; returns (problems, info)."""
    ctx = _CTX[fam]
    b = ctx["b"]
    ops = []
    expect = []          # parallel to output lines: None or (symbol, prefix tags)
    by_gap = {}
    for g, s in placed:
        by_gap.setdefault(g, []).append(s)
    for i, tag in enumerate(perm):
        for s in by_gap.get(i, []):
            ops.append(sym_arg(s))
            expect.append((s, tuple(perm[:i])))
        if kinds[i] == "d":
            ops.append("load:" + ctx["dbs"][tag])
        else:
            ops.append("loadmod:%s:%d:%d" % (ctx["dbs"][tag], ctx["ids"][tag], ctx["nrec"][tag]))
        expect.append(None)
    for s in by_gap.get(len(perm), []):
        ops.append(sym_arg(s))
        expect.append((s, tuple(perm)))
    for s in battery(fam, perm):
        ops.append(sym_arg(s))
        expect.append((s, tuple(perm)))
    ops += ["fptrs", "err", "dump"]
    r = tools.run_stable([ctx["exe"]] + ops, b, timeout=timeout)
    info = {"rc": r.rc, "timeout": r.timeout}
    if r.timeout:
        return ["history did not terminate within %ds" % timeout], info
    if r.rc != 0 or r.sanitizer:
        return ["observer exited with status %s%s: %s" % (r.rc, " (sanitizer report)" if r.sanitizer else "",
                                                         r.err[-600:])], info
    lines = [l for l in r.out.splitlines() if l.startswith("{")]
    if len(lines) != len(expect) + 3:
        return ["observer printed %d results for %d operations" % (len(lines), len(expect) + 3)], info
    dump_line = lines[-1]
    errflag = json.loads(lines[-2])
    problems = []
    if errflag.get("error"):
        problems.append("error flag set after loading valid databases: %s" % r.err[-300:])
    # ---- final state (cached by raw text within this process)
    hkey = (fam, perm, kinds, hashlib.sha1(dump_line.encode()).hexdigest())
    st = _STATE_CACHE.get(hkey)
    if st is None:
        st = judge_state(fam, perm, kinds, json.loads(dump_line))
        if len(_STATE_CACHE) > 64:
            _STATE_CACHE.clear()
        _STATE_CACHE[hkey] = st
    problems += st["problems"]
    # ---- every wrapper index resolves back to ITS module's function pointer table
    fp = json.loads(lines[-3])
    seq = {}
    for t, kd in zip(perm, kinds):
        if kd == "m":
            seq[t] = len(seq) + 1
    nres = 0
    for idx, t in st["wrappers"]:
        want = 0
        if t in seq and t in st["first"]:
            want = (seq[t] << 24) + (idx - st["first"][t]) + 1
            nres += 1
        got = fp["ptr"][idx] if idx < len(fp["ptr"]) else None
        if got != want or bool(fp["has"][idx]) != bool(want):
            problems.append("wrapper index %d of library %s: interrogate_wrapper_pointer gives %s (has_pointer %s), "
                            "its module's table entry is %s" % (idx, t, got, fp["has"][idx], want or "null (no table)"))
            break
    for idx in (0, len(fp["ptr"]) - 1):
        if fp["ptr"][idx] != 0 or fp["has"][idx]:
            problems.append("index %d lies outside every module range but resolves to pointer %s" % (idx, fp["ptr"][idx]))
    info["resolved"] = nres
    info["state"] = st["hash"]
    info["raw"] = hkey[3][:12]
    info["winners"] = st["winners"]
    names = st["names"]
    # ---- query answers
    found = notfound = 0
    ngap = len(placed)
    gapres = []
    for line, ex in zip(lines, expect):
        if ex is None:
            continue
        s, prefix = ex
        got = json.loads(line)
        m = model_for(fam, prefix) if prefix else None
        if s[0] == "counts":
            if len(gapres) < ngap:
                gapres.append("C")
            want = m.counts if m else {k: 0 for k in ("global_types", "types", "global_functions",
                                                      "functions", "manifests", "globals")}
            have = {k: got.get(k) for k in want}
            if have != want:
                problems.append("counts after requesting %s: %s, model %s" % ("".join(prefix) or "nothing", have, want))
            continue
        kind, name = s[1], s[2]
        acc = m.lookup[kind].get(name, set()) if m else set()
        idx = got.get("index")
        kd = "T" if kind in ("tn", "tsn", "ttn") else ("M" if kind == "mn" else "E")
        if len(gapres) < ngap:
            gapres.append("F" if acc else "N")
        if not acc:
            notfound += 1
            if idx != 0:
                problems.append("lookup %s %r after requesting only %s returned index %s (%s); nothing by that name is loaded"
                                % (kind, name, "".join(prefix) or "nothing", idx, names[kd].get(idx)))
        else:
            found += 1
            if idx == 0:
                problems.append("lookup %s %r after requesting %s found nothing; model has %s"
                                % (kind, name, "".join(prefix), sorted(acc)))
            elif names[kd].get(idx) not in acc or got.get("got") != name:
                problems.append("lookup %s %r after requesting %s returned index %s = %s (reported name %r); model has %s"
                                % (kind, name, "".join(prefix), idx, names[kd].get(idx), got.get("got"), sorted(acc)))
    info["found"] = found
    info["gap"] = "".join(sorted(gapres))
    info["notfound"] = notfound
    return problems, info


_STATE_CACHE = {}


def judge_state(fam, perm, kinds, d):
    ctx = _CTX[fam]
    c = Canon(d)
    m = model_for(fam, perm)
    problems = list(c.problems)
    problems += m.compare(c)
    if d["pending_requests"]:
        problems.append("%d requests still pending after a query" % d["pending_requests"])
    # ---- (iii) index windows
    total = sum(ctx["nrec"][t] for t in perm)
    if d["next_index"] != 1 + total:
        problems.append("_next_index is %d, expected 1 + %d records" % (d["next_index"], total))
    libtag = {ctx["libname"][t]: t for t in perm}
    owned = {t: [] for t in perm}
    for kind, sect in SECT.items():
        for i, r in d[sect].items():
            i = int(i)
            if kind == "T":
                n = c.names["T"][i]
                base = n.split("#")[0]
                alloc = None
                for t in perm:
                    if base in ctx["singles"][t].rec["T"]:
                        alloc = t
                        break
                if alloc is not None:
                    owned[alloc].append(i)
            else:
                t = libtag.get(r["lib"])
                if t is None:
                    problems.append("%s record %d belongs to unknown library %r" % (sect, i, r["lib"]))
                else:
                    owned[t].append(i)
    windows = []
    for t in perm:
        if not owned[t]:
            problems.append("library %s owns no index at all" % t)
            continue
        lo, hi = min(owned[t]), max(owned[t])
        if hi - lo + 1 > ctx["nrec"][t]:
            problems.append("indices of library %s span %d..%d, more than its %d records: not one contiguous range"
                            % (t, lo, hi, ctx["nrec"][t]))
        windows.append((lo, hi, t))
    windows.sort()
    for (l1, h1, t1), (l2, h2, t2) in zip(windows, windows[1:]):
        if l2 <= h1:
            problems.append("index ranges of %s (%d..%d) and %s (%d..%d) overlap" % (t1, l1, h1, t2, l2, h2))
    mods = {m_["library_name"]: m_ for m_ in d["modules"]}
    want_mods = sorted(ctx["libname"][t] for t, k in zip(perm, kinds) if k == "m")
    if sorted(mods) != want_mods or len(d["modules"]) != len(want_mods):
        problems.append("_modules lists %s, expected %s" % (sorted(x["library_name"] or "?" for x in d["modules"]), want_mods))
    spans = []
    for t, k in zip(perm, kinds):
        if k != "m" or ctx["libname"][t] not in mods:
            continue
        md = mods[ctx["libname"][t]]
        spans.append((md["first_index"], md["next_index"], t))
        if md["next_index"] - md["first_index"] != ctx["nrec"][t]:
            problems.append("module %s range %d..%d has not the size %d of its file"
                            % (t, md["first_index"], md["next_index"], ctx["nrec"][t]))
        if owned[t] and (min(owned[t]) < md["first_index"] or max(owned[t]) >= md["next_index"]):
            problems.append("records of module %s (%d..%d) lie outside its range %d..%d"
                            % (t, min(owned[t]), max(owned[t]), md["first_index"], md["next_index"]))
    spans.sort()
    for (a1, b1, t1), (a2, b2, t2) in zip(spans, spans[1:]):
        if a2 < b1:
            problems.append("module ranges of %s and %s overlap" % (t1, t2))
    # which candidate won in order-dependent groups (recorded, not judged)
    winners = []
    for n in sorted(m.ambiguous):
        r = c.rec["T"].get(n)
        if r is not None:
            winners.append("%s=%s" % (n[2:], r.get("lib")))
    return {"problems": problems[:12], "hash": m.masked_hash(c), "names": c.names,
            "winners": ";".join(winners),
            "wrappers": sorted((int(i), libtag.get(w["lib"])) for i, w in d["wrappers"].items()),
            "first": {libtag[m_["library_name"]]: m_["first_index"] for m_ in d["modules"]
                      if m_["library_name"] in libtag}}


def chunk_worker(arg):
    fam, items = arg
    out = []
    for perm, kinds, placed in items:
        problems, info = run_history(fam, perm, kinds, placed)
        out.append((perm, kinds, placed, problems, info))
    return out


# ================================================================== driver
try:
    from vf import idb as idbmod
except Exception:                       # optional
    idbmod = None


def single_problems(b, path):
    """closure / file agreement of one database loaded alone (used to confirm a failure)."""
    r, vals = tools.idb(b, ["load:" + path, "sync", "err", "dump"])
    if r.rc != 0 or len(vals) < 4:
        return True
    c = Canon(vals[3])
    if c.problems or vals[2].get("error"):
        return True
    if idbmod is not None:
        try:
            return bool(idbmod.isomorphic(idbmod.load_defaults(idbmod.parse(open(path, "rb").read())),
                                          idbmod.from_dump(vals[3])))
        except Exception:
            return False
    return False


def prepare_family(ck, b, name, fn, k, root, libs=None, subsets=None):
    libs = libs if libs is not None else fn(k)
    dbs = lib_c13.build_family(b, root, name, libs)
    tags = [L.tag for L in libs]
    exe = _CTX["_exe"]

    def single(tag):
        r, vals = tools.idb(b, ["load:" + dbs[tag], "sync", "err", "dump"])
        # tools.idb uses idbdump; same dump code as c13hist
        if r.rc != 0 or len(vals) < 4 or vals[2].get("error"):
            raise HarnessError("cannot load %s alone: %s" % (dbs[tag], r.brief()))
        return tag, vals[3]
    raw = dict(pmap(single, tags))
    singles, nrec, ids = {}, {}, {}
    for tag in tags:
        c = Canon(raw[tag])
        key = history_key(name, (tag,), ("d",), ())
        problems = list(c.problems)
        nr = sum(len(raw[tag][s]) for s in SECT.values())
        if nr != raw[tag]["next_index"] - 1:
            problems.append("%d records but _next_index %d: the single load does not use one dense range"
                            % (nr, raw[tag]["next_index"]))
        # independent reading of the file (vf/idb.py shares no code with the library)
        if idbmod is not None and not problems:
            try:
                want = idbmod.load_defaults(idbmod.parse(open(dbs[tag], "rb").read()))
                diff = idbmod.isomorphic(want, idbmod.from_dump(raw[tag]))
                ck.extra["single_load_crosscheck"] = "vf/idb.py"
            except Exception as e:      # the colleague's module is optional
                diff = None
                ck.extra["single_load_crosscheck"] = "unavailable: %r" % (e,)
            if diff:
                problems.append("database loaded alone differs from the file read independently: %s" % diff)
        if problems:
            ck.note(key, nontrivial=False, outcome="FAIL single load", family=name,
                    sample={"family": name, "perm": [tag], "kinds": ["d"], "queries": []})
            ck.fail(key, "; ".join(problems)[:700],
                    {"observed": problems[0][:300], "problems": problems, "family": name, "perm": [tag],
                     "kinds": ["d"], "queries": [], "tier": ck.tier, "single": True},
                    confirm=lambda tag=tag: single_problems(b, dbs[tag]))
            return None
        singles[tag] = c
        nrec[tag] = raw[tag]["next_index"] - 1
        ids[tag] = int(open(dbs[tag]).readline().split()[0])
    _CTX[name] = {"b": b, "exe": exe, "dbs": dbs, "singles": singles, "nrec": nrec, "ids": ids,
                  "libname": {L.tag: L.lib for L in libs}, "models": {}, "battery": {},
                  "shared": lib_c13.SHARED_PROBE[name], "tags": tags}
    # probe targets must exist exactly in their own library
    full = model_for(name, tags)
    for tag in tags:
        for kind, pname in probes(tag).items():
            if not full.lookup[kind].get(pname):
                raise HarnessError("probe %s %r of %s/%s does not exist" % (kind, pname, name, tag))
            for other in tags:
                if other != tag and model_for(name, [other]).lookup[kind].get(pname):
                    raise HarnessError("probe %s %r is not unique to %s/%s" % (kind, pname, name, tag))
    if not full.lookup["ttn"].get(_CTX[name]["shared"]):
        raise HarnessError("shared probe %r missing in family %s" % (_CTX[name]["shared"], name))
    cov = set()
    for c in singles.values():
        cov |= field_coverage(c)
    # build every model / battery now so that forked workers inherit them
    if subsets is None:
        subsets = [sub for n in range(1, len(tags) + 1) for sub in itertools.combinations(tags, n)]
    for sub in subsets:
        model_for(name, sub)
        battery(name, sub)
    return tags, cov, full


def enumerate_histories(fam, tags, maxn):
    shared = _CTX[fam]["shared"]
    for n in range(1, maxn + 1):
        for sub in itertools.combinations(tags, n):
            for perm in itertools.permutations(sub):
                for kinds in itertools.product("dm", repeat=n):
                    uniform = len(set(kinds)) == 1
                    if uniform:
                        for placed in placements(perm, shared):
                            yield perm, kinds, placed
                    else:
                        yield perm, kinds, ()


def explore(ck, name, histories):
    """run the histories of one family; returns (cut by deadline?, canonical states, failing
    histories not reported individually)."""
    states_total = 0
    suppressed = 0
    groups = {}
    for perm, kinds, placed in histories:
        groups.setdefault((perm, kinds), []).append((perm, kinds, placed))
    work = []
    for key in sorted(groups, key=lambda pk: (len(pk[0]), pk)):
        items = groups[key]
        for i in range(0, len(items), 120):
            work.append((name, items[i:i + 120]))
    state_by_set = {}
    nviol = 0
    cut = False
    for i in range(0, len(work), 128):
        if ck.expired(reserve=30):
            ck.cap("deadline inside family %s after %d of %d chunks" % (name, i, len(work)))
            cut = True
            break
        for res in pmap_proc(chunk_worker, work[i:i + 128]):
            for perm, kinds, placed, problems, info in res:
                key = history_key(name, perm, kinds, placed)
                m = model_for(name, perm)
                nontrivial = len(perm) >= 2 and m.shared >= 1
                merge = "none" if len(perm) < 2 else (
                    "content-choice" if m.content_choice else
                    ("owner-choice" if m.ambiguous else "determined"))
                outcome = "n=%d kinds=%s gap-queries=%s merge=%s" % (
                    len(perm), "".join(sorted(set(kinds))), info.get("gap") or "-", merge)
                if name.startswith("rec-"):
                    outcome = "records " + outcome
                if problems:
                    outcome = "FAIL " + outcome
                ck.note(key, nontrivial=nontrivial, outcome=outcome, family=name,
                        sample={"family": name, "perm": list(perm), "kinds": list(kinds),
                                "queries": [[g, sym_arg(s)] for g, s in placed],
                                "state": info.get("state"), "winners": info.get("winners")})
                if "state" in info:
                    state_by_set.setdefault(tuple(sorted(perm)), set()).add(info["state"])
                if problems:
                    nviol += 1
                    if nviol <= 6:
                        report(ck, name, perm, kinds, placed, problems)
                    else:
                        suppressed += 1
    # (ii) differential: one canonical state per loaded set
    for sset, hs in sorted(state_by_set.items()):
        states_total += len(hs)
        if len(hs) != 1 and nviol == 0:
            ck.fail("%s/%s/differential" % (name, "".join(sset)),
                    "histories over the same set reach %d different canonical states" % len(hs),
                    {"observed": "states=%d" % len(hs), "states": sorted(hs)})
    return cut, states_total, suppressed


def record_histories(kind, thorough):
    """the per-type record alphabet: every assignment of a record state to the three
    libraries x every load order x no query / one query in a gap between two loads."""
    name = "rec-" + kind
    shared = lib_c13.REC_SHARED[kind]
    states = lib_c13.REC_STATES[kind]
    syms = [("counts",), ("q", "ttn", shared), ("q", "tn", shared)]
    for assign in itertools.product(states, repeat=3):
        tags = [lib_c13.rec_tag(x, kind, st) for x, st in zip("abc", assign)]
        for n in (2, 3):
            for sub in itertools.combinations(tags, n):
                for perm in itertools.permutations(sub):
                    for kinds in (("d",) * n, ("m",) * n) if thorough else (("d",) * n,):
                        yield perm, kinds, ()
                        for g in range(0 if thorough else 1, n + (1 if thorough else 0)):
                            for sy in syms:
                                yield perm, kinds, ((g, sy),)


def record_alphabet(ck, brel, b, root, thorough):
    cut = False
    nst = nsup = 0
    for kind in ("enum", "class"):
        name = "rec-" + kind
        libs = lib_c13.fam_records(kind)
        hist = sorted(set(record_histories(kind, thorough)))
        subsets = set()
        for perm, _, _ in hist:
            for i in range(1, len(perm) + 1):
                subsets.add(tuple(sorted(perm[:i])))
        prep = prepare_family(ck, brel, name, None, 3, root, libs=libs, subsets=sorted(subsets))
        if prep is None:
            continue
        # the realised record of every library must be the intended alphabet symbol
        for L in libs:
            st = lib_c13.REC_STATES[kind][int(L.tag[1:])]
            r = _CTX[name]["singles"][L.tag].rec["T"].get("T:" + lib_c13.REC_SHARED[kind])
            have = "absent" if r is None else ("G" if r["flags"] & F_GLOBAL else "-") + ("F" if r["flags"] & F_FULLY else "-")
            listed = ("T:" + lib_c13.REC_SHARED[kind]) in _CTX[name]["singles"][L.tag].lists["global_types"]
            if have != st or (r is not None and listed != bool(r["flags"] & F_GLOBAL)):
                raise HarnessError("record alphabet: library %s/%s realises %s (listed global: %s), intended %s"
                                   % (name, L.tag, have, listed, st))
        _CTX[name]["b"] = b
        c, a, s2 = explore(ck, name, hist)
        nst += a
        nsup += s2
        if c:
            cut = True
            break
    return cut, nst, nsup


def main():
    ck = Check(PID, level="model_checking")
    thorough = ck.tier == "thorough"
    b = build.build("asan" if thorough else "rel")
    brel = build.build("rel")
    exe = harness.compile_cxx(b, "c13hist", libs=("interrogatedb", "dtoolutil", "dtoolbase"),
                              deps=[os.path.join(harness.HARN, "idbdump.cxx")])
    harness.idbdump(brel)
    _CTX["_exe"] = exe
    root = ck.scratch("fam")
    fams = lib_c13.FAMILIES if thorough else lib_c13.FAMILIES[:9]
    if ck.only:
        fams = [f for f in lib_c13.FAMILIES if f[0] in ck.only]
    k = 4 if thorough else 3

    if ck.replay:
        return replay(ck, brel, b, root)

    coverage = set()
    states_total = 0
    done = []
    suppressed = 0
    for name, fn in fams:
        if ck.expired(reserve=60):
            ck.cap("deadline before family %s" % name)
            break
        # databases are produced by the rel interrogate (C13 is about the loader); the
        # histories run on the build flavour of the tier
        prep = prepare_family(ck, brel, name, fn, k, root)
        if prep is None:
            continue                    # a single load is already wrong: reported, no model possible
        tags, cov, full = prep
        _CTX[name]["b"] = b
        coverage |= cov
        if full.shared < 1:
            raise HarnessError("family %s: no shared type would be merged" % name)
        error_histories(ck, name, tags, root)
        cut, nst, nsup = explore(ck, name, enumerate_histories(name, tags, k))
        states_total += nst
        suppressed += nsup
        if cut:
            break
        done.append(name)
    if not ck.only or "records" in ck.only:
        if ck.expired(reserve=60):
            ck.cap("deadline before the record alphabet")
        else:
            cut, nst, nsup = record_alphabet(ck, brel, b, root, thorough)
            states_total += nst
            suppressed += nsup
            if not cut:
                done.append("records")
    missing = ALL_FIELDS - coverage
    ck.extra["index_fields_populated"] = sorted(coverage)
    ck.extra["index_fields_never_populated"] = sorted(missing)
    ck.extra["failing_histories_not_individually_reported"] = \
        ck.extra.get("failing_histories_not_individually_reported", 0) + suppressed
    ck.extra["canonical_states"] = states_total
    if suppressed:
        print("note: %d further failing histories were not reported individually" % suppressed, flush=True)
    if missing and not ck.only and not ck.violations:
        raise HarnessError("vacuous: index fields never populated by any family: %s" % sorted(missing))
    return ck.finish(
        rule="one case = one history (subset, permutation, load kinds, placed queries) executed in a "
             "fresh process; non-trivial = at least two libraries are loaded and at least one "
             "non-atomic type is contributed by two of them, i.e. a shared type is actually merged",
        exhaustive=True,
        bound="k<=%d libraries per set, %d families (%s), every permutation, <=2 queries in the gaps, "
              "flavour %s" % (k, len(done), ",".join(done), b["flavour"]),
        states=states_total,
        assumptions=["queries are drawn from a per-gap alphabet (six lookups of a name unique to the next / "
                     "previous / last library, the family's shared type, counts); pairs of queries use "
                     "the next-library alphabet only",
                     "mixed load kinds (request_database/request_module) are enumerated without "
                     "interleaved queries; uniform kinds with every query placement",
                     "where no or several candidates are fully defined any eligible candidate is "
                     "accepted as the merged record (the property leaves the choice open)"])


# ---------------------------------------------------------------- failed loads in a history
def bad_files(fam, tags, root):
    """damaged variants of the family's LAST library (never among the good ones)."""
    ctx = _CTX[fam]
    d = os.path.join(root, fam, "bad")
    os.makedirs(d, exist_ok=True)
    data = open(ctx["dbs"][tags[-1]], "rb").read()
    lines = data.split(b"\n", 2)
    out = [("missing", os.path.join(d, "nonexistent.in"))]

    def w(kind, content):
        p = os.path.join(d, kind + ".in")
        with open(p, "wb") as f:
            f.write(content)
        out.append((kind, p))
    w("empty", b"")
    w("trunc-header", data[:5])
    w("trunc-half", data[:len(data) // 2])
    w("trunc-1short", data[:len(data.rstrip()) - 1])
    w("major4", lines[0] + b"\n4 0\n" + lines[2])
    w("minor99", lines[0] + b"\n3 99\n" + lines[2])
    return out


def run_error_history(fam, goods, kind, bad, p, query):
    """loads `goods` with the bad file requested at position p; optionally a query right
    after the bad request (so the failing load and the later ones happen in different
    passes).  The error flag must be set at the end, the state must be the good ones'."""
    ctx = _CTX[fam]
    ops = []
    seq = list(goods[:p]) + [None] + list(goods[p:])
    for x in seq:
        if x is None:
            ops.append("load:" + bad)
            if query:
                ops.append("counts")
        else:
            ops.append("load:" + ctx["dbs"][x])
    ops += ["counts", "err", "dump"]
    r = tools.run_stable([ctx["exe"]] + ops, ctx["b"], timeout=60)
    if r.timeout or r.rc != 0 or r.sanitizer:
        return ["observer exited with status %s (timeout=%s): %s" % (r.rc, r.timeout, r.err[-400:])], None
    lines = [json.loads(l) for l in r.out.splitlines() if l.startswith("{")]
    problems = []
    if not lines[-2].get("error"):
        problems.append("error flag is clear although %s (%s) failed to load at position %d of %s"
                        % (os.path.basename(bad), kind, p, "".join(goods) or "-"))
    if goods:
        st = judge_state(fam, tuple(goods), tuple("d" for _ in goods), lines[-1])
        problems += ["after a failed load: " + x for x in st["problems"]]
        m = model_for(fam, goods)
        have = {k2: lines[-3].get(k2) for k2 in m.counts}
        if have != m.counts:
            problems.append("counts after a failed load %s, model %s" % (have, m.counts))
    elif lines[-1]["next_index"] != 1 or any(lines[-1][s_] for s_ in SECT.values()):
        problems.append("a database that failed to load left records behind")
    return problems, lines[-2].get("error")


def error_histories(ck, fam, tags, root):
    good_tags = tags[:2]
    cases = []
    for kind, bad in bad_files(fam, tags, root):
        for n in range(0, 3):
            for goods in itertools.permutations(good_tags, n):
                for p in range(len(goods) + 1):
                    for query in (False, True):
                        cases.append((goods, kind, bad, p, query))

    nbad = 0

    def one(c):
        return c, run_error_history(fam, *c)
    for (goods, kind, bad, p, query), (problems, flag) in pmap(one, cases):
        key = "%s/failed-load/%s/%s/p%d/%s" % (fam, kind, "".join(goods) or "-", p, "q" if query else "-")
        ck.note(key, nontrivial=len(goods) > p, family=fam + " failed-load",
                outcome="failed load %s: flag=%s good-after=%d" % ("split" if query else "one pass", flag, len(goods) - p),
                sample={"family": fam, "goods": list(goods), "bad": kind, "position": p, "query": query})
        if problems:
            nbad += 1
            if nbad > 6:
                ck.extra["failing_histories_not_individually_reported"] = \
                    ck.extra.get("failing_histories_not_individually_reported", 0) + 1
                ck.violations.append({"key": key, "what": problems[0][:200], "replay": None})
                continue
            ck.fail(key, "; ".join(problems)[:700],
                    {"observed": problems[0][:300], "problems": problems, "family": fam, "errhist": True,
                     "goods": list(goods), "bad": kind, "position": p, "query": query, "tier": ck.tier},
                    confirm=lambda c=(goods, kind, bad, p, query): bool(run_error_history(fam, *c)[0]))


def report(ck, fam, perm, kinds, placed, problems):
    key = history_key(fam, perm, kinds, placed)

    def again():
        p, _ = run_history(fam, perm, kinds, placed, timeout=600)
        return bool(p)
    ck.fail(key, "; ".join(problems)[:700],
            {"observed": problems[0][:300], "problems": problems, "family": fam, "perm": list(perm),
             "kinds": list(kinds), "queries": [[g, list(s)] for g, s in placed], "tier": ck.tier},
            confirm=again)


def replay(ck, brel, b, root):
    rp = ck.load_replay()
    d = rp["detail"]
    fam = d["family"]
    if fam.startswith("rec-"):
        perm = tuple(d["perm"])
        subs = sorted({tuple(sorted(perm[:i])) for i in range(1, len(perm) + 1)})
        if prepare_family(ck, brel, fam, None, 3, root, libs=lib_c13.fam_records(fam[4:]), subsets=subs) is None:
            ck.cleanup()
            return 1
        _CTX[fam]["b"] = b
        placed = tuple((g, tuple(s)) for g, s in d.get("queries", []))
        problems, info = run_history(fam, perm, tuple(d["kinds"]), placed, timeout=600)
        print("case:", rp["key"])
        print("observed:", info)
        for p_ in problems:
            print("problem:", p_)
        ck.cleanup()
        return 1 if problems else 0
    fn = dict(lib_c13.FAMILIES)[fam]
    k = 4 if d.get("tier") == "thorough" else 3
    if d.get("tier") == "thorough" and b["flavour"] != "asan":
        b = build.build("asan")
        _CTX["_exe"] = harness.compile_cxx(b, "c13hist", libs=("interrogatedb", "dtoolutil", "dtoolbase"),
                                           deps=[os.path.join(harness.HARN, "idbdump.cxx")])
    if prepare_family(ck, brel, fam, fn, k, root) is None:
        print("case:", rp["key"], "-- the database loaded alone is already wrong (see VIOLATION above)")
        ck.cleanup()
        return 1
    _CTX[fam]["b"] = b
    if d.get("errhist"):
        tags = _CTX[fam]["tags"]
        bad = dict(bad_files(fam, tags, root))[d["bad"]]
        problems, flag = run_error_history(fam, tuple(d["goods"]), d["bad"], bad, d["position"], d["query"])
        print("case:", rp["key"])
        print("error flag:", flag)
        for p_ in problems:
            print("problem:", p_)
        ck.cleanup()
        return 1 if problems else 0
    placed = tuple((g, tuple(s)) for g, s in d.get("queries", []))
    if "perm" not in d:
        print("replay file describes a differential finding over set; re-run the tier with --only", fam)
        ck.cleanup()
        return 1
    problems, info = run_history(fam, tuple(d["perm"]), tuple(d["kinds"]), placed, timeout=600)
    print("case:", rp["key"])
    print("observed:", info)
    for p in problems:
        print("problem:", p)
    ck.cleanup()
    return 1 if problems else 0


if __name__ == "__main__":
    run_main(main)
