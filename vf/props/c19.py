"""C19 -- a failed or incomplete output write is reported by a non-zero exit status.

Shape E (enumeration of environment answers).  For every output channel of
interrogate (-oc, -od, -oh) and interrogate_module (-oc), for every back-end, the
file system's answer is varied at *every* point where the tool talks to it:

  static faults   parent directory missing | target is a directory | /dev/full
  open faults     fopen fails with EACCES / ENOSPC / EROFS
  write faults    the k-th write()/writev() on that file fails with ENOSPC or EIO,
                  for every k in 1..W (W = number of writes of the fault-free run),
                  and the same with a short write first
  close fault     fclose fails with EIO

Oracle: exit status != 0 whenever a fault was delivered (the injector logs every
delivery; an undelivered fault is a harness error, not a pass).  Fault-free runs under
the injector exit 0 and give byte-identical files to runs without it.
"""
import errno
import os
import shutil

from vf import build, harness, tools
from vf.core import Check, HarnessError, pmap, run_main

PID = "C19"


def header_small():
    return """
/// doc
class Alpha {
__published:
  Alpha();
  int get_x(int a = 1) const;
  void set_x(int x);
  static double scale(double d);
  enum Mode { M_a, M_b = 5 };
  int value;
};
__begin_publish
int free_fn(const char *s);
__end_publish
#define LIMIT 10
"""


def header_big(n):
    out = []
    for i in range(n):
        out.append("/// class number %d with a comment long enough to matter\n" % i)
        out.append("class K%d {\n__published:\n  K%d();\n" % (i, i))
        for j in range(6):
            out.append("  int method_%d_%d(int a, double b = %d.5, const char *c = \"s\") const;\n" % (i, j, j))
        out.append("  void set_v(int v);\n  int get_v() const;\n  __make_property(v, get_v, set_v);\n")
        out.append("  enum E%d { e%d_a, e%d_b, e%d_c };\n  int field;\n};\n" % (i, i, i, i))
    return "".join(out)


BACKENDS = {
    "c": ["-c", "-fnames"],
    "python": ["-python", "-fnames"],
    "pynative": ["-python-native"],
}


class Scenario:
    """One (tool, back-end, header) with its fault-free reference run."""

    def __init__(self, ck, b, name, tool, backend, header, seam):
        self.ck, self.b, self.name, self.tool, self.backend, self.seam = ck, b, name, tool, backend, seam
        self.dir = ck.scratch(name)
        with open(os.path.join(self.dir, "h.h"), "w") as f:
            f.write(header)
        self.n = 0

    def args(self, outdir):
        """command line writing all channels into outdir (absolute)."""
        if self.tool == "interrogate":
            return [self.b["interrogate"], "-oc", os.path.join(outdir, "o.cxx"),
                    "-od", os.path.join(outdir, "o.in"), "-oh", os.path.join(outdir, "o.txt"),
                    "-module", "m", "-library", "l"] + BACKENDS[self.backend] + ["h.h"]
        flag = {"python": "-python", "pynative": "-python-native", "c": "-c"}[self.backend]
        return [self.b["interrogate_module"], "-oc", os.path.join(outdir, "mod.cxx"),
                "-module", "m", "-library", "l", flag, os.path.join(self.dir, "ref", "o.in")]

    def channels(self):
        if self.tool == "interrogate":
            return {"oc": "o.cxx", "od": "o.in", "oh": "o.txt"}
        return {"oc": "mod.cxx"}

    def run(self, tag, env_extra=None, outdir=None, patch_args=None):
        outdir = outdir or os.path.join(self.dir, tag)
        os.makedirs(outdir, exist_ok=True)
        cmd = self.args(outdir)
        if patch_args:
            cmd = patch_args(cmd)
        env = build.tool_env(self.b, env_extra)
        r = tools.run(cmd, cwd=self.dir, env=env, timeout=120)
        return r, outdir


def dev_full_ok():
    import stat
    try:
        st = os.stat("/dev/full")
        return stat.S_ISCHR(st.st_mode) and os.major(st.st_rdev) == 1 and os.minor(st.st_rdev) == 7
    except OSError:
        return False


def read_log(path):
    try:
        return open(path).read().splitlines()
    except OSError:
        return []


def main():
    ck = Check(PID, level="fault_enumeration")
    b = build.build("rel")
    seam = harness.compile_so("faultinj")
    thorough = ck.tier == "thorough"

    scen = []
    big_n = 150 if thorough else 40
    for be in ("c", "python", "pynative"):
        scen.append(("i-%s-small" % be, "interrogate", be, header_small()))
    scen.append(("i-pynative-big", "interrogate", "pynative", header_big(big_n)))
    if thorough:
        scen.append(("i-c-big", "interrogate", "c", header_big(big_n)))
        scen.append(("i-python-big", "interrogate", "python", header_big(big_n)))
    for be in ("python", "pynative") + (("c",) if thorough else ()):
        scen.append(("m-%s-small" % be, "interrogate_module", be, header_small()))
    scen.append(("m-pynative-big", "interrogate_module", "pynative", header_big(big_n)))

    if ck.replay:
        return replay(ck, b, seam, scen)

    jobs = []       # (scenario, channel, fault-descriptor)
    scen_objs = {}
    for name, tool, be, hdr in scen:
        s = Scenario(ck, b, name, tool, be, hdr, seam)
        scen_objs[name] = s
        # reference database for interrogate_module scenarios comes from a real interrogate run
        if tool == "interrogate_module":
            refd = os.path.join(s.dir, "ref")
            os.makedirs(refd, exist_ok=True)
            r = tools.run([b["interrogate"], "-oc", os.path.join(refd, "o.cxx"), "-od",
                           os.path.join(refd, "o.in"), "-module", "m", "-library", "l"]
                          + BACKENDS[be] + ["h.h"], cwd=s.dir, b=b)
            if r.rc != 0:
                raise HarnessError("reference interrogate run failed: %s" % r.brief())
        # fault-free run without the injector
        r0, d0 = s.run("plain")
        if r0.rc != 0:
            raise HarnessError("fault-free run failed for %s: %s" % (name, r0.brief()))
        for ch, fn in s.channels().items():
            target = None
            # fault-free run WITH the injector in count mode: must be identical, gives W
            log = os.path.join(s.dir, "count-%s.log" % ch)
            r1, d1 = s.run("count-" + ch, {"LD_PRELOAD": seam, "FI_MODE": "count",
                                           "FI_PATH": os.path.join(s.dir, "count-" + ch, fn),
                                           "FI_LOG": log})
            key = "%s/%s/fault-free" % (name, ch)
            ok = r1.rc == 0
            for fn2 in s.channels().values():
                a = open(os.path.join(d0, fn2), "rb").read().replace(b"plain", b"X")
                c = open(os.path.join(d1, fn2), "rb").read().replace(("count-" + ch).encode(), b"X")
                ok = ok and a == c
            lines = read_log(log)
            W = sum(1 for l in lines if l.startswith("write "))
            if not any(l.startswith("open ") for l in lines):
                raise HarnessError("injector never saw the open of %s in %s" % (fn, name))
            ck.note(key, nontrivial=False, outcome="fault-free rc=%s same=%s" % (r1.rc, ok),
                    sample={"scenario": name, "channel": ch, "writes": W}, family="fault-free")
            if not ok:
                ck.fail(key, "fault-free run under the injector differs from plain run or exits %s" % r1.rc,
                        {"rc": r1.rc})
            faults = [("static", "missing-dir"), ("static", "is-dir")]
            if W == 0:
                pass    # nothing is written to this channel: a full device loses no data
            elif dev_full_ok():
                faults.append(("static", "dev-full"))
            else:
                ck.extra["skipped"] = "static dev-full: /dev/full is not a character device here"
            for e in ("EACCES", "ENOSPC", "EROFS"):
                faults.append(("open_fail", e))
            ks = range(1, W + 1)
            for k in ks:
                faults.append(("write_fail", "ENOSPC", k))
                faults.append(("write_short", "ENOSPC", k))
                if thorough or k in (1, W):
                    faults.append(("write_fail", "EIO", k))
            faults.append(("close_fail", "EIO"))
            for f in faults:
                jobs.append((name, ch, f))

    def one(job, record=True):
        name, ch, f = job
        s = scen_objs[name]
        fn = s.channels()[ch]
        key = "%s/%s/%s" % (name, ch, "-".join(str(x) for x in f))
        with ck.lock:
            s.n += 1
            tag = "f%d" % s.n
        outdir = os.path.join(s.dir, tag)
        os.makedirs(outdir, exist_ok=True)
        delivered = True
        if f[0] == "static":
            flag = "-" + ch
            if f[1] == "missing-dir":
                tgt = os.path.join(outdir, "nonexistent", fn)
            elif f[1] == "is-dir":
                tgt = os.path.join(outdir, fn + ".d")
                os.makedirs(tgt, exist_ok=True)
            else:
                # through a symlink: on failure the tool unlinks its output path, and the
                # check runs as root -- never hand it the device node itself
                tgt = os.path.join(outdir, "full.lnk")
                os.symlink("/dev/full", tgt)

            def patch(cmd):
                cmd = list(cmd)
                i = cmd.index(flag)
                cmd[i + 1] = tgt
                return cmd
            r, _ = s.run(tag, outdir=outdir, patch_args=patch)
        else:
            log = os.path.join(outdir, "fi.log")
            env = {"LD_PRELOAD": s.seam, "FI_MODE": f[0], "FI_PATH": os.path.join(outdir, fn),
                   "FI_LOG": log, "FI_ERRNO": str(getattr(errno, f[1]))}
            if len(f) > 2:
                env["FI_K"] = str(f[2])
            r, _ = s.run(tag, env_extra=env, outdir=outdir)
            delivered = any(l.startswith("FAULT") for l in read_log(log))
        res = {"rc": r.rc, "timeout": r.timeout, "delivered": delivered,
               "stderr": r.err[-400:]}
        shutil.rmtree(outdir, ignore_errors=True)
        if not record:
            return res
        if not delivered:
            raise HarnessError("fault %s was never delivered" % key)
        bad = (r.rc == 0) or r.timeout or (r.rc is not None and r.rc < 0)
        ck.note(key, nontrivial=True, outcome="rc=%s" % r.rc, family=f[0],
                sample={"scenario": name, "channel": ch, "fault": list(f), "rc": r.rc})
        if bad:
            what = ("exit status %s after %s on %s (%s)"
                    % (r.rc, "-".join(str(x) for x in f), ch, name))
            ck.fail(key, what, {"observed": "rc=%s" % r.rc, "job": [name, ch, list(f)], "result": res},
                    confirm=lambda: (lambda x: x["rc"] == 0 or x["timeout"] or (x["rc"] or 0) < 0)(one(job, False)))
        return res

    # cap the number of reported violations per scenario/channel/mode: all are explored,
    # each failing case is reported (they are cheap), but stop early if the deadline hits
    chunk = 256
    for i in range(0, len(jobs), chunk):
        if ck.expired():
            ck.cap("deadline after %d of %d fault runs" % (i, len(jobs)))
            break
        pmap(one, jobs[i:i + chunk])

    return ck.finish(
        rule="one case = (tool, back-end, header, output channel, fault); faults: every static "
             "unwritable target, fopen failing with each errno, the k-th write/writev failing or "
             "short-writing for EVERY k up to the write count of the fault-free run, fclose failing; "
             "non-trivial = the injector logged that the fault was delivered to the tool",
        exhaustive=True,
        bound="all k<=W per channel; single fault per run; headers: small + %d-class" % big_n,
        assumptions=["faults are injected at the libc boundary used by libstdc++ (fopen64/write/"
                     "writev/fclose); kernel-level partial writes are modelled as short writes",
                     "read-only targets are modelled by fopen failing with EACCES/EROFS (checks run as root)"])


def replay(ck, b, seam, scen):
    rp = ck.load_replay()
    name, ch, f = rp["detail"]["job"]
    for n, tool, be, hdr in scen:
        if n == name:
            s = Scenario(ck, b, n, tool, be, hdr, seam)
            break
    else:
        raise HarnessError("unknown scenario " + name)
    if tool == "interrogate_module":
        refd = os.path.join(s.dir, "ref")
        os.makedirs(refd, exist_ok=True)
        tools.run([b["interrogate"], "-oc", os.path.join(refd, "o.cxx"), "-od",
                   os.path.join(refd, "o.in"), "-module", "m", "-library", "l"]
                  + BACKENDS[be] + ["h.h"], cwd=s.dir, b=b)
    fn = s.channels()[ch]
    outdir = os.path.join(s.dir, "replay")
    os.makedirs(outdir)
    if f[0] == "static":
        tgt = {"missing-dir": os.path.join(outdir, "nonexistent", fn),
               "is-dir": os.path.join(outdir, fn + ".d"),
               "dev-full": os.path.join(outdir, "full.lnk")}[f[1]]
        if f[1] == "is-dir":
            os.makedirs(tgt)
        if f[1] == "dev-full":
            os.symlink("/dev/full", tgt)

        def patch(cmd):
            cmd = list(cmd)
            cmd[cmd.index("-" + ch) + 1] = tgt
            return cmd
        r, _ = s.run("replay", outdir=outdir, patch_args=patch)
    else:
        env = {"LD_PRELOAD": seam, "FI_MODE": f[0], "FI_PATH": os.path.join(outdir, fn),
               "FI_LOG": os.path.join(outdir, "fi.log"), "FI_ERRNO": str(getattr(errno, f[1]))}
        if len(f) > 2:
            env["FI_K"] = str(f[2])
        r, _ = s.run("replay", env_extra=env, outdir=outdir)
        print("injector log:", read_log(os.path.join(outdir, "fi.log"))[-5:])
    print("cmd:", " ".join(r.cmd))
    print("exit status:", r.rc, "stderr:", r.err[-300:])
    ck.cleanup()
    return 1 if r.rc == 0 else 0


if __name__ == "__main__":
    run_main(main)
