"""C09 -- conditional inclusion keeps exactly the groups a conforming preprocessor keeps;
skipped groups have no effect.

Shape S (small-scope exhaustive program enumeration), oracle `gcc -E -P -std=c++2b`.

One case = one well-nested directive sequence over
    #if c | #ifdef A | #ifndef A | #elif c | #elifdef A | #elifndef A | #else | #endif
(nesting <= 3) with c from the 11-condition alphabet below, rendered with macro names
unique to the case, in one of three macro-state variants:
    u+def    A, B undefined at the start; every region does `#define A <r+2>`, `#define B 1`
    d+undef  A=2, B=1 defined at the start; every region does `#undef A`, `#undef B`
    u+alt    undefined at the start; even regions define, odd regions undefine
Every directive is followed by a *region*: a marker declaration `int r<i>;`, the macro side
effect, and a multi-line comment holding `#endif / #else / #elif 1` at line starts.  Regions
the reference model says are skipped additionally hold `#include "absent"`, `#error`
and a line with unbalanced quotes.  (Those are placed by the model, but the oracle
re-decides every case: gcc fails loudly if one of them is in a group it keeps, and a
disagreement between model and gcc is a harness error.)  After the sequence a probe
prints the values of A and B if defined.

Oracle: the token stream between two case markers (surviving markers in order, probe
values = macro state afterwards) equals gcc's; interrogate exits 0 and prints no diagnostic
at all for the case except the `redefinition of macro` warning pair in kept regions --
in particular none located in a skipped region.

Layers (bound iteration by sequence length n):
    full   all 13 opener x 13 elif spellings (exhaustive product)
    core   openers {#if 0,#if 1,#ifdef A,#ifndef A}, same four #elif forms
    dev1   core sequences in which exactly one condition is replaced by each of the 9
           other spellings (deviation-bounded)
    lit    core sequences whose regions hold string/char literals that look like comment
           openers or quotes (`"/*"`, `'"'`)
    cmt    core sequences x comment shape (`/***/`, `/* x **/`, `/* * / */`, `/*/ x */`,
           back-to-back, `// x \\`-continued, `//` holding `/*`, `/*` holding `//` and
           directives ...) x position (end of each region, kept or skipped; trailing each
           directive; everywhere at once)
    selfref core sequences in which exactly one condition is built from an identifier that is
           defined but expands to itself (#define X X; a 2-cycle; F(1) with #define F(x) F)
           x {== 0, !, + 1, < 1, defined() &&, || 0, bare, != 0}: the leftover counts as 0
    numlit  the same with integer-literal spellings (10L, 10u, 0x10, 0X1F, 010, 1'000, 'a',
           0b11, 10ULL, 0xeL) x {== value, == value+1, > value-1}
    defspell  the same with the `defined` operator spelled {defined X, defined(X),
           defined ( X ), defined<TAB>X} x context {bare, (..), ( .. ), ((..)), !(..), !..,
           (.. && 1), (1 && ..), (.. || 0), (0 || ..), (..) ? 1 : 0, !(..) || (1 && ..)} x
           X in {defined, undefined, defined empty, defined as another name, function-like}
    hasinc  the same with __has_include spelled {(H), ( H), (H ), ( H ), (<TAB>H<TAB>),
           __has_include (H), (MACRO), ( MACRO )} x H in {"present.h", <present.h>,
           "sysonly.h", <sysonly.h> (only in the -S directory), "absent", <absent>} x
           context {bare, !, && 1, (..), !( .. ) && 1}
    spell  core sequences with the directives spelled `  #   if\tc` / `#if /* #endif */ c // #else`
"""
import functools
import hashlib
import os
import re

from vf import build, tok, tools
from vf.core import Check, HarnessError, pmap_proc, run_main
from vf.props.c08 import attribute, diag_lines

PID = "C09"
STD = "c++2b"

# name -> (text with A/B placeholders, evaluator over state dict)
CONDS = [
    ("0", "0", lambda s: False),
    ("1", "1", lambda s: True),
    ("defA", "defined(@A)", lambda s: s["A"] is not None),
    ("defB", "defined @B", lambda s: s["B"] is not None),
    ("ndefA||B", "!defined(@A) || @B", lambda s: s["A"] is None or (s["B"] or 0) != 0),
    ("undefid", "UNDEFINED_IDENT_ZZ", lambda s: False),
    ("A>1", "@A > 1", lambda s: (s["A"] or 0) > 1),
    ("arith", "(2-1)*3", lambda s: True),
    ("hasinc", '__has_include("present.h")', lambda s: True),
    ("hasinc0", "__has_include(<absent_verif_zz.h>)", lambda s: False),
    ("true", "true", lambda s: True),
]
# identifiers that are DEFINED yet expand to themselves (directly, through a 2-cycle, or as
# the result of a function-like macro): in a controlling expression what is left over is an
# ordinary identifier and counts as 0.   @X: #define X X   @Y: #define Ya Yb / #define Yb Ya
# @F: #define F(x) F, used as F(1)
_SELF_ENT = [("X", "@X"), ("Y", "@Y"), ("F", "@F(1)")]
_SELF_OPS = [("==0", "%s == 0", True), ("not", "!%s", True), ("+1", "%s + 1", True),
             ("<1", "%s < 1", True), ("def&&", "defined(%d) && %s < 1", True),
             ("||0", "%s || 0", False), ("bare", "%s", False), ("!=0", "%s != 0", False)]
SELFREF = []
for _en, _et in _SELF_ENT:
    for _on, _ot, _val in _SELF_OPS:
        _txt = _ot.replace("%d", _et.split("(")[0]).replace("%s", _et)
        SELFREF.append(("self%s%s" % (_en, _on), _txt, (lambda v: (lambda s: v))(_val)))
# integer literal spellings: suffixes, prefixes and digit separators are part of the number
_NUMS = [("10L", 10), ("10u", 10), ("0x10", 16), ("0X1F", 31), ("010", 8), ("1'000", 1000),
         ("'a'", 97), ("0b11", 3), ("10ULL", 10), ("0xeL", 14)]
NUMLIT = []
for _sp, _v in _NUMS:
    NUMLIT.append(("num%s==" % _sp, "%s == %d" % (_sp, _v), (lambda s: True)))
    NUMLIT.append(("num%s==+1" % _sp, "%s == %d" % (_sp, _v + 1), (lambda s: False)))
    NUMLIT.append(("num%s>" % _sp, "%s > %d" % (_sp, _v - 1), (lambda s: True)))
# the `defined` operator: spelling x context x kind of name
_DSP_SPELL = [("bare", "defined %s"), ("paren", "defined(%s)"), ("spaced", "defined ( %s )"),
              ("tab", "defined\t%s")]
_DSP_CTX = [("bare", "%s", False), ("p1", "(%s)", False), ("p1s", "( %s )", False),
            ("p2", "((%s))", False), ("notp", "!(%s)", True), ("not", "!%s", True),
            ("and-first", "(%s && 1)", False), ("and-last", "(1 && %s)", False),
            ("or-first", "(%s || 0)", False), ("or-last", "(0 || %s)", False),
            ("tern", "(%s) ? 1 : 0", False), ("mixed", "!(%s) || (1 && %s)", None)]
# @DM defined as 1, @UM undefined, @EM defined as empty, @AL defined as the (undefined) name
# @UM, @FN function-like: `defined` never expands its operand
_DSP_NAME = [("def", "@DM", True), ("undef", "@UM", False), ("empty", "@EM", True),
             ("alias", "@AL", True), ("fn", "@FN", True)]
DEFSPELL = []
for _sn, _st in _DSP_SPELL:
    for _cn, _ct, _neg in _DSP_CTX:
        for _nn, _nt, _val in _DSP_NAME:
            _term = _st % _nt
            _v = True if _neg is None else (_val != _neg)
            DEFSPELL.append(("dsp.%s.%s.%s" % (_sn, _cn, _nn), _ct.replace("%s", _term),
                             (lambda v: (lambda s: v))(_v)))
# __has_include: spelling x header x context.  present.h lies beside the file (found with
# quotes only), sysonly.h only in the directory given with -S / -isystem (found with both
# forms), absent_verif_zz.h nowhere.
_HI_HEADERS = [("q-present", '"present.h"', True), ("a-present", "<present.h>", False),
               ("q-sys", '"sysonly.h"', True), ("a-sys", "<sysonly.h>", True),
               ("q-absent", '"absent_verif_zz.h"', False), ("a-absent", "<absent_verif_zz.h>", False)]
_HI_SPELL = [("compact", "__has_include(%s)"), ("lead", "__has_include( %s)"),
             ("trail", "__has_include(%s )"), ("both", "__has_include( %s )"),
             ("tab", "__has_include(\t%s\t)"), ("gap", "__has_include (%s)"),
             ("macro", "__has_include(@HM%d)"), ("macro-sp", "__has_include( @HM%d )")]
_HI_CTX = [("bare", "%s", False), ("not", "!%s", True), ("and1", "%s && 1", False),
           ("paren", "(%s)", False), ("notparen", "!( %s ) && 1", True)]
HASINC = []
for _i, (_hn, _ht, _val) in enumerate(_HI_HEADERS):
    for _sn, _st in _HI_SPELL:
        _term = (_st % _i) if "%d" in _st else (_st % _ht)
        for _cn, _ct, _neg in _HI_CTX:
            HASINC.append(("hinc.%s.%s.%s" % (_sn, _hn, _cn), _ct % _term,
                           (lambda v: (lambda s: v))(_val != _neg)))
_EXTRA = SELFREF + NUMLIT + DEFSPELL + HASINC
CTEXT = {n: t for n, t, _ in CONDS + _EXTRA}
CEVAL = {n: f for n, _, f in CONDS + _EXTRA}

FULL_OP = ["if:" + n for n, _, _ in CONDS] + ["ifdef", "ifndef"]
FULL_EL = ["elif:" + n for n, _, _ in CONDS] + ["elifdef", "elifndef"]
CORE_OP = ["if:0", "if:1", "ifdef", "ifndef"]
CORE_EL = ["elif:0", "elif:1", "elifdef", "elifndef"]
EXT = [n for n, _, _ in CONDS if n not in ("0", "1")]
VARIANTS = ("u+def", "d+undef", "u+alt")
LITS = {      # name -> (line as written, the same line without its comment)
    "dq-comment": ('const char *s@R = "/*";', 'const char *s@R = "/*";'),
    "sq-dquote": ("char c@R = '\"'; /* \" */", "char c@R = '\"';"),
    "dq-sq": ('const char *t@R = "it\'s"; /* \' */', 'const char *t@R = "it\'s";'),
}


# comment shapes: name -> (lines, is_block).  A block comment can be followed by tokens on
# its last line; a // comment ends with its (possibly continued) line.
SHAPES = {
    "empty": (["/**/"], True),
    "star1": (["/***/"], True),
    "star2": (["/****/"], True),
    "x-starstar": (["/* x **/"], True),
    "doc-starstar": (["/** x **/"], True),
    "star-slash-apart": (["/* * / */"], True),
    "slash-first": (["/*/ x */"], True),
    "back-to-back": (["/* x *//* y */"], True),
    "c-holds-cpp-and-directives": (["/* // x", "#endif", "#else", "// **/"], True),
    "cpp-continued": (["// x \\", "int hidden; #endif"], False),
    "cpp-holds-c": (["// x /* y"], False),
}


def comment_at(c, where):
    """Lines of the case's comment shape if it is placed at position `where`
    ('b<r>' = end of region r, 'd<r>' = trailing directive r), else None."""
    sh = c.get("cshape")
    if sh is None or c["cpos"] not in ("all", where):
        return None
    return SHAPES[sh]


# ---------------------------------------------------------------------------- enumeration
def make_enum(OP, EL, maxdepth=3):
    OP, EL = tuple(OP), tuple(EL)

    @functools.lru_cache(None)
    def seqs(n, depth):
        """all sequences of whole conditionals with exactly n directives (tuple of tuples)"""
        if n == 0:
            return ((),)
        if depth == 0 or n < 2:
            return ()
        out = []
        for m in range(2, n + 1):
            rest = seqs(n - m, depth)
            if not rest:
                continue
            for first in single(m, depth):
                for r in rest:
                    out.append(first + r)
        return tuple(out)

    @functools.lru_cache(None)
    def single(m, depth):
        out = []
        for t in tail(m - 1, depth, False):
            for op in OP:
                out.append((op,) + t)
        out.sort(key=lambda s: [_rank(x) for x in s])
        return tuple(out)

    @functools.lru_cache(None)
    def tail(m, depth, had_else):
        out = []
        for g in range(0, m):
            inner = seqs(g, depth - 1)
            if not inner:
                continue
            r = m - g
            if r == 1:
                for i in inner:
                    out.append(i + ("endif",))
            if r >= 2 and not had_else:
                t0 = tail(r - 1, depth, False)
                t1 = tail(r - 1, depth, True)
                for i in inner:
                    for el in EL:
                        for t in t0:
                            out.append(i + (el,) + t)
                    for t in t1:
                        out.append(i + ("else",) + t)
        return tuple(out)

    return lambda n: seqs(n, maxdepth)


_ORDER = {s: i for i, s in enumerate(FULL_OP + FULL_EL + ["else", "endif"])}


def _rank(sym):
    return _ORDER[sym]


def dev1(core_seqs, ext=None):
    """core sequences with exactly one condition replaced by each spelling of ext
    (default: the non-core spellings of the condition alphabet)"""
    ext = EXT if ext is None else ext
    for s in core_seqs:
        for i, sym in enumerate(s):
            if sym == "if:0":
                for e in ext:
                    yield s[:i] + ("if:" + e,) + s[i + 1:]
            elif sym == "elif:0":
                for e in ext:
                    yield s[:i] + ("elif:" + e,) + s[i + 1:]


def key_of(c):
    return "%s|%s|%s" % (c["layer"], c["var"], " ".join(c["seq"]))


# ---------------------------------------------------------------------------- reference model
def is_open(sym):
    return sym.startswith("if")


def is_elif(sym):
    return sym.startswith("elif")


def evaluate(sym, st):
    if sym in ("ifdef", "elifdef"):
        return st["A"] is not None
    if sym in ("ifndef", "elifndef"):
        return st["A"] is None
    return CEVAL[sym.split(":", 1)[1]](st)


def effect(var, r):
    if var == "u+def" or (var == "u+alt" and r % 2 == 0):
        return "def"
    return "undef"


def model(seq, var):
    """The ~30-line stack machine.  Region i follows directive i (1-based).  Returns
    (list of region-active flags, final macro state, list 'is a group region')."""
    st = {"A": None, "B": None} if var.startswith("u") else {"A": 2, "B": 1}
    stack = []                      # [parent_active, some_group_taken]
    active = True
    regions, isgroup = [], []
    for r, sym in enumerate(seq, 1):
        if is_open(sym):
            t = active and evaluate(sym, st)
            stack.append([active, t])
            active = t
        elif is_elif(sym):
            parent, taken = stack[-1]
            t = parent and not taken and evaluate(sym, st)
            stack[-1][1] = taken or t
            active = t
        elif sym == "else":
            parent, taken = stack[-1]
            active = parent and not taken
            stack[-1][1] = True
        else:
            active = stack.pop()[0]
        regions.append(active)
        isgroup.append(sym != "endif")
        if active:
            if effect(var, r) == "def":
                st["A"], st["B"] = r + 2, 1
            else:
                st["A"], st["B"] = None, None
    assert not stack
    return regions, st, isgroup


# ---------------------------------------------------------------------------- rendering
def directive_text(sym, K, spell=None):
    if sym in ("ifdef", "ifndef", "elifdef", "elifndef"):
        d, a = sym, "A" + K
    elif sym in ("else", "endif"):
        d, a = sym, ""
    else:
        d, c = sym.split(":", 1)
        a = CTEXT[c]
        for i in range(len(_HI_HEADERS)):
            a = a.replace("@HM%d" % i, "HM%d_%s" % (i, K))
        for ph in ("AL", "DM", "UM", "EM", "FN", "Y", "X", "F", "A", "B"):   # longest first
            a = a.replace("@" + ph, ("Ya" if ph == "Y" else ph) + K)
    if spell == "ws":          # blanks before and after the #, tab before the arguments
        return ("  #   %s\t%s  " % (d, a)).rstrip("\t") if a else "  #   %s  " % d
    if spell == "cmt":         # comments after the directive name / the arguments
        return "#%s /* #endif */ %s /* c */ // #else" % (d, a)
    return ("#%s %s" % (d, a)).rstrip()


def render(c, k):
    """Returns (lines, info) with info = dict(regions=[(first,last,active)], dirs=[line])"""
    K = str(k)
    seq, var = c["seq"], c["var"]
    active, final, isgroup = model(seq, var)
    L = []
    if var.startswith("d"):
        L += ["#define A%s 2" % K, "#define B%s 1" % K]
    if any(":hinc.macro" in sym for sym in seq):
        L += ["#define HM%d_%s %s" % (i, K, h[1]) for i, h in enumerate(_HI_HEADERS)]
    if any(":dsp." in sym for sym in seq):
        L += ["#define DM%s 1" % K, "#define EM%s" % K, "#define AL%s UM%s" % (K, K),
              "#define FN%s(x) x" % K]
    if any(":self" in sym for sym in seq):
        L += ["#define X%s X%s" % (K, K), "#define Ya%s Yb%s" % (K, K),
              "#define Yb%s Ya%s" % (K, K), "#define F%s(x) F%s" % (K, K)]
    L.append("int __case_%s__;" % K)
    spans = []
    dirs = []
    lit = c.get("lit")
    for r, sym in enumerate(seq, 1):
        d = directive_text(sym, K, c.get("spell"))
        cm = comment_at(c, "d%d" % r)
        if cm:      # the comment trails the directive (and may run over several lines)
            L.append(d + " " + cm[0][0])
            L += cm[0][1:]
        else:
            L.append(d)
        dirs.append(len(L))
        a = len(L) + 1
        L.append("int r%d;" % r)
        if effect(var, r) == "def":
            L += ["#define A%s %d" % (K, r + 2), "#define B%s 1" % K]
        else:
            L += ["#undef A%s" % K, "#undef B%s" % K]
        L += ["/*", "#endif", "#else", "#elif 1", "*/ int s%d;" % r]
        if not active[r - 1]:
            L += ['#include "absent_%s_%d.h"' % (K, r), "#error E%s_%d" % (K, r),
                  "it's an \"unbalanced quote"]
        if lit:
            # last line of the region: if the literal were taken for the start of a
            # comment, the next directive would be swallowed
            L.append(LITS[lit][0].replace("@R", str(r)))
        cm = comment_at(c, "b%d" % r)
        if cm:
            # last lines of the region: a comment that is not terminated where it should be
            # swallows the marker after it (kept region) or the next directive (skipped one)
            if cm[1]:
                L += cm[0][:-1] + [cm[0][-1] + " int q%d;" % r]
            else:
                L += cm[0] + ["int q%d;" % r]
        spans.append((a, len(L), active[r - 1]))
    L += ["#ifdef A%s" % K, "int pa = A%s;" % K, "#endif",
          "#ifdef B%s" % K, "int pb = B%s;" % K, "#endif"]
    return L, {"regions": spans, "dirs": dirs, "active": active, "final": final,
               "isgroup": isgroup}


def render_file(cases):
    out, span, infos = [], {}, {}
    ln = 1
    for k, c in cases:
        lines, info = render(c, k)
        off = ln - 1
        info["regions"] = [(a + off, b + off, act) for a, b, act in info["regions"]]
        span[k] = (ln, ln + len(lines) - 1)
        ln += len(lines)
        out.append("\n".join(lines) + "\n")
        infos[k] = info
    out.append("int __case_0__;\n")
    return "".join(out), span, infos


# ---------------------------------------------------------------------------- execution
_DIAG = re.compile(r"^(?:[^:\n]*):(\d+):(?:\d+:)? (error|warning): (.*)$", re.M)
_BENIGN = re.compile(r"^(redefinition of macro '[AB]\d+'|previous definition is here)$")


def model_tokens(c, info, lit_tokens):
    toks = []
    for r, a in enumerate(info["active"], 1):
        if a:
            toks += tok.tokenize("int r%d; int s%d;" % (r, r))
            if c.get("lit"):
                toks += lit_tokens(r)
            if comment_at(c, "b%d" % r):
                toks += tok.tokenize("int q%d;" % r)
    if info["final"]["A"] is not None:
        toks += tok.tokenize("int pa = %d;" % info["final"]["A"])
    if info["final"]["B"] is not None:
        toks += tok.tokenize("int pb = %d;" % info["final"]["B"])
    return toks


def run_file(cfg, name, cases, timeout):
    d = cfg["dir"]
    text, span, infos = render_file(cases)
    fname = name + ".h"
    with open(os.path.join(d, fname), "w") as f:
        f.write(text)
    # --- oracle
    g = tools.run(["gcc", "-E", "-P", "-x", "c++", "-std=" + STD, "-w", "-isystem", "sysinc", fname],
                  cwd=d, timeout=120)
    if g.timeout or g.rc != 0:
        raise HarnessError("oracle gcc rejects %s (reference model and gcc disagree on a kept "
                           "group, or a generator bug): %s" % (fname, g.brief()))
    _, gc, gorder = tok.split_cases(tok.tokenize(g.out))
    # --- interrogate
    b = cfg["rel"]
    r = tools.run([b["parse_file"], "-E", "-S", "sysinc", fname], cwd=d, timeout=timeout, b=b)
    crashed = r.timeout or r.rc is None or r.rc < 0 or r.rc not in (0, 1)
    _, ic, iorder = tok.split_cases(tok.tokenize(r.out))
    complete = (not crashed) and iorder[-1:] == [0]
    diags = [(int(m.group(1)), m.group(2), m.group(3)) for m in _DIAG.finditer(r.err)]
    asan_bad = None
    if cfg.get("asan") and not crashed:
        ba = cfg["asan"]
        ra = tools.run([ba["parse_file"], "-E", "-S", "sysinc", fname], cwd=d, timeout=timeout * 5, b=ba)
        if ra.timeout or ra.sanitizer or ra.rc not in (0, 1) or ra.out != r.out:
            asan_bad = {"rc": ra.rc, "timeout": ra.timeout, "stderr_tail": ra.err[-1200:],
                        "same_output": ra.out == r.out}
    stray = [x for x in diags if not any(a <= x[0] <= z for a, z in span.values())]
    res = {}
    for k, c in cases:
        info = infos[k]
        v = {"k": k}
        if k not in gc or gorder.count(k) != 1:
            raise HarnessError("marker of case %d lost in the oracle output of %s" % (k, fname))

        def lit_tokens(rr, c=c):
            return tok.tokenize(LITS[c["lit"]][1].replace("@R", str(rr)))
        want = model_tokens(c, info, lit_tokens)
        if gc[k] != want:
            raise HarnessError("reference model and oracle disagree on %s: model %s, gcc %s"
                               % (key_of(c), tok.show(want), tok.show(gc[k])))
        a, z = span[k]
        mine = [x for x in diags if a <= x[0] <= z]
        # any diagnostic located in a skipped region -- even the redefinition warning that is
        # legitimate in a kept one -- shows that something in the skipped region was acted upon
        in_skipped = [x for x in mine
                      if any(ra_ <= x[0] <= rz and not act for ra_, rz, act in info["regions"])]
        mine = in_skipped + [x for x in mine if x not in in_skipped and not _BENIGN.match(x[2])]
        if not complete and (k not in ic or k == iorder[-1] or iorder.count(k) != 1):
            v["status"] = "crash" if crashed else "lost"
        elif k not in ic or iorder.count(k) != 1:
            v["status"] = "lost"
        elif ic[k] != gc[k]:
            v["status"] = "mismatch"
        elif in_skipped:
            v["status"] = "diag-from-skipped"
        elif mine:
            v["status"] = "diag"
        else:
            v["status"] = "ok"
        if mine:
            v["diags"] = ["%d: %s: %s" % x for x in mine[:6]]
        v["expected"] = tok.show(gc[k])
        v["observed"] = tok.show(ic[k]) if k in ic else None
        g_act = [x for x, grp in zip(info["active"], info["isgroup"]) if grp]
        v["kept"] = sum(1 for x in g_act if x)
        v["skipped"] = sum(1 for x in g_act if not x)
        if crashed:
            v["tool"] = {"rc": r.rc, "timeout": r.timeout, "stderr_tail": r.err[-600:]}
        if v["status"] == "ok" and asan_bad:
            v["status"] = "asan?"
            v["asan"] = asan_bad
        if v["status"] == "ok" and (stray or (r.rc != 0 and not any(x[1] == "error" for x in diags))):
            v["status"] = "stray?"
            v["stray"] = {"rc": r.rc, "diags": stray[:3]}
        res[k] = v
    if not cfg.get("keep"):
        try:
            os.unlink(os.path.join(d, fname))
        except OSError:
            pass
    return res


MAX_REPORTS = 200          # violations written out; further failures are only counted
BAD = ("mismatch", "diag-from-skipped", "diag", "crash", "lost", "asan?", "stray?", "asan", "stray")


def run_single(cfg, c, k, timeout, tag="s"):
    name = "%s%d_%s" % (tag, k, hashlib.sha1(key_of(c).encode()).hexdigest()[:8])
    v = run_file(cfg, name, [(k, c)], timeout)[k]
    if v["status"] in ("asan?", "stray?"):
        v["status"] = v["status"][:-1]
    return v


def batch_job(job):
    cfg, name, cases, timeout = job[:4]
    isolate = job[4] if len(job) > 4 else True
    try:
        res = run_file(cfg, name, cases, timeout)
        out = []
        for k, c in cases:
            v = res[k]
            if v["status"] in BAD and isolate:
                v = dict(run_single(cfg, c, k, max(timeout, 20)), batch_status=v["status"])
            out.append((k, v))
        only_in_batch = [k for k, v in out if v.get("batch_status") and v["status"] not in BAD]
        if only_in_batch and not any(v["status"] in BAD for _, v in out):
            # nothing in this file fails alone, so nothing explains the failures inside it
            return ("harness", "cases %s fail inside batch %s but none of its cases fails alone "
                               "(batching artefact or state leaking between cases)"
                    % (only_in_batch[:5], name))
        return ("ok", out)
    except HarnessError as e:
        return ("harness", str(e))


# ---------------------------------------------------------------------------- main
def layers_for(tier):
    """[(n, layer-name, generator-thunk)] in canonical order (bound iteration by n)."""
    thorough = tier == "thorough"
    full = make_enum(FULL_OP, FULL_EL)
    core = make_enum(CORE_OP, CORE_EL)
    nfull = 5 if thorough else 4
    ncore = 8 if thorough else 6
    ndev = 7 if thorough else 6
    nlit = 5 if thorough else 4
    ncmt = 5 if thorough else 4
    nself = 5 if thorough else 4
    nspell = 6 if thorough else 5
    plan = []
    for n in range(2, ncore + 1):
        if n <= nfull:
            plan.append((n, "full", lambda n=n: full(n)))
        else:
            plan.append((n, "core", lambda n=n: core(n)))
            if n <= ndev:
                plan.append((n, "dev1", lambda n=n: dev1(core(n))))
        if n <= nlit:
            plan.append((n, "lit", lambda n=n: core(n)))
        if n <= ncmt:
            plan.append((n, "cmt", lambda n=n: core(n)))
        if n <= nself:
            plan.append((n, "selfref", lambda n=n: dev1(core(n), [c for c, _, _ in SELFREF])))
            plan.append((n, "numlit", lambda n=n: dev1(core(n), [c for c, _, _ in NUMLIT])))
            plan.append((n, "defspell", lambda n=n: dev1(core(n), [c for c, _, _ in DEFSPELL])))
            plan.append((n, "hasinc", lambda n=n: dev1(core(n), [c for c, _, _ in HASINC])))
        if n <= nspell:
            plan.append((n, "spell", lambda n=n: core(n)))
    return plan


def main():
    ck = Check(PID, level="model_checking")
    try:
        return explore(ck)
    except (HarnessError, KeyboardInterrupt):
        ck.cleanup()
        raise


def explore(ck):
    rel = build.build("rel")
    asan = build.build("asan")
    if tools.run(["gcc", "--version"]).rc != 0:
        raise HarnessError("oracle tool gcc missing")
    cfg = {"dir": ck.scratch(), "rel": rel, "asan": asan, "keep": ck.keep}
    open(os.path.join(cfg["dir"], "present.h"), "w").close()
    os.makedirs(os.path.join(cfg["dir"], "sysinc"), exist_ok=True)
    open(os.path.join(cfg["dir"], "sysinc", "sysonly.h"), "w").close()
    if ck.replay:
        return replay(ck, cfg)
    head = tools.run(["git", "-C", rel["repo"], "rev-parse", "--short", "HEAD"]).out.strip()
    dirty = tools.run(["git", "-C", rel["repo"], "status", "--porcelain", "-uno"]).out.strip()
    ck.extra["tree"] = {"path": rel["repo"], "head": head, "modified_files": dirty.splitlines()}
    variants = VARIANTS
    reported = unreported = 0
    k_next = 1
    completed = {}
    stopped = False
    for n, layer, thunk in layers_for(ck.tier):
        if ck.only and layer not in ck.only:
            continue
        if stopped:
            break
        cases = []
        for s in thunk():
            if layer == "lit":
                for lit in LITS:
                    cases.append(dict(layer="lit:" + lit, var="u+def", seq=list(s), lit=lit))
            elif layer == "cmt":
                for sh in SHAPES:
                    for pos in ["all"] + ["%s%d" % (w, r) for r in range(1, len(s) + 1)
                                          for w in ("b", "d")]:
                        cases.append(dict(layer="cmt:%s@%s" % (sh, pos), var="u+alt",
                                          seq=list(s), cshape=sh, cpos=pos))
            elif layer == "spell":
                for sp in ("ws", "cmt"):
                    cases.append(dict(layer="spell:" + sp, var="u+alt", seq=list(s), spell=sp))
            else:
                for var in variants:
                    cases.append(dict(layer=layer, var=var, seq=list(s)))
        jobs = []
        bsize = 300
        for i in range(0, len(cases), bsize):
            chunk = []
            for c in cases[i:i + bsize]:
                chunk.append((k_next, c))
                k_next += 1
            jobs.append([cfg, "%s_n%d_%05d" % (layer, n, i // bsize), chunk, 60, True])
        wave = 64
        for w in range(0, len(jobs), wave):
            for job in jobs[w:w + wave]:
                # once the report cap is reached failing cases are only counted (batch
                # verdict), no longer isolated, confirmed and written out
                job[4] = reported < MAX_REPORTS
            if ck.expired(reserve=20):
                ck.cap("deadline: layer %s stopped inside n=%d after %d of %d cases"
                       % (layer, n, w * bsize, len(cases)))
                stopped = True
                break
            for job, (st, out) in zip(jobs[w:w + wave], pmap_proc(batch_job, jobs[w:w + wave])):
                if st != "ok":
                    raise HarnessError(out)
                cmap = dict(job[2])
                for k, v in out:
                    c = cmap[k]
                    status = v["status"]
                    nt = v["kept"] >= 1 and v["skipped"] >= 1
                    ck.note(key_of(c), nontrivial=nt and status == "ok",
                            outcome=status if status != "ok" else
                            "ok kept=%d skipped=%d" % (v["kept"], v["skipped"]),
                            family=layer,
                            sample={"case": c, "expected": v["expected"], "observed": v["observed"]})
                    if status in BAD:
                        if reported < MAX_REPORTS:
                            reported += 1
                            report(ck, cfg, c, k, v)
                        else:
                            unreported += 1
        else:
            completed[layer] = n
        print("C09: layer %s, n=%d: %s; %d cases so far, %.0f s"
              % (layer, n, "cut" if stopped else "done", ck.evaluations, ck.elapsed()), flush=True)
    if unreported:
        print("C09: %d further failing cases were counted but not written out" % unreported,
              flush=True)
        ck.violations.append({"key": "(unreported)", "what": "%d further failing cases" % unreported,
                              "replay": None})
        ck.extra["unreported_failures"] = unreported
    return ck.finish(
        rule="one case = one well-nested directive sequence x macro-state variant, run through "
             "parse_file -E and gcc -E -P; non-trivial = at least one group skipped and at least "
             "one group kept (regions after #endif not counted), and both preprocessors agree",
        exhaustive=True,
        bound="sequence length n completed per layer: %s; nesting <= 3; 3 macro-state variants"
              % completed,
        assumptions=["gcc 12 -E -P -std=c++2b is the conforming preprocessor",
                     "#include of an absent file, #error and unbalanced quotes are only placed in "
                     "groups the reference model says are skipped; gcc re-decides each case and "
                     "fails loudly on a disagreement",
                     "layers core/dev1 restrict the condition spellings (full product only up to "
                     "the 'full' bound)"],
        min_nontrivial=100)


def report(ck, cfg, c, k, v):
    what = {"mismatch": "surviving markers / macro state differ from the conforming preprocessor's",
            "diag-from-skipped": "diagnostic originating in a skipped group",
            "diag": "unexpected diagnostic on a well-formed conditional",
            "crash": "parse_file -E crashed / hung", "lost": "case marker lost or duplicated",
            "asan": "sanitizer report / divergent output on the asan build",
            "stray": "non-zero exit status or diagnostic outside any case"}.get(v["status"], v["status"])
    lines, _ = render(c, k)
    detail = {"observed": v.get("observed"), "expected": v.get("expected"), "status": v["status"],
              "case": c, "k": k, "file": "\n".join(lines) + "\nint __case_0__;\n",
              "diags": v.get("diags"), "tool": v.get("tool"), "asan": v.get("asan"),
              "cmd": "parse_file -E case.h  vs  gcc -E -P -x c++ -std=%s -w case.h "
                     "(an empty present.h beside it; -S sysinc / -isystem sysinc with an empty "
                     "sysinc/sysonly.h)" % STD}

    def again():
        return run_single(cfg, c, k, 100, tag="c")["status"] in BAD
    ck.fail(key_of(c), "%s: expected [%s], observed [%s] %s"
            % (what, v.get("expected"), v.get("observed"), v.get("diags") or ""), detail, confirm=again)


def replay(ck, cfg):
    rp = ck.load_replay()
    d = rp["detail"]
    v = run_single(dict(cfg, keep=True), d["case"], d["k"], 100, tag="replay")
    print("case     :", rp["key"])
    print("input    :\n" + d["file"])
    print("expected :", v.get("expected"))
    print("observed :", v.get("observed"))
    print("status   :", v["status"], v.get("diags") or "", v.get("tool") or "", v.get("asan") or "")
    ck.cleanup()
    return 1 if v["status"] in BAD else 0


if __name__ == "__main__":
    run_main(main)
