"""C01 -- handle-style wrappers (-c, -python) behave exactly like the C++ they wrap.

Shape S (small-scope program enumeration).  Atoms = parameter-kind x position x call-kind x
return-kind (see vf/lib_c01*.py), batched into libraries; every library is run through
interrogate under each option set, compiled together with its *native twin* and driven from
a separate Python process:

  -c        ctypes calls the generated wrapper; symbol, parameter and return types are
            taken from the database only
  -python   the generated extension module is imported and the wrapper called by its
            reported name with handle integers

Each wrapper is called >= 3 times in a row on 2 objects with every argument tuple of the
per-kind boundary domains; the same sequence is made natively through the twin's extern "C"
oracle entries on identically constructed objects.  Return values are compared bit for bit,
trace buffers entry by entry (which body ran, with which values, on which object), object
states after every call, and the variant named by the wrapper's database entry (function,
parameter categories -> omitted-default count) must be the body that ran.
"""
import hashlib
import json
import os
import shutil
import sys

from vf import build, tools
from vf.core import Check, HarnessError, pmap, run_main
from vf.lib_c01c import Lib, enumerate_atoms, atom_key, cluster_of

PID = "C01"
PY = "/usr/bin/python3"
DRIVER = os.path.join(build.VERIF, "vf", "c01_driver.py")

F_atomic, F_unsigned, F_signed, F_long, F_longlong, F_short = 2, 4, 8, 0x10, 0x20, 0x40
F_wrapped, F_pointer, F_const, F_struct, F_class, F_union = 0x80, 0x100, 0x200, 0x400, 0x800, 0x1000
F_enum, F_typedef, F_array = 0x80000, 0x200000, 0x400000
WF_has_return, WF_callable_by_name = 2, 4


# ------------------------------------------------------------------------ configurations
class Cfg:
    def __init__(self, backend, names, string, promisc, nodb):
        self.backend, self.names, self.string, self.promisc, self.nodb = backend, names, string, promisc, nodb

    @property
    def name(self):
        return "%s-%s%s%s%s" % (self.backend, self.names, "+string" if self.string else "",
                                "+promiscuous" if self.promisc else "", "+nodb" if self.nodb else "")

    def flags(self):
        f = ["-c"] if self.backend == "c" else ["-python", "-do-module"]
        f += ["-fnames"] if self.names == "fnames" else ["-fptrs", "-true-names"]
        if self.string:
            f.append("-string")
        if self.promisc:
            f.append("-promiscuous")
        if self.nodb:
            f.append("-nodb")
        return f

    def to_json(self):
        return [self.backend, self.names, self.string, self.promisc, self.nodb]


def configurations(tier):
    if tier == "quick":
        return [Cfg("c", "fnames", True, False, False),
                Cfg("c", "fnames", False, True, True),
                Cfg("python", "fnames", True, True, False),
                Cfg("python", "true", False, False, True)]
    out = []
    for backend, names in (("c", "fnames"), ("python", "fnames"), ("python", "true")):
        for string in (False, True):
            for promisc in (False, True):
                for nodb in (False, True):
                    out.append(Cfg(backend, names, string, promisc, nodb))
    return out


# ----------------------------------------------------------------------- database -> cats
def tup(x):
    return tuple(tup(y) for y in x) if isinstance(x, (list, tuple)) else x


def db_cat(T, idx, depth=0):
    t = T.get(str(idx))
    if t is None or depth > 8:
        return ("unknown", idx)
    fl = t["flags"]
    if fl & F_array:
        return ("array", db_cat(T, t["wrapped_type"], depth + 1), t["array_size"])
    if fl & F_wrapped:
        inner = db_cat(T, t["wrapped_type"], depth + 1)
        if fl & F_pointer:
            return ("ptr", inner)
        if fl & F_const:
            return ("const", inner)
        if fl & F_array:
            return ("array", inner)
        return inner
    if fl & F_typedef and t["wrapped_type"]:
        return db_cat(T, t["wrapped_type"], depth + 1)
    if fl & F_atomic:
        tok = t["atomic_token"]
        if tok in (1, 8):
            w = "short" if fl & F_short else "longlong" if (fl & F_longlong or tok == 8) else \
                "long" if fl & F_long else "int"
            return ("int", w, not (fl & F_unsigned))
        if tok == 2:
            return ("float",)
        if tok == 3:
            return ("double",)
        if tok == 4:
            return ("bool",)
        if tok == 5:
            return ("char", "u" if fl & F_unsigned else "s" if fl & F_signed else "")
        if tok == 6:
            return ("void",)
        if tok == 7:
            return ("string",)
        return ("atomic", tok)
    if fl & F_enum:
        return ("enum", t["scoped_name"])
    if fl & (F_struct | F_class | F_union):
        return ("class", t["scoped_name"])
    return ("other", t["scoped_name"])


def index_wrappers(db, backend):
    """function scoped name -> list of wrapper descriptions, from the database only"""
    T, F, W = db["types"], db["functions"], db["wrappers"]
    out = {}
    for fi, f in F.items():
        for wi in f["c_wrappers" if backend == "c" else "python_wrappers"]:
            w = W[str(wi)]
            cats = tuple(db_cat(T, p["type"]) for p in w["parameters"])
            rcat = db_cat(T, w["return_type"]) if w["flags"] & WF_has_return else ("void",)
            out.setdefault(f["scoped_name"], []).append({
                "index": wi, "name": w["name"], "cats": cats, "rcat": rcat, "flags": w["flags"],
                "pnames": [p["name"] for p in w["parameters"] if not p["flags"] & 2],
                "fn": f["scoped_name"], "fflags": f["flags"], "claimed": False})
    return out


# -------------------------------------------------------------------------- one library
def has_nul(v):
    return isinstance(v, dict) and "s" in v and b"\0" in bytes.fromhex(v["s"])


def adapt_steps(sp, backend):
    """the C interface carries strings as NUL-terminated char*: values with an embedded NUL
    cannot be expressed there and are left unjudged (counted)."""
    steps, dropped = [], 0
    for st in sp["steps"]:
        drop = False
        if backend == "c":
            if any(has_nul(v) for v in st["a"]):
                drop = True
            if st.get("prep") and any(has_nul(v) for v in st["prep"][2]):
                drop = True
            if sp["ret"][0] == "k" and sp["ret"][1] in ("str", "strr") and st["a"] and \
                    isinstance(st["a"][0], int) and st["a"][0] >= 6 and sp["family"] == "R":
                drop = True
        if drop:
            dropped += 1
        else:
            steps.append(st)
    return steps, dropped


class Library:
    """one header (list of atoms) under one configuration, in directory d"""

    def __init__(self, b, d, atoms, cfg, tag):
        self.b, self.d, self.atoms, self.cfg, self.tag = b, d, atoms, cfg, tag
        self.libname = "vfl" + hashlib.sha1((tag + cfg.name).encode()).hexdigest()[:8]
        self.problem = None
        self.compat = False
        self.unclaimed = []
        self.missing = []

    def build(self):
        cfg, d, b = self.cfg, self.d, self.b
        os.makedirs(d, exist_ok=True)
        lib = Lib(self.atoms, cfg.string, cfg.promisc)
        self.model = lib
        open(os.path.join(d, "h.h"), "w").write(lib.header())
        open(os.path.join(d, "twin.cxx"), "w").write(lib.twin_source())
        args = ["-oc", "w.cxx", "-od", "w.in", "-module", "vfm", "-library", self.libname,
                "-S" + os.path.join(b["repo"], "parser-inc")] + cfg.flags() + ["h.h"]
        r = tools.interrogate(b, args, cwd=d, timeout=300)
        self.cmd = [b["interrogate"]] + args
        if r.rc != 0 or not os.path.exists(os.path.join(d, "w.cxx")):
            self.problem = ("interrogate", r.brief())
            return False
        self.stderr = r.err
        try:
            self.db = tools.idb_dump(b, [os.path.join(d, "w.in")], cwd=d)
        except RuntimeError as e:
            self.problem = ("idbdump", str(e))
            return False
        inc = ["-I" + d, "-I" + os.path.join(b["repo"], "src", "dtoolbase"),
               "-I" + os.path.join(b["repo"], "src", "interrogatedb"),
               "-I" + os.path.join(build.VERIF, "harness", "shim")]
        for sub in ("src/dtoolbase", "cmake/src/dtoolbase", "dtool/src/dtoolbase", "."):
            p = os.path.join(b["dir"], sub)
            if os.path.exists(os.path.join(p, "dtool_config.h")):
                inc.append("-I" + p)
                break
        if cfg.backend == "python":
            inc.append("-I/usr/include/python3.11")
        base = ["g++", "-fPIC", "-O0", "-w", "-fno-strict-aliasing"] + tools.PUBLISH_DEFS + inc
        jobs = [base + ["-std=gnu++17", "-fno-access-control", "-c", "twin.cxx", "-o", "twin.o"],
                base + ["-std=gnu++14", "-c", "w.cxx", "-o", "w.o"]]
        rs = pmap(lambda c: tools.run(c, cwd=d, timeout=900, env=dict(os.environ, LC_ALL="C")), jobs, workers=2)
        if rs[0].rc != 0:
            raise HarnessError("native twin does not compile (%s): %s" % (d, rs[0].err[-3000:]))
        if rs[1].rc != 0:
            # the known C03 defect (unqualified basic_string<char> with -python -string -nodb) must
            # not hide C01 behaviour: retry with a compatibility prelude and say so
            open(os.path.join(d, "vf_compat.h"), "w").write("#include <string>\nusing std::basic_string;\n")
            r2 = tools.run(jobs[1] + ["-include", "vf_compat.h"], cwd=d, timeout=900,
                           env=dict(os.environ, LC_ALL="C"))
            if r2.rc != 0:
                self.problem = ("compile", rs[1].err[-2500:])
                return False
            self.compat = True
        so = os.path.join(d, self.libname + ".so")
        r = tools.run(["g++", "-shared", "-o", so, "w.o", "twin.o"], cwd=d, timeout=300,
                      env=dict(os.environ, LC_ALL="C"))
        if r.rc != 0:
            self.problem = ("link", r.err[-2500:])
            return False
        self.so = so
        return True

    def plan(self):
        """match every model spec with a database wrapper; returns the list of planned specs"""
        import re
        cfg = self.cfg
        idx = index_wrappers(self.db, cfg.backend)
        planned = []
        self.unjudged_steps = 0
        for sp in self.model.specs:
            if cfg.names == "true" and not sp["tn"]:
                continue
            if sp.get("fn_re"):
                rx = re.compile(sp["fn_re"])
                cands = [w for fn, ws in idx.items() if rx.search(fn) for w in ws]
            else:
                cands = idx.get(sp["fn"], [])
            cats, rcat = tup(sp["cats"]), tup(sp["rcat"])
            m = [w for w in cands if w["cats"] == cats]
            if len(m) > 1:
                m = [w for w in m if w["rcat"] == rcat]
            if len(m) > 1 and sp.get("pnames") is not None:
                # overloads of equal category (all string-ish kinds are "atomic string"): the entry's
                # parameter names say which declared overload it stands for
                m = [w for w in m if w["pnames"] == sp["pnames"]]
            if len(m) != 1:
                self.missing.append({"key": sp["key"], "fn": sp["fn"] or sp.get("fn_re"), "want": [cats, rcat],
                                     "have": [[w["cats"], w["rcat"]] for w in cands]})
                continue
            w = m[0]
            w["claimed"] = True
            if cfg.backend == "c" and not (w["flags"] & WF_callable_by_name):
                self.missing.append({"key": sp["key"], "fn": sp["fn"], "want": "callable by name", "have": w["flags"]})
                continue
            steps, dropped = adapt_steps(sp, cfg.backend)
            self.unjudged_steps += dropped
            while 0 < len(steps) < 3:
                steps = steps + steps
            if not steps:
                continue
            p = dict(sp)
            p["steps"] = steps
            if cfg.names == "true":
                p["wname"] = w["fn"].replace("::", "_")
            else:
                p["wname"] = w["name"]
            p["dbp"], p["dbr"], p["windex"] = w["cats"], w["rcat"], w["index"]
            p["db_rcat_expected"] = (w["rcat"] == rcat)
            planned.append(p)
        for fn, ws in idx.items():
            for w in ws:
                if not w["claimed"] and cfg.names != "true":
                    self.unclaimed.append("%s %s -> %s" % (fn, list(w["cats"]), w["rcat"]))
        return planned

    def run(self, planned, tag="run", timeout=600):
        """run the driver; a crash is attributed to the spec that was running and the rest re-run"""
        results = {}
        todo = list(planned)
        rnd = 0
        while todo:
            rnd += 1
            pf = os.path.join(self.d, "%s-%d.plan.json" % (tag, rnd))
            of = os.path.join(self.d, "%s-%d.out.jsonl" % (tag, rnd))
            gf = os.path.join(self.d, "%s-%d.progress" % (tag, rnd))
            json.dump({"backend": self.cfg.backend, "so": self.so, "module": self.libname, "specs": todo,
                       "out": of, "progress": gf}, open(pf, "w"))
            env = {"PATH": "/usr/bin:/bin", "LC_ALL": "C", "TZ": "UTC", "HOME": "/nonexistent",
                   "PYTHONHASHSEED": "0", "PYTHONDONTWRITEBYTECODE": "1"}
            r = tools.run([PY, "-S", DRIVER, pf], cwd=self.d, env=env, timeout=timeout)
            done = {}
            if os.path.exists(of):
                for line in open(of):
                    line = line.strip()
                    if line:
                        try:
                            x = json.loads(line)
                            done[x["key"]] = x
                        except ValueError:
                            pass
            results.update(done)
            rest = [s for s in todo if s["key"] not in done]
            if not rest:
                break
            # the driver died (or hung) inside rest[0]
            cur = rest[0]
            last = None
            if os.path.exists(gf):
                for line in open(gf):
                    if line.startswith("BEGIN "):
                        last = line[6:].strip()
            if last != cur["key"]:
                raise HarnessError("driver stopped outside a wrapper call (%s): rc=%s %s"
                                   % (self.d, r.rc, r.err[-1500:]))
            results[cur["key"]] = {"key": cur["key"], "ok": False, "calls": 0, "distinct_rows": 0, "body_ran": 0,
                                   "rkind": "crash",
                                   "diff": {"what": "crash" if not r.timeout else "hang", "rc": r.rc,
                                            "stderr": r.err[-600:]}}
            todo = rest[1:]
        return results


# --------------------------------------------------------------------------------- main
def batches(atoms, n):
    """split the canonical atom list into n libraries (contiguous, so families stay together)"""
    n = max(1, min(n, len(atoms)))
    size = (len(atoms) + n - 1) // n
    return [atoms[i:i + size] for i in range(0, len(atoms), size)]


def atoms_for(tier, cfg):
    return enumerate_atoms(tier, cfg.string)


def describe_failure(res):
    d = res.get("diff") or {}
    if res.get("harness"):
        return "driver error: " + res["harness"]
    if d.get("what") in ("crash", "hang"):
        return "%s of the wrapper call (rc %s)" % (d["what"], d.get("rc"))
    if d.get("what") == "argument-buffer":
        return "argument buffer differs after call %s: wrapper %s / native %s" % (
            d.get("call"), d["wrapper"].get("buffers"), d["oracle"].get("buffers"))
    return "%s differs at call %s: wrapper %s / native %s" % (
        d.get("what"), d.get("call"), json.dumps(d.get("wrapper", {}).get("ret" if d.get("what") == "return" else
                                                                         "trace" if d.get("what") in ("trace", "body") else "state"))[:200],
        json.dumps(d.get("oracle", {}).get("ret" if d.get("what") == "return" else
                                          "trace" if d.get("what") in ("trace", "body") else "state"))[:200])


def observed(res):
    d = res.get("diff") or {}
    if d.get("what") in ("crash", "hang"):
        return d["what"]
    return "%s@%s" % (d.get("what"), d.get("call"))


def main():
    ck = Check(PID, level="model_checking")
    b = build.build("rel")
    if ck.replay:
        return replay(ck, b)
    ck.scratch()       # create once, before the worker threads ask for it
    cfgs = configurations(ck.tier)
    nb = 2 if ck.tier == "quick" else 3
    libs = []
    unjudged_py_arrays = []
    for cfg in cfgs:
        atoms = atoms_for(ck.tier, cfg)
        # array members get a library of their own: the -python code generated for them does not
        # compile without the C03 array-cast repair, and that must not take other atoms with it
        arr = [a for a in atoms if a[0] == "GA"]
        atoms = [a for a in atoms if a[0] != "GA"]
        for bi, part in enumerate(batches(atoms, nb)):
            libs.append((cfg, "b%d" % bi, part))
        if cfg.backend == "c":
            libs.append((cfg, "barr", arr))
        else:
            # the simple Python back-end parses an array parameter as an opaque "O" object and casts the
            # PyObject pointer to the element pointer: it does not accept arrays, so no value a Python
            # caller could pass is defined -- left unjudged (counted)
            unjudged_py_arrays.extend("%s:%s" % (cfg.name, atom_key(a)) for a in arr)
    # atoms re-run alone (batching must not mask anything): the first atom of every family
    alone = []
    if not ck.only or "alone" in ck.only:
        for cfg in cfgs[:1] + [c for c in cfgs if c.backend == "python"][:1]:
            seen = set()
            for at in atoms_for(ck.tier, cfg):
                if at[0] == "GA" and cfg.backend != "c":
                    continue
                if at[0] not in seen and (cfg.names != "true"):
                    seen.add(at[0])
                    alone.append((cfg, "alone-" + atom_key(at).replace("/", "_").replace(",", "_"), [at]))
    state = {"wrappers": 0, "calls": 0, "unjudged_steps": 0, "compat": [], "unclaimed": {}, "missing": {},
             "unjudged_libs": [], "batched": {}, "alone_checked": 0}

    def one(job):
        cfg, tag, part = job
        if ck.expired(reserve=60):
            return ("expired", job)
        d = os.path.join(ck.scratch(), cfg.name, tag)
        L = Library(b, d, part, cfg, tag)
        if not L.build():
            return ("problem", job, L)
        planned = L.plan()
        res = L.run(planned)
        return ("ok", job, L, planned, res)

    outs = pmap(one, libs + alone, workers=12)
    failures = []
    for o in outs:
        if o[0] == "expired":
            ck.cap("deadline: library %s/%s not run" % (o[1][0].name, o[1][1]))
            continue
        cfg, tag, part = o[1]
        L = o[2]
        if o[0] == "problem":
            kind, info = L.problem
            if kind == "compile":
                # generated code that does not compile is C03's subject; C01 cannot judge it
                state["unjudged_libs"].append({"cfg": cfg.name, "lib": tag, "why": "generated code does not compile",
                                               "stderr": info[-400:]})
                ck.note("%s:%s" % (cfg.name, tag), nontrivial=False, outcome="unjudged:compile-failed",
                        family="unjudged")
                ck.cap("library %s/%s: generated code does not compile (C03 territory), %d atoms unjudged"
                       % (cfg.name, tag, len(part)))
                continue
            raise HarnessError("%s failed for %s/%s: %s" % (kind, cfg.name, tag, info))
        planned, res = o[3], o[4]
        if L.compat:
            state["compat"].append("%s/%s" % (cfg.name, tag))
        if L.unclaimed:
            state["unclaimed"]["%s/%s" % (cfg.name, tag)] = L.unclaimed[:40]
        if L.missing:
            state["missing"]["%s/%s" % (cfg.name, tag)] = L.missing[:40]
        state["unjudged_steps"] += L.unjudged_steps
        is_alone = tag.startswith("alone-")
        for sp in planned:
            r = res.get(sp["key"])
            if r is None:
                raise HarnessError("no result for %s in %s/%s" % (sp["key"], cfg.name, tag))
            if r.get("harness"):
                raise HarnessError("driver error on %s (%s/%s): %s" % (sp["key"], cfg.name, tag, r["harness"]))
            key = "%s:%s" % (cfg.name, sp["key"])
            if is_alone:
                state["alone_checked"] += 1
                prev = state["batched"].get(key)
                if prev is not None and prev != bool(r["ok"]):
                    raise HarnessError("batching changes the verdict of %s (batched ok=%s, alone ok=%s)"
                                       % (key, prev, r["ok"]))
                ck.note(key + "@alone", nontrivial=False, outcome="alone:" + ("ok" if r["ok"] else "fail"),
                        family="alone", transitions=r.get("calls", 0))
                continue
            state["batched"][key] = bool(r["ok"])
            state["wrappers"] += 1
            state["calls"] += r.get("calls", 0)
            nontriv = r.get("calls", 0) >= 3 and r.get("distinct_rows", 0) >= 2 and \
                (sp["body"] is None or r.get("body_ran", 0) >= 3)
            if r["ok"]:
                outcome = "ok:%s:%s" % (sp["family"], r.get("rkind"))
            else:
                outcome = "FAIL:%s" % (r.get("diff") or {}).get("what")
            ck.note(key, nontrivial=nontriv, outcome=outcome, family=cfg.backend + "/" + sp["family"],
                    transitions=r.get("calls", 0),
                    sample={"cfg": cfg.name, "wrapper": sp["wname"], "function": sp["fn"], "db_params": sp["dbp"],
                            "db_return": sp["dbr"], "calls": r.get("calls"), "omitted_defaults": sp["omitted"],
                            "first_step": sp["steps"][0]})
            if not r["ok"]:
                failures.append((cfg, tag, sp, r, L))

    # ---- failures: confirm each on a library holding only its atom, twice
    failures.sort(key=lambda f: (f[0].name, f[2]["key"]))
    conf_n = [0]

    def confirm_two(f):
        """re-run the failing case alone (a library holding only its atom / overload cluster), twice"""
        cfg, sp = f[0], f[2]
        with ck.lock:
            conf_n[0] += 1
            n = conf_n[0]
        at = sp.get("atom")
        d = os.path.join(ck.scratch(), "confirm", "%d" % n)
        L = Library(b, d, cluster_of(at, cfg.string) if at else [], cfg, "confirm")
        if not L.build():
            return [False, False]
        planned = [p for p in L.plan() if p["key"] == sp["key"]]
        if not planned:
            return [False, False]
        out = []
        for i in range(2):
            r = L.run(planned, tag="confirm%d" % i, timeout=6000).get(sp["key"], {})
            out.append(not r.get("ok", False) and not r.get("harness"))
        shutil.rmtree(d, ignore_errors=True)
        return out

    # the isolated re-runs are independent of each other: do them in parallel, two per failure
    pre = pmap(confirm_two, failures, workers=12)
    for (cfg, tag, sp, r, L), two in zip(failures, pre):
        two = list(two)
        key = "%s:%s" % (cfg.name, sp["key"])
        detail = {"observed": observed(r), "cfg": cfg.to_json(), "atom": sp.get("atom"), "spec_key": sp["key"],
                  "interrogate": L.cmd, "wrapper": sp["wname"], "function": sp["fn"], "db_params": sp["dbp"],
                  "db_return": sp["dbr"], "omitted_defaults": sp["omitted"], "diff": r.get("diff"),
                  "header": open(os.path.join(L.d, "h.h")).read() if len(L.atoms) < 4 else None}
        ck.fail(key, describe_failure(r), detail, confirm=lambda two=two: two.pop(0))

    ck.extra.update({"wrappers_called": state["wrappers"], "calls_made": state["calls"],
                     "configurations": [c.name for c in cfgs], "libraries": len(libs),
                     "unjudged_steps_c_string_with_nul": state["unjudged_steps"],
                     "compat_prelude_used_for": state["compat"], "unclaimed_wrappers": state["unclaimed"],
                     "specs_without_wrapper": state["missing"], "unjudged_libraries": state["unjudged_libs"],
                     "alone_reruns": state["alone_checked"],
                     "unjudged_python_array_member_setters": unjudged_py_arrays})
    if state["wrappers"] < 50 and not ck.only:
        raise HarnessError("vacuous exploration: only %d wrappers were called" % state["wrappers"])
    return ck.finish(
        rule="one case = one generated wrapper under one option set, called >=3 times in a row on 2 objects "
             "with every tuple of the per-kind boundary domains and compared call by call with the native "
             "twin; non-trivial = >=3 calls, the traced body ran on every call (kinds that have a body) and "
             "the native observations (return, trace, state) took >=2 distinct values over the sequence",
        exhaustive=True,
        bound="tier %s: %d configurations x %d atoms (arity<=2, trailing defaults<=2)"
              % (ck.tier, len(cfgs), len(atoms_for(ck.tier, cfgs[0]))),
        assumptions=["LP64 Linux, g++ 12, CPython 3.11; generated code compiled -O0 -std=gnu++14",
                     "embedded NUL bytes are not judged through the C back-end's char* interface",
                     "-true-names option sets run only atoms without overloads/defaults, as the option documents"],
        min_nontrivial=20 if not ck.only else 1)


def replay(ck, b):
    rp = ck.load_replay()
    dt = rp["detail"]
    cfg = Cfg(*dt["cfg"])
    at = dt.get("atom")
    d = os.path.join(ck.scratch(), "replay")
    L = Library(b, d, cluster_of(at, cfg.string) if at else [], cfg, "replay")
    if not L.build():
        print("library does not build:", L.problem)
        ck.cleanup()
        return 1
    planned = [p for p in L.plan() if p["key"] == dt["spec_key"]]
    print("interrogate:", " ".join(L.cmd))
    print("header:\n" + open(os.path.join(d, "h.h")).read())
    if not planned:
        print("no wrapper for", dt["spec_key"], "missing:", L.missing)
        ck.cleanup()
        return 1
    res = L.run(planned)[dt["spec_key"]]
    print("wrapper:", planned[0]["wname"], "db params:", planned[0]["dbp"], "db return:", planned[0]["dbr"])
    print("result:", json.dumps(res, indent=1)[:3000])
    ck.cleanup()
    return 0 if res.get("ok") else 1


if __name__ == "__main__":
    run_main(main)
