"""C17 -- include lookup order, once-only inclusion under any path spelling, idempotent and
denotation-preserving path normalisation, file ownership.

Shapes S + E.  Five families, each an exhaustive enumeration executed on the real binaries:

lookup    directory trees in which x.h is present/absent in each of {cwd, includer's directory,
          I1, I2, S1 (thorough: S2)} x include form {"x.h", <x.h>} x -noangles x EVERY ordered
          arrangement of EVERY subset of the -I/-S arguments x includer {in cwd, in a
          subdirectory (thorough: nested include)} (thorough: x -srcdir).  Each copy of x.h
          defines its own macro and publishes its own function, the includer (named on the command
          line) publishes read_<loc> under #ifdef: the database shows WHICH copy was read and
          WHETHER it was treated as the user's own.  parse_file repeats the "which copy" part.
          Oracle: the rule of the property, transcribed (expected_lookup).
srcdir    -srcdir at EVERY position among the -I/-S arguments x relative and absolute spellings
          of all of them x x.h present/absent in {source dir, I1, S1, and the decoys
          <srcdir>/<relative I1>, <srcdir>/<relative S1>} x 2 forms: -srcdir only says where the
          source files are; -I/-S are resolved against the start directory wherever it stands.
nested    the includer of x.h is itself reached through an #include: chains of 2 and 3 files, the
          middle file found through {its includer's directory, -I, -S, the working directory}
          by a reference with or without a directory component, x.h present/absent in {cwd,
          cwd/<directory part of the reference> (decoy), the directory where the includer
          really is, I1, S1} x {"x.h", <x.h>} plus a __has_include probe of the same name
          (thorough: x swapped -I/-S order x -noangles).  Oracle: the literal rule with "the
          including file's directory" = where that file was FOUND.
explicit  a header that is named on the command line AND reached through an #include of another
          command-line file: {reached first through the include, named first} x where the include
          is resolved {working directory, includer's directory, -I, -S with "..", -S with <..>;
          the -I/-S directory itself plain or a symlink} x every spelling (plain ./ d/.. // file
          symlink, through a symlinked directory, absolute) of BOTH the include directive and the
          command-line argument x {plain, #pragma once, guard}: it is the user's own.
once      a guarded / #pragma once header included twice through every ordered PAIR of spellings
          (x.h ./x.h d/../x.h .//x.h file-symlink dir-symlink absolute, symlink-then-..), also with
          the header itself named on the command line: contents processed once, exported once, no
          diagnostics.
routes    the same #pragma once / guarded header reached 2 and 3 times through every ordered
          sequence of ROUTES {cwd-relative quote, includer's directory, -I, -S <>, -S "", absolute,
          through a symlinked directory}, whose source classes differ (local/alternate/system):
          contents processed once, exported at most once, no diagnostics, exit 0.
dirspell  the -I / -S directory spelled through the same alphabet: the same file is found.
norm      ALL path strings of <= 4 (thorough 5) components over {a, b (symlink to a directory
          elsewhere), f, n (missing), ., .., empty} x leading slash {none, /, absolute prefix} x
          trailing slash, evaluated by harness/fnorm (links the tree's libdtoolutil) inside a
          constructed tree: standardize / make_absolute / make_canonical are idempotent and,
          whenever the original resolves (stat), the result resolves to the same (st_dev, st_ino);
          make_relative_to is judged in its documented use (both sides canonical first).
          Failing strings are reduced, inside the exhaustive result table, to their 1-minimal
          failing core (delete one component at a time); one report per core.
"""
import itertools
import json
import os
import re
import shutil
import subprocess

from vf import build, harness, tools
from vf.core import Check, HarnessError, pmap, pmap_proc, run_main

PID = "C17"

# ----------------------------------------------------------------------------- lookup
LOC_DIR = {"cwd": ".", "sub": "sub", "I1": "I1", "I2": "I2", "S1": "S1", "S2": "S2",
           # decoys for the srcdir family: where "t/I1" would lead if it were resolved against the
           # source directory t instead of the start directory
           "DI1": "t/I1", "DS1": "t/S1"}


def xh_text(loc, structs=True):
    s = "#define XH_%s 1\n__begin_publish\nvoid own_%s();\n__end_publish\n" % (loc.upper(), loc.lower())
    if structs:
        s += "struct T_%s { int v; };\n" % loc.lower()
    return s


def markers(locs):
    out = ["__begin_publish", "void anchor();"]
    for l in locs:
        out += ["#ifdef XH_%s" % l.upper(), "void read_%s();" % l.lower(), "#endif"]
    out.append("__end_publish")
    return "\n".join(out) + "\n"


def inc_line(form, name="x.h"):
    return '#include "%s"\n' % name if form == "q" else "#include <%s>\n" % name


def write(path, text):
    os.makedirs(os.path.dirname(path), exist_ok=True)
    with open(path, "w") as f:
        f.write(text)


def make_lookup_tree(root, locs, mask):
    """root/t is the working directory; mask = tuple of locations holding a copy of x.h."""
    t = os.path.join(root, "t")
    for l in locs:
        os.makedirs(os.path.join(t, LOC_DIR[l]), exist_ok=True)
    for l in mask:
        write(os.path.join(t, LOC_DIR[l], "x.h"), xh_text(l))
    for form in "qa":
        write(os.path.join(t, "m%s.h" % form), inc_line(form) + markers(locs))
        write(os.path.join(t, "sub", "m%s.h" % form), inc_line(form) + markers(locs))
        write(os.path.join(t, "sub", "mid%s.h" % form), inc_line(form))
        write(os.path.join(t, "t%s.h" % form), '#include "sub/mid%s.h"\n' % form + markers(locs))
    return t


def expected_lookup(case):
    """The rule of the property, literally:  #include "x": working directory, then the
    including file's directory, then the -I/-S directories in command-line order;  #include <x>:
    only the -S directories (like quotes under -noangles); not found -> skipped with a warning.
    Own exactly when found in the working directory (the includer is the only file named on the
    command line), never when found through -S."""
    present = set(case["mask"])
    quote = case["form"] == "q" or case["noangles"]
    cands = []          # (location, how)
    if quote:
        cands.append(("cwd", "cwd"))
        cands.append(("cwd" if case["includer"] == "cwd" else "sub", "includer"))
        cands += [(d, fl) for fl, d in case["args"]]
    else:
        cands += [(d, fl) for fl, d in case["args"] if fl == "S"]
    for loc, how in cands:
        if loc in present:
            return {"read": loc, "own": how == "cwd", "how": how}
    return {"read": None, "own": False, "how": "notfound"}


def lookup_key(c):
    return "lookup/%s/%s/%s%s/%s/[%s]%s" % (
        c["tool"], c["includer"], c["form"], "n" if c["noangles"] else "-",
        "+".join(c["mask"]) or "none", ",".join("%s:%s" % (fl, d) for fl, d in c["args"]),
        "/srcdir" if c["srcdir"] else "")


NAME_RE = re.compile(r"\b(read|own)_([a-z0-9]+)\b")


def observe_names(text):
    read, own = set(), set()
    for k, l in NAME_RE.findall(text):
        (read if k == "read" else own).add(l)
    return sorted(read), sorted(own)


def run_lookup(b, treeroot, outdir, c, tag):
    """Executes one lookup case; returns the observation dict."""
    t = os.path.join(treeroot, "t")
    incl = {"cwd": "m%s.h", "sub": "sub/m%s.h", "nested": "t%s.h"}[c["includer"]] % c["form"]
    pre = "t/" if c["srcdir"] else ""
    dargs = []
    for fl, d in c["args"]:
        dargs += ["-" + fl, pre + LOC_DIR[d]]
    cwd = treeroot if c["srcdir"] else t
    if c["tool"] == "interrogate":
        od = os.path.join(outdir, "%s.in" % tag)
        cmd = [b["interrogate"], "-od", od, "-module", "m", "-library", "l", "-v"] + dargs
        if c["noangles"]:
            cmd.append("-noangles")
        if c["srcdir"]:
            cmd += ["-srcdir", "t"]
        cmd.append(incl)
        r = tools.run(cmd, cwd=cwd, b=b)
        try:
            text = open(od).read()
            os.unlink(od)
        except OSError:
            text = ""
        read, own = observe_names(text)
    else:
        cmd = [b["parse_file"]] + dargs + [incl]
        r = tools.run(cmd, cwd=cwd, b=b)
        read, own = observe_names(r.out)
        own = None      # parse_file prints every declaration: ownership is not visible
    return {"rc": r.rc, "read": read, "own": own, "anchor": "anchor" in (text if c["tool"] == "interrogate" else r.out),
            "warn": "Cannot find" in r.err, "stderr": r.err[-600:], "cmd": cmd, "cwd": cwd}


def judge_lookup(c, o):
    e = expected_lookup(c)
    bad = []
    if o["rc"] != 0:
        bad.append("exit status %s" % o["rc"])
    if not o["anchor"]:
        bad.append("the includer's own declarations are missing from the output")
    exp_read = [e["read"].lower()] if e["read"] else []
    if o["read"] != exp_read:
        bad.append("copy read: expected %s, observed %s" % (exp_read or "none (skipped)", o["read"] or "none"))
    if o["own"] is not None:
        exp_own = [e["read"].lower()] if e["own"] else []
        if o["own"] != exp_own:
            bad.append("exported as the user's own: expected %s, observed %s" % (exp_own or "none", o["own"] or "none"))
    if (e["read"] is None) != o["warn"]:
        bad.append("'Cannot find' warning %s" % ("missing" if e["read"] is None else "printed although the file is found"))
    return e, bad


def _lookup_chunk(job):
    """Worker (separate process): runs a list of cases, returns [(case, obs)]."""
    binfo, rootdir, outdir, cases, base = job
    out = []
    for i, c in enumerate(cases):
        treeroot = os.path.join(rootdir, "+".join(c["mask"]) or "none")
        out.append((c, run_lookup(binfo, treeroot, outdir, c, "%d_%d" % (base, i))))
    return out


def arrangements(symbols):
    """every ordered arrangement of every subset, simplest first"""
    out = []
    for k in range(len(symbols) + 1):
        for p in itertools.permutations(symbols, k):
            out.append(list(p))
    return out


def lookup_family(ck, b, thorough):
    locs = ["cwd", "sub", "I1", "I2", "S1"] + (["S2"] if thorough else [])
    dirsyms = [("I", "I1"), ("I", "I2"), ("S", "S1")] + ([("S", "S2")] if thorough else [])
    rootdir = ck.scratch("lookup")
    outdir = ck.scratch("lookup-out")
    masks = []
    for k in range(len(locs) + 1):
        for m in itertools.combinations(locs, k):
            masks.append(list(m))
    for m in masks:
        make_lookup_tree(os.path.join(rootdir, "+".join(m) or "none"), locs, m)
    arrs = arrangements(dirsyms)
    includers = ["cwd", "sub"] + (["nested"] if thorough else [])
    cases = []
    for srcdir in ([False, True] if thorough else [False]):
        for includer in includers:
            for form in "qa":
                for noangles in (False, True):
                    for args in arrs:
                        for m in masks:
                            for tool in ("interrogate", "parse_file"):
                                if tool == "parse_file" and (noangles or srcdir):
                                    continue        # parse_file has neither option
                                cases.append({"fam": "lookup", "tool": tool, "includer": includer,
                                              "form": form, "noangles": noangles,
                                              "args": [list(a) for a in args], "mask": m,
                                              "srcdir": srcdir})
    chunk = 200
    jobs = [(b, rootdir, outdir, cases[i:i + chunk], i) for i in range(0, len(cases), chunk)]
    done = 0
    step = 64
    for j in range(0, len(jobs), step):
        if ck.expired(reserve=30):
            ck.cap("lookup: deadline after %d of %d cases" % (done, len(cases)))
            break
        for res in pmap_proc(_lookup_chunk, jobs[j:j + step]):
            for c, o in res:
                done += 1
                e, bad = judge_lookup(c, o)
                key = lookup_key(c)
                # non-trivial: at least two candidate places hold a copy, or none does (so the
                # order, not mere presence, decides), and the outcome class records where it
                # was found
                ck.note(key, nontrivial=len(c["mask"]) != 1,
                        outcome="lookup:%s:%s" % (e["how"], "own" if e["own"] else "notown"),
                        family="lookup-" + c["tool"],
                        sample={"case": c, "expected": e, "observed": {k: o[k] for k in ("rc", "read", "own", "warn")}})
                if bad:
                    ck.fail(key, "; ".join(bad),
                            {"case": c, "expected": e, "observed": "; ".join(bad), "run": o},
                            confirm=lambda c=c: bool(judge_lookup(c, run_lookup(
                                b, os.path.join(rootdir, "+".join(c["mask"]) or "none"), outdir, c, "confirm"))[1]))
    return len(cases)


# ----------------------------------------------------------------------------- srcdir
# -srcdir names the directory the SOURCE FILE names are relative to (help text); -I/-S
# directories are made absolute when parsed, i.e. against the START directory, wherever -srcdir
# stands among them.
def srcdir_key(c):
    return "srcdir/%s/%s/%s/[%s]" % (c["form"], c["spell"], "+".join(c["mask"]) or "none",
                                    ",".join("SRCDIR" if a == "SRCDIR" else "%s:%s" % tuple(a) for a in c["seq"]))


def run_srcdir(b, treeroot, outdir, c, tag):
    """start directory = treeroot, source directory = treeroot/t"""
    t = os.path.join(treeroot, "t")
    cmd = [b["interrogate"], "-od", os.path.join(outdir, "%s.in" % tag), "-module", "m", "-library", "l", "-v"]
    for a in c["seq"]:
        if a == "SRCDIR":
            cmd += ["-srcdir", "t" if c["spell"] == "rel" else t]
        else:
            fl, d = a
            cmd += ["-" + fl, ("t/" + LOC_DIR[d]) if c["spell"] == "rel" else os.path.join(t, LOC_DIR[d])]
    cmd.append("m%s.h" % c["form"])
    r = tools.run(cmd, cwd=treeroot, b=b)
    od = os.path.join(outdir, "%s.in" % tag)
    try:
        text = open(od).read()
        os.unlink(od)
    except OSError:
        text = ""
    read, own = observe_names(text)
    return {"rc": r.rc, "read": read, "own": own, "anchor": "anchor" in text,
            "warn": "Cannot find" in r.err, "stderr": r.err[-600:], "cmd": cmd, "cwd": treeroot}


def srcdir_lookup_case(c):
    """the same case as the lookup oracle sees it: -srcdir only moves the working directory"""
    return {"mask": c["mask"], "form": c["form"], "noangles": False, "includer": "cwd",
            "args": [a for a in c["seq"] if a != "SRCDIR"]}


def _srcdir_chunk(job):
    binfo, rootdir, outdir, cases, base = job
    return [(c, run_srcdir(binfo, os.path.join(rootdir, "+".join(c["mask"]) or "none"), outdir, c, "s%d_%d" % (base, i)))
            for i, c in enumerate(cases)]


SRCDIR_LOCS = ["cwd", "I1", "S1", "DI1", "DS1"]


def srcdir_family(ck, b, thorough):
    rootdir = ck.scratch("srcdir")
    outdir = ck.scratch("srcdir-out")
    masks = []
    for k in range(len(SRCDIR_LOCS) + 1):
        for m in itertools.combinations(SRCDIR_LOCS, k):
            masks.append(list(m))
            make_lookup_tree(os.path.join(rootdir, "+".join(m) or "none"), SRCDIR_LOCS, m)
    seqs = []
    for args in arrangements([("I", "I1"), ("S", "S1")]):
        for pos in range(len(args) + 1):
            seqs.append([list(a) for a in args[:pos]] + ["SRCDIR"] + [list(a) for a in args[pos:]])
    cases = [{"fam": "srcdir", "form": form, "spell": spell, "mask": m, "seq": seq}
             for form in "qa" for spell in ("rel", "abs") for seq in seqs for m in masks]
    chunk = 150
    jobs = [(b, rootdir, outdir, cases[i:i + chunk], i) for i in range(0, len(cases), chunk)]
    for res in pmap_proc(_srcdir_chunk, jobs):
        for c, o in res:
            lc = srcdir_lookup_case(c)
            e, bad = judge_lookup(dict(lc, tool="interrogate"), o)
            key = srcdir_key(c)
            # non-trivial: -srcdir is followed by at least one relative -I/-S
            ck.note(key, nontrivial=c["spell"] == "rel" and c["seq"][-1] != "SRCDIR",
                    outcome="srcdir:%s:%s" % (e["how"], "own" if e["own"] else "notown"), family="srcdir",
                    sample={"case": c, "expected": e, "observed": {k: o[k] for k in ("rc", "read", "own", "warn")}})
            if bad:
                def confirm(c=c, lc=lc):
                    o2 = run_srcdir(b, os.path.join(rootdir, "+".join(c["mask"]) or "none"), outdir, c, "confirm")
                    return bool(judge_lookup(dict(lc, tool="interrogate"), o2)[1])
                ck.fail(key, "; ".join(bad), {"case": c, "expected": e, "observed": "; ".join(bad), "run": o},
                        confirm=confirm)
    return len(cases)


# ----------------------------------------------------------------------------- nested
# The includer of x.h is itself reached through an #include (chain of 2 or 3 files): "the including
# file's directory" is the directory where that file was actually FOUND, not the directory part
# of the string by which it was referred to.
NEST_REACH = ("incdir", "I", "S", "cwd")          # how the middle file b.h is found
NEST_CHAIN = ("2", "3c", "3deep")                  # top->b ; top->b->"c.h" ; top->b->"deep/c.h"


def nested_layout(t, reach, dirref, chain):
    """-> dict describing one structural tree below the working directory t"""
    base = {"incdir": os.path.join(t, "d"), "I": os.path.join(t, "J"), "S": os.path.join(t, "K"), "cwd": t}[reach]
    bdir = os.path.join(base, "lib") if dirref else base
    bref = "lib/b_%s.h" if dirref else "b_%s.h"
    if chain == "2":
        real, lastrefdir = bdir, ("lib" if dirref else "")
    elif chain == "3c":
        real, lastrefdir = bdir, ""
    else:
        real, lastrefdir = os.path.join(bdir, "deep"), "deep"
    roles = [("cwd", t), ("real", real)]
    if lastrefdir:
        roles.append(("decoy", os.path.join(t, lastrefdir)))
    roles += [("i1", os.path.join(t, "I1")), ("s1", os.path.join(t, "S1"))]
    label = {}
    for name, path in roles:
        label.setdefault(path, name)       # two roles on one physical directory share a label
    return {"t": t, "topdir": os.path.join(t, "d") if reach == "incdir" else t, "bdir": bdir,
            "bref": bref, "real": real, "label": label, "locs": list(label.values()),
            "paths": {v: k for k, v in label.items()},
            "opts": {"I": ["-I", "J"], "S": ["-S", "K"]}.get(reach, [])}


NEST_MARK_TAIL = "#ifdef HAS_X\nvoid has_x();\n#endif\n__end_publish\n"


def make_nested_tree(root, reach, dirref, chain, mask):
    t = os.path.join(root, "t")
    L = nested_layout(t, reach, dirref, chain)
    for d in ("I1", "S1", "J", "K", "d"):
        os.makedirs(os.path.join(t, d), exist_ok=True)
    for path in L["label"]:
        os.makedirs(path, exist_ok=True)
    for lab in mask:
        write(os.path.join(L["paths"][lab], "x.h"), xh_text(lab))
    for form in "qa":
        probe = ('#if __has_include("x.h")\n#define HAS_X 1\n#endif\n' if form == "q"
                 else "#if __has_include(<x.h>)\n#define HAS_X 1\n#endif\n")
        inner = probe + inc_line(form)
        if chain == "2":
            write(os.path.join(L["bdir"], "b_%s.h" % form), inner)
        else:
            cref = ("c_%s.h" if chain == "3c" else "deep/c_%s.h") % form
            write(os.path.join(L["bdir"], "b_%s.h" % form), '#include "%s"\n' % cref)
            write(os.path.join(L["real"], "c_%s.h" % form), inner)
        bref = L["bref"] % form
        topinc = "#include <%s>\n" % bref if reach == "S" else '#include "%s"\n' % bref
        write(os.path.join(L["topdir"], "top_%s.h" % form),
              topinc + markers(L["locs"]).replace("__end_publish\n", NEST_MARK_TAIL))
    return L


def expected_nested(c, L):
    t = L["t"]
    present = {L["paths"][lab] for lab in c["mask"]}
    optdirs = []
    if c["reach"] == "I":
        optdirs.append(("I", os.path.join(t, "J")))
    if c["reach"] == "S":
        optdirs.append(("S", os.path.join(t, "K")))
    tail = [("I", os.path.join(t, "I1")), ("S", os.path.join(t, "S1"))]
    if c.get("swap"):
        tail.reverse()
    optdirs += tail
    quote = c["form"] == "q" or c.get("noangles")
    if quote:
        cands = [("cwd", t), ("includer", L["real"])] + optdirs
    else:
        cands = [(fl, d) for fl, d in optdirs if fl == "S"]
    for how, d in cands:
        if d in present:
            return {"read": L["label"][d], "own": how == "cwd", "how": how}
    return {"read": None, "own": False, "how": "notfound"}


def nested_key(c):
    return "nested/%s/%s/%s/%s/%s%s%s/%s" % (c["tool"], c["reach"], "dirref" if c["dirref"] else "flat",
                                           c["chain"], c["form"], "n" if c.get("noangles") else "",
                                           "s" if c.get("swap") else "", "+".join(c["mask"]) or "none")


def nested_treeroot(rootdir, c):
    return os.path.join(rootdir, "%s-%d-%s" % (c["reach"], c["dirref"], c["chain"]), "+".join(c["mask"]) or "none")


def run_nested(b, treeroot, outdir, c, tag):
    t = os.path.join(treeroot, "t")
    L = nested_layout(t, c["reach"], c["dirref"], c["chain"])
    top = ("d/" if c["reach"] == "incdir" else "") + "top_%s.h" % c["form"]
    tail = ["-I", "I1", "-S", "S1"]
    if c.get("swap"):
        tail = ["-S", "S1", "-I", "I1"]
    dargs = L["opts"] + tail
    if c["tool"] == "interrogate":
        od = os.path.join(outdir, "%s.in" % tag)
        cmd = [b["interrogate"], "-od", od, "-module", "m", "-library", "l", "-v"] + dargs
        if c.get("noangles"):
            cmd.append("-noangles")
        cmd.append(top)
        r = tools.run(cmd, cwd=t, b=b)
        try:
            text = open(od).read()
            os.unlink(od)
        except OSError:
            text = ""
        read, own = observe_names(text)
    else:
        cmd = [b["parse_file"]] + dargs + [top]
        r = tools.run(cmd, cwd=t, b=b)
        text = r.out
        read, own = observe_names(text)
        own = None
    return {"rc": r.rc, "read": read, "own": own, "anchor": "anchor" in text,
            "has_x": bool(re.search(r"\bhas_x\b", text)),
            "warn": "Cannot find x.h" in r.err, "stderr": r.err[-600:], "cmd": cmd, "cwd": t}


def judge_nested(c, o, e):
    bad = []
    if o["rc"] != 0:
        bad.append("exit status %s" % o["rc"])
    if not o["anchor"]:
        bad.append("the command-line file's own declarations are missing")
    exp_read = [e["read"]] if e["read"] else []
    if o["read"] != exp_read:
        bad.append("copy read by the nested include: expected %s, observed %s" % (exp_read or "none (skipped)", o["read"] or "none"))
    if o["own"] is not None:
        exp_own = [e["read"]] if e["own"] else []
        if o["own"] != exp_own:
            bad.append("exported as the user's own: expected %s, observed %s" % (exp_own or "none", o["own"] or "none"))
    if (e["read"] is None) != o["warn"]:
        bad.append("'Cannot find' warning %s" % ("missing" if e["read"] is None else "printed although the file is found"))
    if o["has_x"] != (e["read"] is not None):
        bad.append("__has_include gave %s where the same #include %s" % (int(o["has_x"]), "finds the file" if e["read"] else "finds nothing"))
    return bad


def _nested_chunk(job):
    binfo, rootdir, outdir, cases, base = job
    out = []
    for i, c in enumerate(cases):
        out.append((c, run_nested(binfo, nested_treeroot(rootdir, c), outdir, c, "n%d_%d" % (base, i))))
    return out


def nested_family(ck, b, thorough):
    rootdir = ck.scratch("nested")
    outdir = ck.scratch("nested-out")
    cases = []
    layouts = {}
    for reach in NEST_REACH:
        for dirref in (0, 1):
            for chain in NEST_CHAIN:
                L0 = nested_layout("/T", reach, dirref, chain)
                locs = L0["locs"]
                for k in range(len(locs) + 1):
                    for mask in itertools.combinations(locs, k):
                        c0 = {"reach": reach, "dirref": dirref, "chain": chain, "mask": list(mask)}
                        L = make_nested_tree(nested_treeroot(rootdir, c0), reach, dirref, chain, mask)
                        layouts[nested_treeroot(rootdir, c0)] = L
                        variants = [{}]
                        if thorough:
                            variants += [{"swap": True}, {"noangles": True}]
                        for form in "qa":
                            for v in variants:
                                for tool in ("interrogate", "parse_file"):
                                    if tool == "parse_file" and v.get("noangles"):
                                        continue
                                    c = dict(c0, fam="nested", form=form, tool=tool, **v)
                                    cases.append(c)
    chunk = 150
    jobs = [(b, rootdir, outdir, cases[i:i + chunk], i) for i in range(0, len(cases), chunk)]
    done = 0
    for j in range(0, len(jobs), 64):
        if ck.expired(reserve=30):
            ck.cap("nested: deadline after %d of %d cases" % (done, len(cases)))
            break
        for res in pmap_proc(_nested_chunk, jobs[j:j + 64]):
            for c, o in res:
                done += 1
                L = layouts[nested_treeroot(rootdir, c)]
                e = expected_nested(c, L)
                bad = judge_nested(c, o, e)
                key = nested_key(c)
                # non-trivial: the directory where the includer was found differs from the
                # working directory, and presence alone does not decide (0 or >= 2 copies)
                ck.note(key, nontrivial=L["real"] != L["t"] and len(c["mask"]) != 1,
                        outcome="nested:%s:%s" % (e["how"], "own" if e["own"] else "notown"),
                        family="nested-" + c["tool"],
                        sample={"case": c, "expected": e,
                                "observed": {k: o[k] for k in ("rc", "read", "own", "warn", "has_x")}})
                if bad:
                    def confirm(c=c, L=L, e=e):
                        return bool(judge_nested(c, run_nested(b, nested_treeroot(rootdir, c), outdir, c, "confirm"), e))
                    ck.fail(key, "; ".join(bad), {"case": c, "expected": e, "observed": "; ".join(bad), "run": o},
                            confirm=confirm)
    return len(cases)


# ----------------------------------------------------------------------------- explicit
def make_spell_tree(root, variant, hdr="x.h", hdr_dir="I1"):
    """root/t: working directory with  I1/x.h,  lnk -> I1,  I1/xl.h -> x.h,  d/e/, ds -> d/e."""
    t = os.path.join(root, "t")
    os.makedirs(os.path.join(t, "d", "e"), exist_ok=True)
    os.makedirs(os.path.join(t, "I1"), exist_ok=True)
    body = xh_text("I1", structs=False)
    if variant == "once":
        body = "#pragma once\n" + body
    elif variant == "guard":
        body = "#ifndef XH_GUARD\n#define XH_GUARD\n" + body + "#endif\n"
    write(os.path.join(t, "I1", "x.h"), body)
    os.symlink("I1", os.path.join(t, "lnk"))
    os.symlink("x.h", os.path.join(t, "I1", "xl.h"))
    os.symlink("d/e", os.path.join(t, "ds"))
    write(os.path.join(t, "mq.h"), inc_line("q") + markers(["I1"]))
    write(os.path.join(t, "ma.h"), inc_line("a") + markers(["I1"]))
    return t


def file_spellings(t):
    return [("plain", "I1/x.h"), ("dot", "./I1/x.h"), ("dslash", "I1//x.h"), ("dotdot", "d/../I1/x.h"),
            ("dirlink", "lnk/x.h"), ("filelink", "I1/xl.h"), ("abs", os.path.join(t, "I1", "x.h")),
            ("linkdotdot", "ds/../../I1/x.h")]


# Where the #include that reaches the header is resolved, and the spelling alphabet relative to
# that place.  I1 also holds  sub/  (real directory),  dl -> .  and  xl.h -> x.h .
BASE_SPELLINGS = [("plain", "x.h"), ("dot", "./x.h"), ("dotdot", "sub/../x.h"), ("dslash", ".//x.h"),
                  ("filelink", "xl.h"), ("dirlink", "dl/x.h")]
# where -> (directory option, its spelling, include form)
EXPLICIT_WHERE = {
    "cwd": None,                       # "I1/..." spelled from the working directory (file_spellings)
    "includer": None,                  # I1/inc_<spelling>.h includes it relative to its own directory
    "I": ("-I", "I1", "q"), "I-link": ("-I", "lnk", "q"),
    "Sq": ("-S", "I1", "q"), "Sq-link": ("-S", "lnk", "q"),
    "Sa": ("-S", "I1", "a"), "Sa-link": ("-S", "lnk", "a"),
}


def explicit_inc_spellings(t, where):
    if where == "cwd":
        return [(k, v) for k, v in file_spellings(t) if k != "linkdotdot"]
    sp = list(BASE_SPELLINGS)
    if where.startswith("Sa"):
        # "//" inside <...> starts a comment for this preprocessor (only "..." protects it)
        sp = [(k, v) for k, v in sp if k != "dslash"]
    return sp


def extend_spell_tree_for_explicit(t):
    os.makedirs(os.path.join(t, "I1", "sub"), exist_ok=True)
    if not os.path.lexists(os.path.join(t, "I1", "dl")):
        os.symlink(".", os.path.join(t, "I1", "dl"))
    for k, v in BASE_SPELLINGS:
        write(os.path.join(t, "I1", "inc_%s.h" % k), '#include "%s"\n' % v)


def run_explicit(b, t, outdir, c, tag):
    """interrogate [dir option] <m, X in the given order>: m.h reaches header X through an #include
    resolved at c["where"] and spelled c["inc"]; X is also named on the command line as c["cmd"]."""
    cmdsp = dict(file_spellings(t))[c["cmd"]]
    incsp = dict(explicit_inc_spellings(t, c["where"]))[c["inc"]]
    w = EXPLICIT_WHERE[c["where"]]
    opts = []
    if c["where"] == "cwd":
        line = '#include "%s"\n' % incsp
    elif c["where"] == "includer":
        line = '#include "I1/inc_%s.h"\n' % c["inc"]
    else:
        opts = [w[0], w[1]]
        line = inc_line(w[2], incsp)
    name = "m_%s.h" % tag
    text = line + markers(["I1"])
    write(os.path.join(t, name), text)
    files = [name, cmdsp] if c["order"] == "m-first" else [cmdsp, name]
    od = os.path.join(outdir, "%s.in" % tag)
    cmd = [b["interrogate"], "-od", od, "-module", "m", "-library", "l", "-v"] + opts + files
    r = tools.run(cmd, cwd=t, b=b)
    try:
        dbtext = open(od).read()
        os.unlink(od)
    except OSError:
        dbtext = ""
    os.unlink(os.path.join(t, name))
    read, own = observe_names(dbtext)
    return {"rc": r.rc, "read": read, "own": own, "stderr": r.err[-600:], "cmd": cmd, "cwd": t,
            "includer": text}


def judge_explicit(c, o):
    """The literal rule: a file named on the command line is the user's own -- however the
    command line and the #include that reaches it spell its path, wherever that #include was
    resolved, and whichever of the two comes first."""
    bad = []
    if o["rc"] != 0:
        bad.append("exit status %s" % o["rc"])
    if "Cannot find" in o["stderr"]:
        bad.append("the include was not found")
    if o["read"] != ["i1"]:
        bad.append("copy read: expected ['i1'], observed %s" % o["read"])
    if o["own"] != ["i1"]:
        bad.append("header named on the command line (as %s) and reached through an include resolved at %s "
                   "(spelled %s): expected own_i1 exported, observed %s"
                   % (c["cmd"], c["where"], c["inc"], o["own"] or "none"))
    if re.search(r"\berror\b", o["stderr"]):
        bad.append("error diagnostic")
    return bad


def explicit_key(c):
    return "explicit/%s/%s/%s/inc=%s/cmd=%s" % (c["variant"], c["order"], c["where"], c["inc"], c["cmd"])


def explicit_family(ck, b, thorough):
    outdir = ck.scratch("explicit-out")
    jobs = []
    for variant in ("plain", "once", "guard"):
        t = make_spell_tree(ck.scratch("explicit-" + variant), variant)
        extend_spell_tree_for_explicit(t)
        for order in ("m-first", "x-first"):
            for where in EXPLICIT_WHERE:
                for inc, _ in explicit_inc_spellings(t, where):
                    for cmd, _ in file_spellings(t):
                        jobs.append((t, {"fam": "explicit", "variant": variant, "order": order,
                                         "where": where, "inc": inc, "cmd": cmd}))

    def one(job):
        t, c = job
        key = explicit_key(c)
        tag = re.sub(r"[^A-Za-z0-9]+", "_", key)
        return key, t, c, run_explicit(b, t, outdir, c, tag)
    for key, t, c, o in pmap(one, jobs):
        bad = judge_explicit(c, o)
        # non-trivial: the two mentions of the file are not both the plain spelling
        ck.note(key, nontrivial=(c["inc"], c["cmd"]) != ("plain", "plain"),
                outcome="explicit:%s:%s" % (c["where"], "ok" if not bad else "bad"),
                family="explicit", sample={"case": c, "observed": {k: o[k] for k in ("rc", "read", "own")}})
        if bad:
            ck.fail(key, "; ".join(bad), {"case": c, "observed": "; ".join(bad), "run": o},
                    confirm=lambda t=t, c=c: bool(judge_explicit(c, run_explicit(b, t, outdir, c, "confirm"))))
    return len(jobs)


# ----------------------------------------------------------------------------- once-only
G_BODY = """#ifdef G_SEEN
#define G_TWICE 1
#endif
#define G_SEEN 1
struct G { int v; };
enum GE { ge_a, ge_b };
typedef int gint;
inline int gf(int a = 1) { return a; }
__begin_publish
void g_fn();
__end_publish
"""

ONCE_MARK = """__begin_publish
void anchor();
#ifdef G_SEEN
void seen();
#endif
#ifdef G_TWICE
void twice();
#endif
__end_publish
"""


def make_once_tree(root, variant):
    t = os.path.join(root, "t")
    os.makedirs(os.path.join(t, "d", "e"), exist_ok=True)
    if variant == "once":
        body = "#pragma once\n" + G_BODY
    else:
        body = "#ifndef G_H\n#define G_H\n" + G_BODY + "#endif\n"
    write(os.path.join(t, "g.h"), body)
    os.symlink("g.h", os.path.join(t, "gl.h"))
    os.symlink(".", os.path.join(t, "dl"))
    os.symlink("d/e", os.path.join(t, "ds"))
    return t


def once_spellings(t):
    return [("plain", "g.h"), ("dot", "./g.h"), ("dotdot", "d/../g.h"), ("dslash", ".//g.h"),
            ("filelink", "gl.h"), ("dirlink", "dl/g.h"), ("abs", os.path.join(t, "g.h")),
            ("linkdotdot", "ds/../../g.h")]


def run_once(b, t, outdir, c, tag):
    sp = dict(once_spellings(t))
    name = "m_%s.h" % tag
    if c["mode"] == "inc-inc":
        text = '#include "%s"\n#include "%s"\n' % (sp[c["s1"]], sp[c["s2"]]) + ONCE_MARK
        files = [name]
    elif c["mode"] == "single":
        text = '#include "%s"\n' % sp[c["s1"]] + ONCE_MARK
        files = [name]
    else:       # the header itself is named on the command line (spelling s1), then included (s2)
        text = '#include "%s"\n' % sp[c["s2"]] + ONCE_MARK
        files = [sp[c["s1"]], name] if c["mode"] == "cmd-inc" else [name, sp[c["s1"]]]
    write(os.path.join(t, name), text)
    o = {"cwd": t, "includer": text}
    if c["tool"] == "interrogate":
        od = os.path.join(outdir, "%s.in" % tag)
        cmd = [b["interrogate"], "-od", od, "-module", "m", "-library", "l", "-v"] + files
        r = tools.run(cmd, cwd=t, b=b)
        gcount = None
        names = []
        if r.rc == 0 and os.path.exists(od):
            try:
                d = tools.idb_dump(b, [od])
            except RuntimeError as e:
                raise HarnessError(str(e))
            names = sorted(f["name"] for f in d["functions"].values())
            gcount = names.count("g_fn")
        try:
            os.unlink(od)
        except OSError:
            pass
        o.update({"names": names, "g_fn": gcount})
    else:
        cmd = [b["parse_file"]] + files
        r = tools.run(cmd, cwd=t, b=b)
        names = sorted(set(re.findall(r"\b(anchor|seen|twice|g_fn)\b", r.out)))
        o.update({"names": names, "g_fn": len(re.findall(r"\bg_fn\b", r.out))})
    os.unlink(os.path.join(t, name))
    o.update({"rc": r.rc, "stderr": r.err[-800:], "cmd": cmd})
    return o


def judge_once(c, o):
    bad = []
    if o["rc"] != 0:
        bad.append("exit status %s" % o["rc"])
    if re.search(r"\berror\b|redefin|already", o["stderr"]):
        bad.append("diagnostic: " + o["stderr"].strip().splitlines()[0][:160])
    if "Cannot find" in o["stderr"]:
        bad.append("an existing spelling was not found")
    if "anchor" not in o["names"]:
        bad.append("includer's declarations missing")
    if "seen" not in o["names"]:
        bad.append("header contents never processed")
    if "twice" in o["names"]:
        bad.append("header contents processed twice")
    if o["g_fn"] != 1:
        bad.append("g_fn appears %s times (expected once)" % o["g_fn"])
    return bad


def once_family(ck, b, thorough):
    outdir = ck.scratch("once-out")
    jobs = []
    for variant in ("once", "guard"):
        t = make_once_tree(ck.scratch("once-" + variant), variant)
        allsp = [s for s, _ in once_spellings(t)]
        # the symlink-then-".." spelling is explored on its own (one include): whether such a
        # path is found at all is the question; pairing it with the others adds nothing
        sps = [s for s in allsp if s != "linkdotdot"]
        for s1 in allsp:
            for tool in ("interrogate", "parse_file"):
                jobs.append((t, {"fam": "once", "variant": variant, "mode": "single", "s1": s1,
                                 "s2": s1, "tool": tool}))
        for mode in ("inc-inc", "cmd-inc", "inc-cmd"):
            for s1 in sps:
                for s2 in sps:
                    for tool in ("interrogate", "parse_file"):
                        if tool == "parse_file" and (mode != "inc-inc" and not thorough):
                            continue
                        jobs.append((t, {"fam": "once", "variant": variant, "mode": mode, "s1": s1,
                                         "s2": s2, "tool": tool}))

    def keyof(c):
        return "once/%s/%s/%s/%s+%s" % (c["tool"], c["variant"], c["mode"], c["s1"], c["s2"])

    def one(job):
        t, c = job
        return t, c, run_once(b, t, outdir, c, keyof(c).replace("/", "_").replace("+", "_"))
    n = 0
    for t, c, o in pmap(one, jobs):
        bad = judge_once(c, o)
        key = keyof(c)
        n += 1
        ck.note(key, nontrivial=c["s1"] != c["s2"] or (c["mode"] == "single" and c["s1"] != "plain"),
                outcome="once:" + ("ok" if not bad else "bad"),
                family="once-" + c["tool"],
                sample={"case": c, "observed": {k: o[k] for k in ("rc", "names", "g_fn")}})
        if bad:
            ck.fail(key, "; ".join(bad), {"case": c, "observed": "; ".join(bad), "run": o},
                    confirm=lambda t=t, c=c: bool(judge_once(c, run_once(b, t, outdir, c, "confirm_" + c["tool"]))))
    return n


# ----------------------------------------------------------------------------- routes
# The same physical #pragma once / guarded header (a/b/g.h) reached two and three times through
# different ROUTES, whose source classes differ (local / alternate / system).
ROUTES = {                       # name -> (include line, options needed, source class)
    "cwdq":   ('#include "a/b/g.h"\n', [], "local"),
    "abs":    (None, [], "local"),                          # filled in with the absolute path
    "symdir": ('#include "lnk/g.h"\n', [], "local"),      # lnk -> a/b
    "incdir": ('#include "a/b/inc.h"\n', [], "alternate"),  # a/b/inc.h does #include "g.h"
    "I":      ('#include "b/g.h"\n', ["-I", "a"], "alternate"),
    "Sq":     ('#include "g.h"\n', ["-S", "a/b"], "system"),
    "Sa":     ('#include <g.h>\n', ["-S", "a/b"], "system"),
}
ROUTE_ORDER = ["cwdq", "incdir", "I", "Sa", "Sq", "abs", "symdir"]


def make_routes_tree(root, variant):
    t = os.path.join(root, "t")
    os.makedirs(os.path.join(t, "a", "b"), exist_ok=True)
    body = ("#pragma once\n" + G_BODY) if variant == "once" else ("#ifndef G_H\n#define G_H\n" + G_BODY + "#endif\n")
    write(os.path.join(t, "a", "b", "g.h"), body)
    write(os.path.join(t, "a", "b", "inc.h"), '#include "g.h"\n')
    os.symlink("a/b", os.path.join(t, "lnk"))
    return t


def run_routes(b, t, outdir, c, tag):
    lines, opts = [], []
    for r in c["routes"]:
        line, o, _ = ROUTES[r]
        if r == "abs":
            line = '#include "%s"\n' % os.path.join(t, "a", "b", "g.h")
        lines.append(line)
        if o and o not in [opts[i:i + 2] for i in range(0, len(opts), 2)]:
            opts += o
    name = "m_%s.h" % tag
    text = "".join(lines) + ONCE_MARK
    write(os.path.join(t, name), text)
    o = {"cwd": t, "includer": text}
    if c["tool"] == "interrogate":
        od = os.path.join(outdir, "%s.in" % tag)
        cmd = [b["interrogate"], "-od", od, "-module", "m", "-library", "l", "-v"] + opts + [name]
        r = tools.run(cmd, cwd=t, b=b)
        names, gcount = [], None
        if r.rc == 0 and os.path.exists(od):
            try:
                d = tools.idb_dump(b, [od])
            except RuntimeError as e:
                raise HarnessError(str(e))
            names = sorted(f["name"] for f in d["functions"].values())
            gcount = names.count("g_fn")
        try:
            os.unlink(od)
        except OSError:
            pass
    else:
        cmd = [b["parse_file"]] + opts + [name]
        r = tools.run(cmd, cwd=t, b=b)
        names = sorted(set(re.findall(r"\b(anchor|seen|twice|g_fn)\b", r.out)))
        gcount = len(re.findall(r"\bg_fn\b", r.out))
    os.unlink(os.path.join(t, name))
    o.update({"rc": r.rc, "stderr": r.err[-800:], "cmd": cmd, "names": names, "g_fn": gcount})
    return o


def judge_routes(c, o):
    bad = []
    if o["rc"] != 0:
        bad.append("exit status %s" % o["rc"])
    if re.search(r"\berror\b|redefin|conflicting|already", o["stderr"]):
        bad.append("diagnostic: " + o["stderr"].strip().splitlines()[0][:160])
    if "Cannot find" in o["stderr"]:
        bad.append("a route did not find the header")
    if "anchor" not in o["names"]:
        bad.append("includer's declarations missing")
    if "seen" not in o["names"]:
        bad.append("header contents never processed")
    if "twice" in o["names"]:
        bad.append("header contents processed twice")
    # which route decides ownership is not stated by the property: only "at most once" is judged
    if o["g_fn"] is not None and o["g_fn"] > 1:
        bad.append("g_fn appears %s times" % o["g_fn"])
    return bad


def routes_family(ck, b, thorough):
    outdir = ck.scratch("routes-out")
    jobs = []
    for variant in ("once", "guard"):
        t = make_routes_tree(ck.scratch("routes-" + variant), variant)
        seqs = [list(p) for p in itertools.product(ROUTE_ORDER, repeat=2)]
        seqs += [list(p) for p in itertools.product(ROUTE_ORDER, repeat=3)]
        for seq in seqs:
            for tool in ("interrogate", "parse_file"):
                jobs.append((t, {"fam": "routes", "variant": variant, "routes": seq, "tool": tool}))

    def keyof(c):
        return "routes/%s/%s/%s" % (c["tool"], c["variant"], ">".join(c["routes"]))

    def one(job):
        t, c = job
        return t, c, run_routes(b, t, outdir, c, re.sub(r"[^A-Za-z0-9]+", "_", keyof(c)))
    for t, c, o in pmap(one, jobs):
        bad = judge_routes(c, o)
        key = keyof(c)
        classes = [ROUTES[r][2] for r in c["routes"]]
        # non-trivial: the routes differ in source class
        ck.note(key, nontrivial=len(set(classes)) > 1,
                outcome="routes:%s:%s" % (">".join(x[0] for x in classes), "ok" if not bad else "bad"),
                family="routes-" + c["tool"],
                sample={"case": c, "observed": {k: o[k] for k in ("rc", "names", "g_fn")}})
        if bad:
            ck.fail(key, "; ".join(bad), {"case": c, "observed": "; ".join(bad), "run": o},
                    confirm=lambda t=t, c=c: bool(judge_routes(c, run_routes(b, t, outdir, c, "confirm_" + c["tool"]))))
    return len(jobs)


# ----------------------------------------------------------------------------- dirspell
def dir_spellings(t):
    return [("plain", "I1"), ("dot", "./I1"), ("tslash", "I1/"), ("dslash", ".//I1"), ("dotdot", "d/../I1"),
            ("dirlink", "lnk"), ("abs", os.path.join(t, "I1")), ("linkdotdot", "ds/../../I1")]


def run_dirspell(b, t, outdir, c, tag):
    sp = dict(dir_spellings(t))[c["spell"]]
    od = os.path.join(outdir, "%s.in" % tag)
    incl = "mq.h" if c["flag"] == "I" else "ma.h"
    if c["tool"] == "interrogate":
        cmd = [b["interrogate"], "-od", od, "-module", "m", "-library", "l", "-v", "-" + c["flag"], sp, incl]
        r = tools.run(cmd, cwd=t, b=b)
        try:
            text = open(od).read()
            os.unlink(od)
        except OSError:
            text = ""
    else:
        cmd = [b["parse_file"], "-" + c["flag"], sp, incl]
        r = tools.run(cmd, cwd=t, b=b)
        text = r.out
    read, own = observe_names(text)
    if c["tool"] != "interrogate":
        own = []
    return {"rc": r.rc, "read": read, "own": own, "stderr": r.err[-600:], "cmd": cmd, "cwd": t}


def judge_dirspell(c, o):
    bad = []
    if o["rc"] != 0:
        bad.append("exit status %s" % o["rc"])
    if o["read"] != ["i1"]:
        bad.append("directory spelled %s: expected x.h of I1 to be read, observed %s" % (c["spell"], o["read"] or "none"))
    if o["own"]:
        bad.append("found through -%s but exported as own" % c["flag"])
    return bad


def dirspell_family(ck, b, thorough):
    outdir = ck.scratch("dirspell-out")
    t = make_spell_tree(ck.scratch("dirspell"), "plain")
    jobs = []
    for spell, _ in dir_spellings(t):
        for flag in "IS":
            for tool in ("interrogate", "parse_file"):
                jobs.append({"fam": "dirspell", "spell": spell, "flag": flag, "tool": tool})

    def keyof(c):
        return "dirspell/%s/-%s/%s" % (c["tool"], c["flag"], c["spell"])

    def one(c):
        return c, run_dirspell(b, t, outdir, c, keyof(c).replace("/", "_"))
    for c, o in pmap(one, jobs):
        bad = judge_dirspell(c, o)
        key = keyof(c)
        ck.note(key, nontrivial=c["spell"] != "plain", outcome="dirspell:" + ("ok" if not bad else "bad"),
                family="dirspell", sample={"case": c, "observed": {k: o[k] for k in ("rc", "read", "own")}})
        if bad:
            ck.fail(key, "; ".join(bad), {"case": c, "observed": "; ".join(bad), "run": o},
                    confirm=lambda c=c: bool(judge_dirspell(c, run_dirspell(b, t, outdir, c, "confirm"))))
    return len(jobs)


# ----------------------------------------------------------------------------- normalisation
NORM_ALPHA = ["a", "b", "f", "n", ".", "..", ""]


def make_norm_tree(top):
    """top/R is the working directory of fnorm.
         R/a/{f, a/f, b -> ../../E/d}   R/f   R/b -> ../E/d
         E/{f, a/f, d/{f, a/f, b -> ../../R/a}}        (the "directory elsewhere" and its parent)
         top/{f, a/f}                                    (what R/.. leads to)
       Every f is a distinct inode, so any change of denotation changes (st_dev, st_ino)."""
    for d in ("R/a/a", "E/a", "E/d/a", "a"):
        os.makedirs(os.path.join(top, d))
    for f in ("R/f", "R/a/f", "R/a/a/f", "E/f", "E/a/f", "E/d/f", "E/d/a/f", "a/f", "f"):
        write(os.path.join(top, f), f + "\n")
    os.symlink("../E/d", os.path.join(top, "R", "b"))
    os.symlink("../../R/a", os.path.join(top, "E", "d", "b"))
    os.symlink("../../E/d", os.path.join(top, "R", "a", "b"))
    return os.path.join(top, "R")


def norm_string(comps, lead, trail, R):
    s = "/".join(comps)
    if trail:
        s += "/"
    if lead == "/":
        s = "/" + s
    elif lead == "R":
        s = R + "/" + s
    return s


def norm_space(maxlen, R):
    """all strings, shortest first, canonical order; value = (comps, lead, trail)"""
    seen = {}
    for k in range(1, maxlen + 1):
        for comps in itertools.product(NORM_ALPHA, repeat=k):
            for lead in ("", "/", "R"):
                for trail in (False, True):
                    s = norm_string(comps, lead, trail, R)
                    if s and s not in seen:
                        seen[s] = (comps, lead, trail)
    return seen


def run_fnorm(exe, R, dirs, paths, b):
    inp = "".join("D %s\n" % d for d in dirs) + "".join("P %s\n" % p for p in paths)
    r = tools.run([exe], cwd=R, input=inp, timeout=600, b=b)
    if r.rc != 0:
        return r, None
    out = {}
    for line in r.out.splitlines():
        if line.startswith("{"):
            d = json.loads(line)
            out[d["p"]] = d
    return r, out


def judge_norm(rec):
    """-> list of (fn, kind, observed) failures for one path record."""
    bad = []
    st = rec["st"]
    for fn, (r1, r2, id1) in (("standardize", rec["std"]), ("make_absolute", rec["abs"]),
                              ("make_canonical", (rec["can"][1], rec["can"][3], rec["can"][4]))):
        if r1 != r2:
            bad.append((fn, "idempotent", "%s -> %s -> %s" % (rec["p"], r1, r2)))
        if st is not None and id1 != st:
            bad.append((fn, "denotes", "%s -> %s (%s)" % (rec["p"], r1, "resolves to another file" if id1 else "does not resolve")))
    for (d, cd, cp, ok, r, idj) in rec["crel"]:
        if ok and st is not None and idj != st:
            bad.append(("make_relative_to", "denotes", "%s relative to %s -> %s" % (cp, cd, r)))
    if "cwd_changed" in rec:
        bad.append(("make_canonical", "cwd", "working directory left at %s" % rec["cwd_changed"]))
    return bad


def norm_family(ck, b, thorough):
    exe = harness.compile_cxx(b, "fnorm", libs=("dtoolutil", "dtoolbase"))
    top = ck.scratch("norm")
    R = make_norm_tree(top)
    dirs = [R, os.path.join(R, "a"), os.path.join(R, "b"), os.path.join(top, "E", "d"), top]
    maxlen = 5 if thorough else 4
    space = norm_space(maxlen, R)
    paths = list(space)
    nshard = 16
    shards = [paths[i::nshard] for i in range(nshard)]
    table = {}
    for r, out in pmap(lambda sh: run_fnorm(exe, R, dirs, sh, b), shards):
        if out is None:
            raise HarnessError("fnorm failed: %s" % r.brief())
        table.update(out)
    if len(table) != len(paths):
        raise HarnessError("fnorm answered %d of %d paths" % (len(table), len(paths)))
    failing = {}        # (fn, kind) -> {path: observed}
    unjudged_rel = 0
    for p in paths:
        rec = table[p]
        bad = judge_norm(rec)
        resolves = rec["st"] is not None
        unjudged_rel += sum(1 for x in rec["rel"] if x[1])
        ck.note("norm/" + p, nontrivial=resolves and (rec["std"][0] != p),
                outcome="norm:%s:%s" % ("resolves" if resolves else "dangling", "ok" if not bad else "bad"),
                family="norm", sample={"path": p, "record": rec})
        for fn, kind, obs in bad:
            failing.setdefault((fn, kind), {})[p] = obs
    ck.extra["norm_paths"] = len(paths)
    ck.extra["norm_resolving"] = sum(1 for p in paths if table[p]["st"] is not None)
    ck.extra["norm_unjudged_make_relative_to_on_non_canonical_input"] = unjudged_rel
    # reduce every failing string to its smallest failing relative: any subsequence of its
    # components, with the absolute prefix and the trailing slash dropped if it still fails
    # without them.  The table is closed under these operations, so no further execution is
    # needed; one report per core.
    for (fn, kind), fails in sorted(failing.items()):
        cores = {}
        for p in fails:
            comps, lead, trail = space[p]
            best = None
            n = len(comps)
            for bits in range(1, 1 << n):
                sub = [comps[i] for i in range(n) if bits >> i & 1]
                for ld in sorted({lead, ""}):
                    for tr in sorted({trail, False}):
                        s = norm_string(sub, ld, tr, R)
                        if s in fails:
                            rank = (len(sub), ld != "", tr, s)
                            if best is None or rank < best[0]:
                                best = (rank, s)
            cores.setdefault(best[1], []).append(p)
        for core in sorted(cores, key=lambda s: (len(s), s)):
            shown = core.replace(R, "$R")
            key = "norm/%s/%s/%s" % (fn, kind, shown)
            obs = fails[core].replace(top, "$T")
            members = cores[core]

            def confirm(core=core, fn=fn, kind=kind):
                r, out = run_fnorm(exe, R, dirs, [core], b)
                return out is not None and any(f == fn and k == kind for f, k, _ in judge_norm(out[core]))
            ck.fail(key, "%s: %s  [%d enumerated strings reduce to this core]" % (kind, obs, len(members)),
                    {"case": {"fam": "norm", "path": core, "fn": fn, "kind": kind}, "observed": obs,
                     "record": table[core], "reduced_from": [m.replace(R, "$R") for m in members[:50]]},
                    confirm=confirm)
    return len(paths)


# ----------------------------------------------------------------------------- replay
def replay(ck, b):
    rp = ck.load_replay()
    c = rp["detail"]["case"]
    fam = c["fam"]
    out = ck.scratch("replay-out")
    if fam == "lookup":
        locs = ["cwd", "sub", "I1", "I2", "S1", "S2"]
        root = ck.scratch("replay-tree")
        make_lookup_tree(root, locs, c["mask"])
        o = run_lookup(b, root, out, c, "replay")
        e, bad = judge_lookup(c, o)
        print("expected:", e)
    elif fam == "srcdir":
        root = ck.scratch("replay-tree")
        make_lookup_tree(root, SRCDIR_LOCS, c["mask"])
        o = run_srcdir(b, root, out, c, "replay")
        e, bad = judge_lookup(dict(srcdir_lookup_case(c), tool="interrogate"), o)
        print("expected:", e)
    elif fam == "nested":
        root = ck.scratch("replay-tree")
        L = make_nested_tree(root, c["reach"], c["dirref"], c["chain"], c["mask"])
        o = run_nested(b, root, out, c, "replay")
        e = expected_nested(c, L)
        print("expected:", e)
        bad = judge_nested(c, o, e)
    elif fam == "explicit":
        t = make_spell_tree(ck.scratch("replay-tree"), c["variant"])
        extend_spell_tree_for_explicit(t)
        o = run_explicit(b, t, out, c, "replay")
        bad = judge_explicit(c, o)
    elif fam == "routes":
        t = make_routes_tree(ck.scratch("replay-tree"), c["variant"])
        o = run_routes(b, t, out, c, "replay")
        bad = judge_routes(c, o)
    elif fam == "once":
        t = make_once_tree(ck.scratch("replay-tree"), c["variant"])
        o = run_once(b, t, out, c, "replay")
        bad = judge_once(c, o)
    elif fam == "dirspell":
        t = make_spell_tree(ck.scratch("replay-tree"), "plain")
        o = run_dirspell(b, t, out, c, "replay")
        bad = judge_dirspell(c, o)
    elif fam == "norm":
        exe = harness.compile_cxx(b, "fnorm", libs=("dtoolutil", "dtoolbase"))
        top = ck.scratch("replay-tree")
        R = make_norm_tree(top)
        # the stored path embeds the scratch directory of the original run
        p = c["path"]
        m = re.match(r"^(/.*?/norm/R)(/.*)?$", p)
        if m:
            p = R + (m.group(2) or "")
        r, res = run_fnorm(exe, R, [R, os.path.join(R, "a"), os.path.join(R, "b"),
                                    os.path.join(top, "E", "d"), top], [p], b)
        o = res[p] if res else r.brief()
        bad = [x for x in (judge_norm(res[p]) if res else [("fnorm", "failed", "")])
               if x[0] == c["fn"] and x[1] == c["kind"]]
    else:
        raise HarnessError("unknown family " + fam)
    print("case:", json.dumps(c))
    print("observed:", json.dumps(o, indent=1, default=repr)[:3000])
    print("verdict:", bad or "holds")
    ck.cleanup()
    return 1 if bad else 0


# ----------------------------------------------------------------------------- main
def main():
    ck = Check(PID, level="model_checking")
    b = build.build("rel")
    thorough = ck.tier == "thorough"
    if ck.replay:
        return replay(ck, b)
    fams = {"lookup": lookup_family, "explicit": explicit_family, "once": once_family,
            "dirspell": dirspell_family, "norm": norm_family, "nested": nested_family, "routes": routes_family, "srcdir": srcdir_family}
    counts = {}
    for name in ("norm", "explicit", "once", "routes", "dirspell", "srcdir", "nested", "lookup"):
        if ck.only and name not in ck.only:
            continue
        if ck.expired(reserve=20):
            ck.cap("family %s not started: deadline" % name)
            continue
        counts[name] = fams[name](ck, b, thorough)
    ck.extra["family_sizes"] = counts
    return ck.finish(
        rule="one case = one execution of interrogate / parse_file in a constructed directory tree "
             "(lookup, srcdir, nested, explicit, once, routes, dirspell) or one path string evaluated by fnorm (norm). "
             "Non-trivial: lookup = the number of candidate places holding a copy of x.h is not "
             "exactly one (order, not presence, decides; or nothing may be found); explicit / "
             "dirspell = a spelling other than the plain one; once = two different spellings; "
             "norm = the path resolves and standardize() changes the string",
        exhaustive=True,
        bound="lookup: 2^%d trees x all arrangements of all subsets of the -I/-S arguments x 2 forms "
              "x -noangles x %s includers%s; srcdir: -srcdir at every position in every arrangement of {-I I1, -S S1} x rel/abs x 2^5 trees x 2 forms; nested: 4 ways to reach the includer x reference with/without directory x 3 chains x all presence masks over <=5 places x 2 forms; explicit: 2 orders x 8 resolution places x 6-7 include spellings x 8 command-line spellings x 3 protections; once: all ordered pairs of 7 spellings x 3 modes x 2 protections + 8 single spellings; "
              "norm: all strings of <= %d components over 7 symbols x 3 prefixes x trailing slash"
              % (6 if thorough else 5, 3 if thorough else 2, " x -srcdir" if thorough else "",
                 5 if thorough else 4),
        assumptions=["symbolic links, '.', '..' and repeated slashes are the spellings explored; hard "
                     "links, bind mounts and case-insensitive file systems are not",
                     "'own exactly when named on the command line or found in the working directory' is "
                     "read as: being named on the command line suffices, also when an #include reaches "
                     "the same file through -S ('never through -S' speaks of files that are not named)",
                     "make_relative_to is judged only in its documented use (both paths made canonical "
                     "first); its result on non-canonical input is recorded but not judged"],
        min_nontrivial=2 if ck.only else 500)


if __name__ == "__main__":
    run_main(main)
