"""C10 -- implicit special members and class traits follow the C++ rules.

Shape S (small-scope exhaustive program enumeration, g++ as oracle).

One case = one class shape (constructor set x destructor form x scalar member x virtual
function form x bases x class-type members; lib_c10.py).  Level 0 is the full product of
the local alphabet; level d adds every class that has one (or two) bases / members taken
from the *representatives* of the earlier levels (one class per distinct compiler-side
trait vector) and at least one of depth d-1.

For every class three independent observations are made on the real binaries
   parse_file -p        is_default_constructible / is_copy_constructible / is_destructible /
                        is_abstract  (type query) and __is_polymorphic(T) (expression query)
   interrogate -promiscuous -c + idbdump
                        constructor functions / destructor recorded for the type
and compared with g++ -std=c++20:
   std::is_abstract, is_polymorphic                      must be equal
   std::is_destructible                                  must be equal
   std::is_default_constructible vs `new T()`            interrogate must equal one of the two
   std::is_copy_constructible   vs `new T(const T&)`      (they differ only through the destructor)
   database: implicit default ctor recorded  <=>  `new T()` well-formed      (no ctor declared)
             implicit copy ctor recorded     <=>  `new T(const T&)` w.-f.    (no copy ctor declared)
             destructor recorded             <=>  `delete p` well-formed     (no dtor declared)
             abstract class                  =>   no constructor recorded
"""
import itertools
import os
import re
import shutil

from vf import build, tools
from vf import lib_c10 as L
from vf.core import Check, HarnessError, pmap, run_main

PID = "C10"
CHUNK = 400
DUMP = open(os.environ["VERIF_C10_DUMP"], "w") if os.environ.get("VERIF_C10_DUMP") else None
GXX = ["g++", "-std=c++20", "-O0", "-w", "-fmax-errors=0", "-ftemplate-backtrace-limit=1"]

# ------------------------------------------------------------------ tier alphabets
TIERS = {
    "quick": dict(
        depth=2,
        ct0=["none", "def", "defprot", "defpriv", "defdflt", "defdel", "int", "intdflt", "copy",
             "copypriv", "copydel", "copydflt", "copyx", "copync", "move", "moveas", "def+copy",
             "dflt+dflt", "nc+copy", "copy+nc", "nc+copydel"],
        dt0=["none", "pub", "virt", "prot", "priv", "del", "dflt", "purev"],
        dm0=["none", "int", "cint", "ref", "init", "cinit", "refinit"],
        vf0=["none", "virt", "pure", "final", "pureconst"],
        # level >= 1, one dependency
        ct1=["none", "def", "defdflt", "int", "copydflt", "dflt+dflt"],
        dt1=["none", "pub"],
        vf1=["none", "plain", "override", "constf", "pure", "final"],
        dtx=["dflt", "virt"],
        acc1=[("public", False), ("public", True), ("protected", False), ("private", True)],
        mk1=["val", "const", "carr", "ref", "arr", "static"],
        ctm=["none", "defdflt", "copydflt"],
        # two dependencies
        ct2=["none", "defdflt"],
        vf2=["none", "plain"],
        fine=False,
    ),
    "thorough": dict(
        depth=3,
        ct0=L.CT_ORDER, dt0=L.DT_ORDER, dm0=L.DM_ORDER,
        vf0=[v for v in L.VF_ORDER if v != "override"],
        ct1=["none", "def", "defprot", "defdflt", "int", "copy", "copydflt", "dflt+dflt", "move"],
        dt1=["none", "pub"],
        vf1=["none", "plain", "override", "constf", "pure", "final", "intf", "virt", "privplain",
             "plain+g"],
        dtx=["dflt", "virt", "prot", "purev"],
        acc1=[(a, v) for a in L.ACCESS for v in (False, True)],
        mk1=L.MK_ORDER,
        ctm=["none", "def", "defdflt", "copydflt", "dflt+dflt"],
        ct2=["none", "defdflt", "def"],
        vf2=["none", "plain", "override"],
        fine=True,
    ),
}


# ------------------------------------------------------------------ evaluating a chunk
class Obs:
    """What the compiler and the tools say about one class."""
    __slots__ = ("shape", "name", "gxx", "probe", "pf", "db", "invalid", "line")

    def __init__(self, shape):
        self.shape = shape
        self.name = None
        self.gxx = None      # dict of TRAITS
        self.probe = None    # (Pd traits, Pm traits or None)
        self.pf = None       # dict from parse_file -p
        self.db = None       # dict from the database
        self.invalid = None  # compiler error text if g++ rejects the class
        self.line = None


def _write(path, text):
    with open(path, "w") as f:
        f.write(text)


def oracle_sources(todo, memo, probes):
    nm = L.Namer()
    for s in todo:
        nm.name(s)
    hdr, where = L.render_header(nm)
    src = ['#include "h.h"', L.ORACLE_PRELUDE]
    probed = set()
    if probes:
        for s in todo:
            n = nm.names[s]
            if L.model_abstract(s, memo):
                src.append("struct Pd_%s : %s {};" % (n, n))
            else:
                src.append("struct Pd_%s : %s {}; struct Pm_%s { %s m; };" % (n, n, n, n))
                probed.add(s)
    src.append("int main() {")
    for s in todo:
        n = nm.names[s]
        src.append('row<%s>("%s");' % (n, n))
        if probes:
            src.append('row<Pd_%s>("Pd_%s");' % (n, n))
            if s in probed:
                src.append('row<Pm_%s>("Pm_%s");' % (n, n))
    src.append("return 0; }")
    return nm, hdr, where, "\n".join(src) + "\n"


def blame_by_bisection(d, todo, memo, probes):
    """The oracle program does not compile and the messages name no class of the chunk:
    compile subsets until the single classes that break it are found."""
    blamed = {}
    stack = [list(todo)]
    n = 0
    while stack:
        part = stack.pop()
        n += 1
        sub = os.path.join(d, "bis%d" % n)
        os.makedirs(sub, exist_ok=True)
        nm, hdr, where, src = oracle_sources(part, memo, probes)
        _write(os.path.join(sub, "h.h"), hdr)
        _write(os.path.join(sub, "o.cpp"), src)
        r = tools.run(GXX + ["-fsyntax-only", "o.cpp"], cwd=sub, timeout=600)
        shutil.rmtree(sub, ignore_errors=True)
        if r.rc == 0:
            continue
        if len(part) == 1:
            m = re.search(r"error: (.*)", r.err)
            blamed[part[0]] = "oracle program: " + (m.group(1) if m else "?")
        else:
            mid = len(part) // 2
            stack.append(part[:mid])
            stack.append(part[mid:])
    return blamed


def run_oracle(d, shapes, memo, probes=True):
    """Compile+run the oracle program for the shapes; classes g++ rejects are removed and
    reported.  Returns (namer, header_text, {shape: gxx}, {shape: probes}, {shape: error})."""
    invalid = {}
    todo = list(shapes)
    for attempt in range(8):
        nm, hdr, where, src = oracle_sources(todo, memo, probes)
        targets = set(todo)
        _write(os.path.join(d, "h.h"), hdr)
        _write(os.path.join(d, "o.cpp"), src)
        r = tools.run(GXX + ["o.cpp", "-o", "o"], cwd=d, timeout=600)
        if r.rc == 0:
            break
        bad = {}
        for m in re.finditer(r"^h\.h:(\d+):\d+: error: (.*)$", r.err, re.M):
            s = where.get(int(m.group(1)))
            if s is not None:
                bad.setdefault(s, m.group(2))
        # errors located in an earlier (already accepted) class are explanations that follow
        # the error of the class under test ("implicitly deleted because ...")
        bad = {s: why for s, why in bad.items() if s in targets}
        if not bad:
            # errors only in the oracle program: attribute through the class name
            for m in re.finditer(r"^o\.cpp:\d+:\d+: error: (.*)$", r.err, re.M):
                mm = re.search(r"\b(?:Pd_|Pm_)?(K\d+)\b", m.group(1))
                if mm:
                    for s in todo:
                        if nm.names[s] == mm.group(1):
                            bad.setdefault(s, "probe: " + m.group(1))
                            break
        if not bad:
            bad = blame_by_bisection(d, todo, memo, probes)
        if not bad:
            raise HarnessError("g++ failed on the oracle program and no class could be blamed:\n"
                               + r.err[-3000:])
        invalid.update(bad)
        todo = [s for s in todo if s not in bad]
        if not todo:
            return L.Namer(), "", {}, {}, invalid
    else:
        raise HarnessError("oracle program still does not compile after 8 filter rounds")
    rr = tools.run([os.path.join(d, "o")], cwd=d, timeout=120)
    if rr.rc != 0:
        raise HarnessError("oracle program failed: %s" % rr.brief())
    rows = L.parse_oracle(rr.out)
    gxx, prb = {}, {}
    for s in todo:
        n = nm.names[s]
        gxx[s] = rows[n]
        if probes:
            prb[s] = (rows["Pd_" + n], rows.get("Pm_" + n))
    return nm, hdr, gxx, prb, invalid


PROMPT = "Enter an expression or type name:\n"
_PF_FIELDS = ("is_default_constructible", "is_copy_constructible", "is_destructible", "is_abstract")


def subset_header(nm, shapes):
    """Header text holding the given classes and everything they depend on, with the names
    the namer gave them."""
    need = set()

    def visit(s):
        if s in need:
            return
        need.add(s)
        for _, _, x in s[4]:
            visit(x)
        for _, x in s[5]:
            visit(x)
    for s in shapes:
        visit(s)
    return L.render_header(nm, [s for s in nm.order if s in need])[0]


def bisect(fn, nm, shapes, first_header="h.h"):
    """fn(header_file, shapes) -> dict name->result, or an error string if the tool failed on
    the file as a whole.  A failing file is split until the single classes that make the tool
    fail are isolated, so one class cannot poison the verdict on its neighbours."""
    res = {}
    stack = [(list(shapes), first_header)]
    n = [0]
    while stack:
        part, hf = stack.pop()
        r = fn(hf, part)
        if isinstance(r, dict):
            res.update(r)
        elif len(part) == 1:
            res[nm.names[part[0]]] = r
        else:
            mid = len(part) // 2
            for half in (part[mid:], part[:mid]):
                n[0] += 1
                hf2 = "b%d.h" % n[0]
                _write(os.path.join(fn.dir, hf2), subset_header(nm, half))
                stack.append((half, hf2))
    return res


def run_parse_file(b, d, nm, shapes):
    """parse_file -p; two queries per class.  Returns {name: dict or error string}."""
    def one(hf, part):
        names = [nm.names[s] for s in part]
        queries = []
        for n in names:
            queries.append(n)
            queries.append("__is_polymorphic(%s)" % n)
        r = tools.parse_file(b, ["-p", hf], cwd=d, input="\n".join(queries) + "\n", timeout=300)
        if r.rc != 0 or r.timeout:
            return "parse_file -p failed: rc=%s %s" % (r.rc, _errtail(r.err))
        res = {}
        seg = r.out.split(PROMPT)
        # seg[0] is what precedes the first prompt; seg[i] answers query i-1
        if len(seg) < len(queries) + 1:
            raise HarnessError("parse_file -p: %d answers for %d queries" % (len(seg) - 1, len(queries)))
        for i, n in enumerate(names):
            a, p = seg[1 + 2 * i], seg[2 + 2 * i]
            out = {}
            m = re.search(r"^Type: (.*)$", a, re.M)
            if not m or m.group(1).strip() != n:
                res[n] = "type query answered: " + a.strip()[:120].replace("\n", " | ")
                continue
            ok = True
            for f in _PF_FIELDS:
                mm = re.search(r"^%s = (\d+)$" % f, a, re.M)
                if not mm:
                    ok = False
                    break
                out[f] = mm.group(1) != "0"
            mm = re.search(r"^value is (\S+)$", p, re.M)
            if not ok or not mm or ("__is_polymorphic" not in p):
                res[n] = "unparseable answer: " + (a + p).strip()[:160].replace("\n", " | ")
                continue
            out["is_polymorphic"] = mm.group(1) != "0"
            res[n] = out
        return res
    one.dir = d
    return bisect(one, nm, shapes)


def _errtail(err):
    """Last lines of a tool's stderr with the generated class names made anonymous (so the
    text is the same whichever file the class was batched into)."""
    lines = [l for l in err.strip().splitlines() if l.strip()]
    t = " | ".join(lines[-2:])
    return re.sub(r"\bK\d+\b", "K", t)[-200:]


def run_interrogate(b, d, nm, shapes):
    """interrogate -promiscuous; returns {name: dict or error string}."""
    cnt = itertools.count()

    def one(hf, part):
        names = [nm.names[s] for s in part]
        i = next(cnt)
        od, oc = "o%d.in" % i, "o%d.cxx" % i
        r = tools.interrogate(b, ["-promiscuous", "-c", "-fnames", "-od", od, "-oc", oc,
                                  "-module", "m", "-library", "l", hf], cwd=d, timeout=300)
        if r.rc != 0 or r.timeout or not os.path.exists(os.path.join(d, od)):
            return "interrogate failed: rc=%s %s" % (r.rc, _errtail(r.err))
        dump = tools.idb_dump(b, [os.path.join(d, od)], cwd=d)
        types = {}
        for idx, t in dump["types"].items():
            if t["scoped_name"] == t["name"] and re.fullmatch(r"K\d+", t["name"]) \
                    and t["flags"] & 0x2000:      # F_fully_defined
                types.setdefault(t["name"], t)
        funcs = dump["functions"]
        res = {}
        for n in names:
            t = types.get(n)
            if t is None:
                res[n] = "class is not in the database"
                continue
            protos = []
            for fi in t["constructors"]:
                f = funcs.get(str(fi))
                if f is None:
                    protos.append("<dangling function %s>" % fi)
                else:
                    protos += [p.strip() for p in f["prototype"].split("\n") if p.strip()]
            res[n] = {
                "ctors": [re.sub(r"\b%s\b" % n, "K", p) for p in protos],
                "default": any(re.search(r"\b%s::%s\(void\)" % (n, n), p) for p in protos),
                "copy": any(re.search(r"\b%s::%s\(%s const &\)" % (n, n, n), p) for p in protos),
                "any_ctor": bool(t["constructors"]),
                "dtor": t["destructor"] != 0,
            }
        return res
    one.dir = d
    return bisect(one, nm, shapes)


def evaluate(b, d, shapes, memo, probes=True):
    """Run oracle and tools on one chunk in directory d; returns list of Obs."""
    os.makedirs(d, exist_ok=True)
    nm, hdr, gxx, prb, invalid = run_oracle(d, shapes, memo, probes)
    obs = []
    valid = [s for s in shapes if s in gxx]
    pf = run_parse_file(b, d, nm, valid) if valid else {}
    db = run_interrogate(b, d, nm, valid) if valid else {}
    for s in shapes:
        o = Obs(s)
        if s in invalid:
            o.invalid = invalid[s]
        else:
            o.name = nm.names[s]
            o.gxx = gxx[s]
            o.probe = prb.get(s)
            o.pf = pf[o.name]
            o.db = db[o.name]
        obs.append(o)
    return obs, hdr


def judge(o):
    """List of mismatch strings (empty = the class is judged correctly)."""
    g = o.gxx
    bad = []
    ct, dt = o.shape[0], o.shape[1]
    if isinstance(o.pf, str):
        bad.append("parse_file: " + o.pf)
    else:
        p = o.pf
        if p["is_abstract"] != g["abstract"]:
            bad.append("is_abstract=%d compiler=%d" % (p["is_abstract"], g["abstract"]))
        if p["is_polymorphic"] != g["polymorphic"]:
            bad.append("is_polymorphic=%d compiler=%d" % (p["is_polymorphic"], g["polymorphic"]))
        if p["is_destructible"] != g["std_destructible"]:
            bad.append("is_destructible=%d compiler=%d" % (p["is_destructible"], g["std_destructible"]))
        if p["is_default_constructible"] not in (g["std_default"], g["new_default"]):
            bad.append("is_default_constructible=%d compiler=%d" % (p["is_default_constructible"],
                                                                    g["std_default"]))
        if p["is_copy_constructible"] not in (g["std_copy"], g["new_copy"]):
            bad.append("is_copy_constructible=%d compiler=%d" % (p["is_copy_constructible"],
                                                                 g["std_copy"]))
    if isinstance(o.db, str):
        bad.append("database: " + o.db)
    else:
        q = o.db
        # the property ties the exported implicit members to "the compiler's judgement"; where
        # the trait and the expression differ (only possible through the destructor) the text
        # does not say which one is meant: either is accepted (counted as dtor-ambiguous)
        if ct not in L.CT_DECLARES_CTOR and q["default"] not in (g["new_default"], g["std_default"]):
            bad.append("db implicit default ctor=%d new T()=%d" % (q["default"], g["new_default"]))
        if ct not in L.CT_DECLARES_COPY and q["copy"] not in (g["new_copy"], g["std_copy"]):
            bad.append("db implicit copy ctor=%d new T(const T&)=%d" % (q["copy"], g["new_copy"]))
        if dt == "none" and q["dtor"] != g["delete"]:
            bad.append("db implicit destructor=%d delete p=%d" % (q["dtor"], g["delete"]))
        if g["abstract"] and q["any_ctor"]:
            bad.append("db records a constructor for an abstract class")
    return bad


def bits(t):
    return "".join("1" if t[k] else "0" for k in L.TRAITS) if t else "-"


def rep_key(o, memo, fine):
    """Key under which a class may become a representative: everything the compiler says
    about it seen from outside, from a derived class and from an enclosing class, plus the
    virtual functions it hands down (needed to build well-formed overriders)."""
    vt = tuple(sorted(L.vtable(o.shape, memo).items()))
    k = (bits(o.gxx), bits(o.probe[0]), bits(o.probe[1]), vt)
    if fine:
        k += (o.shape[0] != "none", o.shape[1] != "none")
    return k


def coarse_key(o):
    return (bits(o.gxx), bits(o.probe[0]), bits(o.probe[1]))


# ------------------------------------------------------------------ the space
def level0(cfg):
    for ct in cfg["ct0"]:
        for dt in cfg["dt0"]:
            for dm in cfg["dm0"]:
                for vf in cfg["vf0"]:
                    yield (ct, dt, dm, vf, (), ())


def level_single(cfg, reps, memo):
    """Classes with exactly one dependency, a representative R."""
    for R in reps:
        # as a base: (constructor x destructor x virtuals) for a public base ...
        for acc, virt in cfg["acc1"]:
            bases = ((acc, virt, R),)
            if (acc, virt) == cfg["acc1"][0]:
                for ct in cfg["ct1"]:
                    for dt in cfg["dt1"]:
                        for vf in cfg["vf1"]:
                            if L.vf_valid(vf, bases, memo):
                                yield (ct, dt, "none", vf, bases, ())
                for dt in cfg["dtx"]:
                    yield ("none", dt, "none", "none", bases, ())
                for dm in ("cint", "ref"):
                    for ct in ("none", "defdflt"):
                        yield (ct, "none", dm, "none", bases, ())
            else:
                # ... and the other access / virtual-base forms with a reduced local part
                for ct in cfg["ct2"]:
                    for vf in cfg["vf2"]:
                        if L.vf_valid(vf, bases, memo):
                            yield (ct, "none", "none", vf, bases, ())
        # as a member (an abstract class can only be referred to)
        for mk in cfg["mk1"]:
            if mk not in ("ref", "ptr") and L.model_abstract(R, memo):
                continue
            for ct in cfg["ctm"]:
                for dt in cfg["dt1"]:
                    yield (ct, dt, "none", "none", (), ((mk, R),))


def level_pairs(cfg, new, old, memo):
    """Classes with two dependencies: (R1, R2), R1 among the representatives that are new
    at the previous level, R2 any representative."""
    for R1 in new:
        for R2 in old:
            if R1 == R2:
                continue
            for ct in cfg["ct2"]:
                bases = (("public", False, R1), ("public", False, R2))
                for vf in cfg["vf2"]:
                    if L.vf_valid(vf, bases, memo):
                        yield (ct, "none", "none", vf, bases, ())
                a1, a2 = L.model_abstract(R1, memo), L.model_abstract(R2, memo)
                if not a2:
                    yield (ct, "none", "none", "none", (("public", False, R1),), (("val", R2),))
                if not a1:
                    yield (ct, "none", "none", "none", (("public", True, R2),), (("val", R1),))
                if not a1 and not a2:
                    yield (ct, "none", "none", "none", (), (("val", R1), ("val", R2)))


def vchain_shapes():
    """Three-level hierarchies G <- M <- D in which a deficiency of the top class G is hidden
    by the middle class M (user-provided constructors, abstractness, protected constructors),
    every edge virtual or not; and diamonds with G on top reached through two virtual paths
    and one non-virtual path.  Returned in dependency order (G, M, D), without duplicates."""
    G = [("none", "none", "none", "none"),            # fine
         ("int", "none", "none", "none"),             # no default constructor
         ("def+copydel", "none", "none", "none"),     # deleted copy constructor
         ("int+copydel", "none", "none", "none"),     # neither
         ("none", "priv", "none", "none"),            # private destructor
         ("none", "prot", "none", "none"),            # protected destructor
         ("defprot+copyprot", "none", "none", "none")]   # protected constructors
    M = [("none", "none", "none", "none"),            # plain
         ("def+copy", "none", "none", "none"),        # user-provided default + copy constructor
         ("none", "none", "none", "pure"),            # abstract
         ("defprot+copyprot", "none", "none", "none")]
    D = [("none", "none", "none", "none"),
         ("none", "none", "none", "plain"),           # overrides the pure function, if any
         ("dflt+dflt", "none", "none", "plain")]
    out, seen = [], set()

    def add(s):
        if s not in seen:
            seen.add(s)
            out.append(s)

    def cls(local, bases=()):
        ct, dt, dm, vf = local
        return (ct, dt, dm, vf, tuple(bases), ())
    for g in G:
        gs = cls(g)
        add(gs)
        for m in M:
            for v1 in (False, True):
                ms = cls(m, [("public", v1, gs)])
                add(ms)
                for d in D:
                    for v2 in (False, True):
                        add(cls(d, [("public", v2, ms)]))
            # diamonds: M1, M2 inherit G virtually, M3 non-virtually
            m1 = cls(m, [("public", True, gs)])
            m2 = cls((m[0], m[1], "int", m[3]), [("public", True, gs)])
            m3 = cls((m[0], m[1], "init", m[3]), [("public", False, gs)])
            for x in (m1, m2, m3):
                add(x)
            for d in D:
                for v in (False, True):
                    add(cls(d, [("public", v, m1), ("public", False, m2)]))
                    add(cls(d, [("public", v, m1), ("public", False, m2), ("public", False, m3)]))
                    add(cls(d, [("public", v, m1), ("public", False, m3)]))
    return out


def copyset_shapes():
    """Classes that declare TWO copy/move constructor forms (both declaration orders), alone
    and as base (non-virtual / virtual), member, const member and array member of a class
    whose own copy constructor is implicit or defaulted."""
    out, seen = [], set()

    def add(s):
        if s not in seen:
            seen.add(s)
            out.append(s)
    for ct in L.COPY_SETS:
        for dt in ("none", "pub", "prot"):
            for dm in ("none", "cint"):
                add((ct, dt, dm, "none", (), ()))
        R = (ct, "none", "none", "none", (), ())
        for dct in ("none", "copydflt", "dflt+dflt", "def"):
            for virt in (False, True):
                add((dct, "none", "none", "none", (("public", virt, R),), ()))
            for mk in ("val", "const", "arr", "ref"):
                add((dct, "none", "none", "none", (), ((mk, R),)))
            # one level further: through a plain intermediate class
            M = ("none", "none", "none", "none", (("public", False, R),), ())
            add(M)
            add((dct, "none", "none", "none", (("public", True, M),), ()))
            add((dct, "none", "none", "none", (), (("arr", M),)))
    return out


def constmember_shapes():
    """Const (array) members of class type: whether the holder's implicit default constructor
    exists depends on whether the member class K is const-default-constructible, i.e. on the
    form of K's default constructor (implicit, `= default`, user-provided) and on whether K, a
    base of K or a member of K leaves a scalar uninitialised."""
    out, seen = [], set()

    def add(s):
        if s not in seen:
            seen.add(s)
            out.append(s)
    Ks = []
    for ct in ("none", "defdflt", "def", "dflt+dflt", "intdflt", "def+copy"):
        for dm in ("none", "int", "init", "arr", "cinit", "static", "privint"):
            Ks.append((ct, "none", dm, "none", (), ()))
    # the uninitialised scalar sits in a base or in a member of K
    U = ("none", "none", "int", "none", (), ())
    I = ("none", "none", "init", "none", (), ())
    for ct in ("none", "defdflt", "def"):
        for inner in (U, I):
            Ks.append((ct, "none", "none", "none", (("public", False, inner),), ()))
            Ks.append((ct, "none", "none", "none", (("public", True, inner),), ()))
            Ks.append((ct, "none", "none", "none", (), (("val", inner),)))
            Ks.append((ct, "none", "none", "none", (), (("arr", inner),)))
    for K in Ks:
        add(K)
        for hct in ("none", "defdflt", "def"):
            for mk in ("const", "carr", "val", "arr"):
                H = (hct, "none", "none", "none", (), ((mk, K),))
                add(H)
                if hct == "none" and mk in ("const", "carr"):
                    # everything deriving from / containing the holder
                    add(("none", "none", "none", "none", (("public", False, H),), ()))
                    add(("defdflt", "none", "none", "none", (("public", True, H),), ()))
                    add(("none", "none", "none", "none", (), (("val", H),)))
                    add(("none", "none", "none", "none", (), (("carr", H),)))
    return out


# ------------------------------------------------------------------ driver
def detail_of(o, hdr=None):
    return {"shape": L.key(o.shape), "compiler": dict(o.gxx) if o.gxx else None,
            "parse_file": o.pf, "database": o.db, "observed": "; ".join(judge(o)),
            "header": hdr}


def closure_header(shape):
    nm = L.Namer()
    nm.name(shape)
    return L.render_header(nm)[0]


def main():
    ck = Check(PID)
    b = build.build("rel")
    cfg = TIERS[ck.tier]
    memo = {}
    if ck.replay:
        return replay(ck, b, memo)

    ck.scratch()            # create before worker threads ask for sub-directories
    counter = itertools.count()
    reported = [0]
    MAXREP = 30
    filtered = {}
    ambiguous = [0]
    model_disagree = []

    def run_chunk(shapes):
        d = ck.scratch("c%d" % next(counter))
        obs, hdr = evaluate(b, d, shapes, memo)
        if not ck.keep:
            shutil.rmtree(d, ignore_errors=True)
        return obs

    def confirm_one(shape, expect):
        def f():
            d = ck.scratch("confirm%d" % next(counter))
            obs, _ = evaluate(b, d, [shape], {}, probes=False)
            shutil.rmtree(d, ignore_errors=True)
            o = obs[0]
            return o.invalid is None and "; ".join(judge(o)) == expect
        return f

    def process(level, shapes):
        """Evaluate all shapes of one level; returns the list of Obs of valid classes."""
        shapes = list(shapes)
        chunks = [shapes[i:i + CHUNK] for i in range(0, len(shapes), CHUNK)]
        out = []
        for group in (chunks[i:i + 32] for i in range(0, len(chunks), 32)):
            if ck.expired(reserve=30):
                return None
            for obs in pmap(run_chunk, group):
                for o in obs:
                    k = L.key(o.shape)
                    if o.invalid is not None:
                        why = re.sub(r"K\d+", "K", o.invalid)[:60]
                        filtered[why] = filtered.get(why, 0) + 1
                        continue
                    if L.model_abstract(o.shape, memo) != o.gxx["abstract"]:
                        model_disagree.append(k)
                    bad = judge(o)
                    g = o.gxx
                    if bad and DUMP:
                        with ck.lock:
                            DUMP.write("%s\t%s\n" % (k, "; ".join(bad)))
                    amb = g["std_default"] != g["new_default"] or g["std_copy"] != g["new_copy"]
                    if amb:
                        ambiguous[0] += 1
                    outcome = bits(g) + ("/ok" if not bad else "/MISMATCH")
                    # non-trivial: the class is not the trivial all-true aggregate and at
                    # least one special member is implicit (something had to be decided)
                    nontrivial = (bits(g) != "00111111") and \
                        (o.shape[0] not in L.CT_DECLARES_COPY or o.shape[1] == "none")
                    fam = level if isinstance(level, str) else "depth%d" % level
                    ck.note(k, nontrivial=nontrivial, outcome=outcome, family=fam,
                            sample={"class": L.render_class(o.shape, "K", _SelfNamer(o.shape)),
                                    "compiler": bits(g),
                                    "parse_file": o.pf, "database": o.db})
                    if bad:
                        det = detail_of(o, closure_header(o.shape))
                        if ck._match_known(k, det) is not None:
                            ck.fail(k, "; ".join(bad), det)
                        elif reported[0] < MAXREP:
                            reported[0] += 1
                            ck.fail(k, "; ".join(bad), det, confirm=confirm_one(o.shape, det["observed"]))
                        else:
                            reported[0] += 1
                    out.append(o)
        return out

    # hand-shaped family: virtual-on-virtual chains and diamonds over a deficient top class
    vshapes = vchain_shapes()
    vobs = process("vchain", vshapes)
    if vobs is None:
        ck.cap("deadline during the vchain family")
    else:
        ck.extra["vchain"] = {"classes": len(vshapes), "valid": len(vobs)}
        print("vchain: %d classes, %d valid, %.0fs" % (len(vshapes), len(vobs), ck.elapsed()), flush=True)

    cshapes = copyset_shapes()
    cobs = process("copyset", cshapes)
    if cobs is None:
        ck.cap("deadline during the copyset family")
    else:
        ck.extra["copyset"] = {"classes": len(cshapes), "valid": len(cobs)}
        print("copyset: %d classes, %d valid, %.0fs" % (len(cshapes), len(cobs), ck.elapsed()), flush=True)

    kshapes = constmember_shapes()
    kobs = process("constmember", kshapes)
    if kobs is None:
        ck.cap("deadline during the constmember family")
    else:
        ck.extra["constmember"] = {"classes": len(kshapes), "valid": len(kobs)}
        print("constmember: %d classes, %d valid, %.0fs" % (len(kshapes), len(kobs), ck.elapsed()), flush=True)

    reps = {}       # rep key -> shape (first in canonical order)
    coarse = {}
    completed = None
    all_new, all_newc = [], []
    for level in range(0, cfg["depth"] + 1):
        if ck.only and "levels" not in ck.only:
            completed = "vchain only"
            break
        if level == 0:
            shapes = list(level0(cfg))
        else:
            shapes = list(level_single(cfg, all_new, memo))
            older = [s for s in coarse.values()]
            shapes += list(level_pairs(cfg, all_newc, older, memo))
            # a class may be generated twice (pairs are symmetric in places): keep the first
            seen, uniq = set(), []
            for s in shapes:
                if s not in seen and L.depth(s) == level:
                    seen.add(s)
                    uniq.append(s)
            shapes = uniq
        if not shapes:
            break
        obs = process(level, shapes)
        if obs is None:
            ck.cap("deadline during depth %d (%d classes)" % (level, len(shapes)))
            break
        completed = level
        all_new, all_newc = [], []
        for o in obs:
            if o.probe is None:
                continue
            rk = rep_key(o, memo, cfg["fine"])
            if rk not in reps:
                reps[rk] = o.shape
                all_new.append(o.shape)
            ckey = coarse_key(o)
            if ckey not in coarse:
                coarse[ckey] = o.shape
                all_newc.append(o.shape)
        ck.extra.setdefault("levels", []).append(
            {"depth": level, "classes": len(shapes), "valid": len(obs),
             "new_representatives": len(all_new), "new_coarse_representatives": len(all_newc)})
        print("depth %d: %d classes, %d valid, %d new representatives (%d coarse), %.0fs"
              % (level, len(shapes), len(obs), len(all_new), len(all_newc), ck.elapsed()), flush=True)

    if model_disagree:
        raise HarnessError("generator's vtable model disagrees with std::is_abstract on %d classes, "
                           "e.g. %s" % (len(model_disagree), model_disagree[0]))
    if reported[0] > MAXREP:
        ck.cap("%d mismatching classes, only the first %d (canonical order) were confirmed and "
               "reported" % (reported[0], MAXREP))
        print("NOTE: %d mismatching classes in total" % reported[0], flush=True)
    ck.extra["filtered_invalid"] = filtered
    ck.extra["mismatching_classes"] = reported[0]
    ck.extra["dtor_ambiguous_classes"] = ambiguous[0]
    return ck.finish(
        rule="one case = one class shape, executed through parse_file -p and interrogate+idbdump and "
             "through g++ -std=c++20; non-trivial = the compiler's trait vector differs from the "
             "all-true vector of a plain aggregate and at least one special member is implicit",
        exhaustive=True,
        bound="depth<=%s of %d; level-0 product %dx%dx%dx%d" %
              (completed, cfg["depth"], len(cfg["ct0"]), len(cfg["dt0"]), len(cfg["dm0"]), len(cfg["vf0"])),
        assumptions=["classes g++ rejects (listed under filtered_invalid) are outside the property",
                     "bases/members of deeper classes are representatives: one earlier class per distinct "
                     "compiler trait vector (own, seen from a derived class, seen from an enclosing class) "
                     "and set of inherited virtual functions"],
        min_nontrivial=50)


class _SelfNamer:
    """Namer stub for samples: dependencies are shown by their keys."""

    def __init__(self, shape):
        self.names = _KeyNames()


class _KeyNames(dict):
    def __missing__(self, shape):
        return "<" + L.key(shape) + ">"


def replay(ck, b, memo):
    rp = ck.load_replay()
    shape = L.parse_key(rp["key"])
    d = ck.scratch("replay")
    obs, hdr = evaluate(b, d, [shape], memo, probes=False)
    o = obs[0]
    print(hdr)
    if o.invalid is not None:
        print("g++ rejects the class:", o.invalid)
        ck.cleanup()
        return 2
    print("class under test:", o.name)
    print("compiler  :", o.gxx)
    print("parse_file:", o.pf)
    print("database  :", o.db)
    bad = judge(o)
    print("mismatches:", bad or "none")
    ck.cleanup()
    return 1 if bad else 0


if __name__ == "__main__":
    run_main(main)
