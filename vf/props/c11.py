"""C11 -- the database and the generated code agree; the database is referentially closed.

Shape S: headers built from atoms (vf/lib_c03.py) x {-c,-python,-python-native} x every
subset of {-fnames,-fptrs,-true-names,-unique-names,-string,-promiscuous} the tool
accepts.  Three oracles, all driven by the database *file as written* (parsed by
vf/lib_c11.py, not by the library, because loading renumbers):

  closure     every index-valued field of every record names a record of the expected
              kind; one index space; wrapper indices are exactly 1..n; back-links
              (wrapper<->function, type->methods/constructors/casts/destructor->class,
              nested types, up/down-casts, make_seq getters) consistent; unique names
              distinct identifiers; after loading (idbdump) the enumeration vectors hold
              only live indices, once each.
  agreement   (-c) a translation unit that re-declares every callable wrapper as
              `extern "C" R name(P...)` with R and P spelled ONLY from the type records,
              then includes the generated code, then asserts
              is_same<decltype(&name), R(*)(P...)> for every wrapper in the database;
              compiled to an object whose symbol table must define each name once.
              (-python) the same with PyObject*(PyObject*,PyObject*).
  ffi         (-c -fnames) the code is linked into a .so and a ctypes client that takes
              symbol names, argument and result types from the database alone calls
              wrappers of each atom and compares with what the C++ bodies compute.

The atom set is chosen so that every index-valued field is non-zero somewhere; the
per-field counts are measured and a field that stays zero is a harness error.
"""
import ctypes
import itertools
import json
import os
import re
import shutil
import subprocess
import sys

from vf import build, lib_c03 as L, lib_c11 as D, pynative, tools
from vf.core import Check, HarnessError, pmap, run_main

PID = "C11"
FLAGS = ("fnames", "fptrs", "true-names", "unique-names", "string", "promiscuous")
BACKENDS = ("c", "python", "python-native")


def configs():
    out = []
    for be in BACKENDS:
        for r in range(len(FLAGS) + 1):
            for fl in itertools.combinations(FLAGS, r):
                out.append((be,) + fl)
    out.sort(key=lambda c: (len(c), BACKENDS.index(c[0]), [FLAGS.index(f) for f in c[1:]]))
    return out


def ckey(c):
    return "+".join(c)


def rejected(c):
    return "fnames" in c and "true-names" in c


def atoms_for(names, c):
    return [n for n in names if L.ATOM_BY_NAME[n].needs <= set(c)]


# --------------------------------------------------------------------------- a case
class Run:
    def __init__(self, b, root, names, c, tag, header=None):
        self.b, self.c = b, c
        self.header = header
        self.names = atoms_for(names, c) if header is None else list(names)
        self.dir = os.path.join(root, tag)
        self.oc = os.path.join(self.dir, "l_igate.cxx")
        self.od = os.path.join(self.dir, "l.in")

    def go(self):
        os.makedirs(self.dir, exist_ok=True)
        with open(os.path.join(self.dir, "h.h"), "w") as f:
            f.write(L.header_text(self.names) if self.header is None else self.header)
        with open(os.path.join(self.dir, "defs.cxx"), "w") as f:
            f.write(L.defs_text(self.names) if self.header is None else '#include "h.h"\n')
        args = ["-oc", self.oc, "-od", self.od, "-module", "m", "-library", "l",
                "-S" + os.path.join(self.b["repo"], "parser-inc"), "-D__cplusplus"] \
            + ["-" + x for x in self.c] + ["h.h"]
        self.r = tools.interrogate(self.b, args, cwd=self.dir, timeout=120)
        return self.r

    def cleanup(self):
        shutil.rmtree(self.dir, ignore_errors=True)


def closure_case(b, root, names, c, tag, keep=False, header=None):
    """-> dict(status, problems, cov, counts)"""
    run = Run(b, root, names, c, tag, header=header)
    res = {"cfg": ckey(c), "atoms": run.names, "status": "ok", "problems": [], "cov": {},
           "records": 0}
    if not run.names:
        res["status"] = "empty"
        return res, run
    r = run.go()
    res["cmd"] = " ".join(r.cmd)
    if r.rc != 0:
        res["status"] = "rejected" if rejected(c) else "noexit0"
        res["stderr"] = r.err[-400:]
        run.cleanup()
        return res, run
    try:
        raw = open(run.od, "rb").read()
        db = D.parse_in(raw)
    except (OSError, D.FormatError) as e:
        res.update(status="unreadable", problems=["database file unreadable: %s" % e])
        return res, run
    run.db = db
    # after load: enumeration vectors
    ev = None
    try:
        d = tools.idb_dump(b, [run.od], cwd=run.dir)
        dd = D.from_dump(d)
        ev = {k: d[k] for k in ("global_types", "all_types", "global_functions", "all_functions",
                                "global_manifests", "global_elements")}
        ev["db"] = dd
        if d.get("error"):
            res["problems"].append("the library sets its error flag when loading the file")
        res["loaded_equal"] = _same_indices(db, dd)
    except RuntimeError as e:
        res["problems"].append("the library cannot load the file: %s" % str(e)[:200])
    probs, cov = D.closure_problems(db, ev)
    res["problems"] += probs
    res["cov"] = cov
    res["records"] = sum(len(db[k]) for k in D.KIND_MAP.values())
    res["wrappers"] = len(db["wrappers"])
    if res["problems"]:
        res["status"] = "closure"
    elif not keep:
        run.cleanup()
    return res, run


def _same_indices(db, dd):
    """Cross-check of the independent reader against the library: when the file is already
    in canonical order a load must reproduce every index field."""
    a = sorted((sk, si, f, v) for sk, si, f, _t, v in D.iter_refs(db))
    bb = sorted((sk, si, f, v) for sk, si, f, _t, v in D.iter_refs(dd))
    return a == bb


# ------------------------------------------------- which ParameterRemap classes were used
# One witness per concrete ParameterRemap subclass of src/interrogate/parameterRemap*.cxx:
# (class, atom, options required, function, number of wrapper parameters, position or "ret",
#  the C type the -c wrapper must then record).  A witness counts when the database of a -c
# run shows exactly that remapped type, i.e. the observable effect of the class.
REMAP_WITNESS = [
    ("ParameterRemapUnchanged", "simple", (), "PaSimple::set_v", 2, 1, "int"),
    ("ParameterRemapReferenceToPointer", "globals", (), "pi_take_ref", 1, 0, "::PiObj *"),
    ("ParameterRemapConcreteToPointer", "globals", (), "pi_take", 1, 0, "::PiObj *"),
    ("ParameterRemapReferenceToConcrete", "scalars", (), "PkScalars::f_cref", 2, 1, "int"),
    ("ParameterRemapHandleToInt", "handles", (), "RhUser::take_button", 2, 1, "int"),
    ("ParameterRemapCharStarToString", "cstrings", ("string",), "po_first", 1, 0, "const char *"),
    ("ParameterRemapWCharStarToWString", "widestring", ("string",), "QmWide::wtake", 2, 1, "const char *"),
    ("ParameterRemapBasicStringToString", "stdstring", ("string",), "PpStr::cat", 2, 1, "const char *"),
    ("ParameterRemapBasicStringRefToString", "stdstring", ("string",), "pp_greet", 1, 0, "const char *"),
    ("ParameterRemapBasicStringPtrToString", "stringptrs", ("string",), "RsStrings::take_sp", 2, 1, "const char *"),
    ("ParameterRemapBasicWStringToWString", "widestring", ("string",), "QmWide::take_ws", 2, 1, "const char *"),
    ("ParameterRemapBasicWStringRefToWString", "widestring", ("string",), "QmWide::take_wr", 2, 1, "const char *"),
    ("ParameterRemapBasicWStringPtrToWString", "widestring", ("string",), "QmWide::take_wp", 2, 1, "const char *"),
    ("ParameterRemapConstToNonConst", "bytevector", ("string",), "RvBytes::take_cv", 2, 1, "::pvector< unsigned char >"),
    ("ParameterRemapPTToPointer", "refcount", ("refcount",), "RrNode::get_child", 2, "ret", "::RrNode *"),
]
# created nowhere in the tree (the only `new` of each is commented out): no input can reach them
REMAP_UNREACHABLE = ["ParameterRemapEnumToInt", "ParameterRemapThis"]


def witness_case(run):
    if run.c[0] != "c":
        return []
    db = run.db
    byname = {}
    for fi, f in db["functions"].items():
        byname.setdefault(f["scoped_name"], []).append(f)
    out = []
    for cls, atom_name, need, fn, npar, pos, want_t in REMAP_WITNESS:
        if atom_name not in run.names or not set(need) <= set(run.c):
            continue
        for f in byname.get(fn, []):
            for wi in f["c_wrappers"]:
                w = db["wrappers"][wi]
                if len(w["parameters"]) != npar:
                    continue
                try:
                    ret, params = D.c_signature(db, wi)
                except D.NoCType:
                    continue
                if (ret if pos == "ret" else params[pos]) == want_t:
                    out.append(cls)
    return out


# ------------------------------------------------------------------ lookup tables
def tables_case(run):
    """-fptrs / -unique-names: the tables compiled into the code are indexed by wrapper
    index - 1; they must name the same wrappers as the database does."""
    db = run.db
    code = open(run.oc, errors="replace").read()
    n = len(db["wrappers"])
    probs = []
    checked = 0
    if "fptrs" in run.c:
        m = re.search(r"static void \*_in_fptrs\[(\d+)\] = \{\n(.*?)\n\};", code, re.S)
        if not m:
            return ["-fptrs given but the code has no _in_fptrs table"], 0
        ents = [e.strip().rstrip(",") for e in m.group(2).splitlines() if e.strip()]
        named = [e for e in ents if not e.endswith(")0")]
        if len(set(named)) != len(named):
            probs.append("_in_fptrs points to the same function from two entries")
        if int(m.group(1)) != n or len(ents) != n:
            probs.append("_in_fptrs has %s/%d entries, the database %d wrappers" % (m.group(1), len(ents), n))
        for i, e in enumerate(ents):
            want = db["wrappers"].get(i + 1, {}).get("name", None)
            got = re.sub(r"^\(void \*\)&?", "", e)
            if want is None:
                probs.append("_in_fptrs[%d] has no wrapper %d in the database" % (i, i + 1))
            elif (want or "0") != got:
                probs.append("_in_fptrs[%d] is %s but wrapper %d is named %s" % (i, got, i + 1, want or "(unnamed)"))
            checked += 1
    if "unique-names" in run.c:
        m = re.search(r"static InterrogateUniqueNameDef _in_unique_names\[(\d+)\] = \{\n(.*?)\n\};", code, re.S)
        if not m:
            return probs + ["-unique-names given but the code has no _in_unique_names table"], checked
        ents = re.findall(r'\{ "([^"]*)", (-?\d+) \}', m.group(2))
        if int(m.group(1)) != n or len(ents) != n:
            probs.append("_in_unique_names has %s/%d entries, the database %d wrappers" % (m.group(1), len(ents), n))
        seen = set()
        useen = set()
        for u, k in ents:
            k = int(k)
            if u and u in useen:
                probs.append("_in_unique_names has the key %s twice" % u)
            useen.add(u)
            w = db["wrappers"].get(k + 1)
            if w is None:
                probs.append("_in_unique_names entry %s -> %d: no wrapper %d" % (u, k, k + 1))
            elif w["unique_name"] != u:
                probs.append("_in_unique_names says %s is wrapper %d, whose unique name is %s"
                             % (u, k + 1, w["unique_name"]))
            if k in seen:
                probs.append("_in_unique_names lists index %d twice" % k)
            seen.add(k)
            checked += 1
    return probs, checked


# ----------------------------------------------------------------------- agreement
def c_param(t):
    return t


def agreement_tu(db, backend):
    """C++ text built from the database alone."""
    pre, post, skipped = [], [], []
    for wi, w in sorted(db["wrappers"].items()):
        name = w["name"]
        if not name:
            continue
        if backend == "c":
            try:
                ret, params = D.c_signature_ext(db, wi)
            except D.NoCType as e:
                skipped.append((wi, name, str(e)))
                continue
        else:
            ret, params = "PyObject *", ["PyObject *", "PyObject *"]
        sig = "%s (*)(%s)" % (ret, ", ".join(params))
        if w["flags"] & D.WF_callable_by_name:
            pre.append('extern "C" %s %s(%s);' % (ret, name, ", ".join(params)))
        post.append('static_assert(std::is_same<decltype(&%s), %s>::value, "wrapper %d %s: '
                    'database says %s");' % (name, sig, wi, name, sig.replace('"', "'")))
    return pre, post, skipped


def agreement_case(b, run, backend):
    """Compile the synthesised declarations together with the -oc file."""
    db = run.db
    pre, post, skipped = agreement_tu(db, backend)
    tu = os.path.join(run.dir, "agree.cxx")
    with open(tu, "w") as f:
        f.write("// declarations synthesised from the database only\n")
        if backend != "c":
            f.write("#include <Python.h>\n")
        f.write('#include <type_traits>\n#include "h.h"\n')
        f.write("\n".join(pre) + "\n")
        f.write('#include "l_igate.cxx"\n')
        f.write("\n".join(post) + "\n")
    obj = os.path.join(run.dir, "agree.o")
    rc, out = L.compile_obj(b, run.dir, tu, obj)
    res = {"status": "ok", "sig": "", "declared": len(pre), "asserted": len(post),
           "skipped": skipped}
    if rc != 0:
        # is it the agreement that fails, or does the generated code not compile at all
        # (which is C03's business and leaves nothing to compare)?
        rc2, out2 = L.syntax_only(b, run.dir, run.oc)
        if rc2 != 0:
            res.update(status="nocompile", sig=L.first_error(out2))
            return res
        sig = L.first_error(out)
        sig = re.sub(r"wrapper \d+ _in[CP]\w+", "wrapper", sig)
        sig = re.sub(r"_in[CP][A-Za-z0-9_]{8,}", "_inX", sig)
        res.update(status="mismatch", sig=sig, gxx=out[:3000])
        return res
    p = tools.run(["nm", "-C", "--defined-only", obj], cwd=run.dir)
    defined = {}
    for l in p.out.splitlines():
        m = re.match(r"^[0-9a-f]*\s+([A-Za-z])\s+(.*)$", l)
        if m and m.group(1) in "TtWw":
            base = m.group(2).split("(")[0].strip()
            defined.setdefault(base, []).append(m.group(1))
    for wi, w in sorted(db["wrappers"].items()):
        n = w["name"]
        if not n:
            continue
        got = defined.get(n, [])
        if len(got) != 1:
            res.update(status="symbol", sig="wrapper %d %s is defined %d times in the object"
                                            % (wi, n, len(got)))
            return res
        glob = got[0] == "T"
        if glob != bool(w["flags"] & D.WF_callable_by_name):
            res.update(status="symbol", sig="wrapper %d %s: callable-by-name flag is %s but the symbol is %s"
                                            % (wi, n, bool(w["flags"] & D.WF_callable_by_name),
                                               "global" if glob else "local"))
            return res
    return res


# ----------------------------------------------------------------------------- ffi
# The client script: (atom, [(step...)]).  Each step names a C++ function by its scoped name
# and gives Python argument values; "$x" refers to a value returned by an earlier step.
# ("call", result-var or None, scoped function name, [args], expected or None)
FFI = {
    "simple": [
        ("p", "PaSimple::PaSimple", [], None),
        (None, "PaSimple::get_v", ["$p"], 3),
        (None, "PaSimple::set_v", ["$p", 41], None),
        (None, "PaSimple::get_v", ["$p"], 41),
        (None, "PaSimple::add", ["$p", 1], 52),
        (None, "PaSimple::add", ["$p", 1, 2], 44),
        (None, "PaSimple::twice", [5], 10),
        (None, "PaSimple::scale", ["$p", 2.0, 1.5], 44.0),
        (None, "PaSimple::is_pos", ["$p"], True),
        ("q", "PaSimple::PaSimple", [9], None),
        (None, "PaSimple::get_v", ["$q"], 9),
        ("s", "PaSimple::self_ptr", ["$q"], "$q"),
        ("r", "PaSimple::copy_plus", ["$p", 1], None),
        (None, "PaSimple::get_v", ["$r"], 42),
        (None, "PaSimple::get_counter", [], 7),
        (None, "PaSimple::set_counter", [70], None),
        (None, "PaSimple::get_counter", [], 70),
    ],
    "inherit": [
        ("d", "PbDerived::PbDerived", [], None),
        (None, "PbDerived::dm", ["$d"], 5),
        ("bb", "PbDerived::upcast_to_PbBase", ["$d"], None),
        (None, "PbBase::vm", ["$bb", 4], 13),
        (None, "PbBase::base_only", ["$bb"], 11),
        ("oo", "PbDerived::upcast_to_PbOther", ["$d"], None),
        (None, "PbOther::om", ["$oo"], 2),
        ("dd", "PbBase::downcast_to_PbDerived", ["$bb"], "$d"),
        ("b0", "PbBase::PbBase", [], None),
        (None, "PbBase::vm", ["$b0", 4], 5),
    ],
    "props": [
        ("p", "PcProps::PcProps", [], None),
        (None, "PcProps::has_x", ["$p"], False),
        (None, "PcProps::set_x", ["$p", 8], None),
        (None, "PcProps::get_x", ["$p"], 8),
        (None, "PcProps::has_x", ["$p"], True),
        (None, "PcProps::get_item", ["$p", 3], 9),
        (None, "PcProps::get_num_items", ["$p"], 3),
    ],
    "globals": [
        (None, "pi_add", [1], 6),
        (None, "pi_add", [1, 5], 9),
        (None, "pi_add", [1, 5, 7], 13),
        (None, "pi_over", [5.0], 2.5),
        (None, "pi_over", [5], 2),
        (None, "pi_over", [9, 3], 3),
        ("o", "pi_new", [], None),
        (None, "PiObj::v", ["$o"], 1),
        (None, "pi_take_ptr", ["$o"], 1),
        (None, "pi_take_ref", ["$o"], 1),
        (None, "pi_take", ["$o"], 101),
        (None, "get_pi_global", [], 12),
        (None, "set_pi_global", [5], None),
        (None, "get_pi_global", [], 5),
        (None, "get_pi_const_global", [], 13),
    ],
    "enums": [
        (None, "pf_value", [10], 10),
        ("h", "PfHolder::PfHolder", [], None),
        (None, "PfHolder::get_p", ["$h"], 1),
        (None, "PfHolder::set_p", ["$h", -4], None),
        (None, "PfHolder::get_p", ["$h"], -4),
    ],
    "scalars": [
        ("k", "PkScalars::PkScalars", [], None),
        (None, "PkScalars::f_bool", ["$k", True], False),
        (None, "PkScalars::f_uchar", ["$k", 200], 200),
        (None, "PkScalars::f_schar", ["$k", -100], -100),
        (None, "PkScalars::f_short", ["$k", -30000], -30000),
        (None, "PkScalars::f_ushort", ["$k", 60000], 60000),
        (None, "PkScalars::f_uint", ["$k", 4000000000], 4000000000),
        (None, "PkScalars::f_long", ["$k", -2 ** 40], -2 ** 40),
        (None, "PkScalars::f_ulong", ["$k", 2 ** 63 + 1], 2 ** 63 + 1),
        (None, "PkScalars::f_llong", ["$k", -2 ** 62], -2 ** 62),
        (None, "PkScalars::f_ullong", ["$k", 2 ** 64 - 1], 2 ** 64 - 1),
        (None, "PkScalars::f_float", ["$k", 0.5], 0.5),
        (None, "PkScalars::f_double", ["$k", 1e300], 1e300),
        (None, "PkScalars::f_cref", ["$k", 77], 77),
    ],
    "cstrings": [     # char pointers are only wrapped with -string
        (None, "po_name", [], b"po"),
        (None, "po_first", [b"A"], 65),
        ("s", "PoStr::PoStr", [], None),
        (None, "PoStr::len", ["$s", b"abcd"], 4),
        (None, "PoStr::hello", ["$s"], b"hello"),
        (None, "PoStr::pick", ["$s", b""], b"dflt"),
    ],
    "stdstring": [
        (None, "pp_greet", [b"bob"], b"hi bob"),
        ("s", "PpStr::PpStr", [], None),
        (None, "PpStr::size", ["$s"], 4),
        (None, "PpStr::set", ["$s", b"longer text"], None),
        (None, "PpStr::size", ["$s"], 11),
    ],
}
FFI_NEEDS_STRING = {"cstrings", "stdstring"}

CLIENT = r'''
import ctypes, json, sys
sys.path.insert(0, %(verif)r)
from vf import lib_c11 as D
db = D.parse_in(open(%(od)r, "rb").read())
lib = ctypes.CDLL(%(so)r)
script = json.loads(%(script)r)

def ctype_of(ti):
    """ctypes type from the type record alone"""
    t = db["types"][ti]
    fl = t["flags"]
    if fl & D.F_atomic:
        tok = t["atomic_token"]
        if tok == D.AT_string: return ctypes.c_char_p
        if tok == D.AT_void: return None
        if tok == D.AT_bool: return ctypes.c_bool
        if tok == D.AT_float: return ctypes.c_float
        if tok == D.AT_double: return ctypes.c_double
        if tok == D.AT_char:
            return ctypes.c_ubyte if fl & D.F_unsigned else (ctypes.c_byte if fl & D.F_signed else ctypes.c_char)
        if tok == D.AT_longlong:
            return ctypes.c_ulonglong if fl & D.F_unsigned else ctypes.c_longlong
        if tok == D.AT_int:
            u = bool(fl & D.F_unsigned)
            if fl & D.F_short: return ctypes.c_ushort if u else ctypes.c_short
            if fl & D.F_long: return ctypes.c_ulong if u else ctypes.c_long
            return ctypes.c_uint if u else ctypes.c_int
        raise ValueError("atomic token %%d" %% tok)
    if fl & D.F_wrapped:
        if fl & D.F_pointer: return ctypes.c_void_p
        return ctype_of(t["wrapped_type"])       # const T
    if fl & D.F_enum: return ctypes.c_int
    if fl & D.F_typedef: return ctype_of(t["wrapped_type"])
    raise ValueError("type %%d (%%s) cannot be passed by a C client" %% (ti, t["true_name"]))

def kind_of(ti):
    t = db["types"][ti]; fl = t["flags"]
    if fl & D.F_atomic:
        return {D.AT_float: "f", D.AT_double: "f", D.AT_string: "s", D.AT_bool: "b"}.get(t["atomic_token"], "i")
    if fl & D.F_wrapped and fl & D.F_pointer: return "p"
    if fl & D.F_wrapped or fl & D.F_typedef: return kind_of(t["wrapped_type"])
    return "i"

def pykind(v):
    if isinstance(v, bool): return "b"
    if isinstance(v, int): return "i"
    if isinstance(v, float): return "f"
    if isinstance(v, bytes): return "s"
    return "p"

fn_by_name = {}
for fi, f in db["functions"].items():
    fn_by_name.setdefault(f["scoped_name"], []).append(fi)

env, report = {}, []
for var, fname, args, expect in script:
    vals = [env[a[1:]] if isinstance(a, str) and a.startswith("$") else
            (a.encode() if isinstance(a, str) else a) for a in args]
    kinds = [("p" if isinstance(a, str) and a.startswith("$") else pykind(v)) for a, v in zip(args, vals)]
    cands = []
    for fi in fn_by_name.get(fname, []):
        for wi in db["functions"][fi]["c_wrappers"]:
            w = db["wrappers"][wi]
            if len(w["parameters"]) != len(vals): continue
            wk = [kind_of(p["type"]) for p in w["parameters"]]
            ok = all(a == b or (a == "b" and b == "i") or (a == "i" and b == "b") for a, b in zip(wk, kinds))
            if ok: cands.append(wi)
    if len(cands) != 1:
        report.append({"fn": fname, "args": repr(vals), "error": "%%d wrappers in the database match" %% len(cands)})
        continue
    w = db["wrappers"][cands[0]]
    try:
        f = getattr(lib, w["name"])
    except AttributeError:
        report.append({"fn": fname, "wrapper": w["name"], "error": "symbol not exported"})
        continue
    f.argtypes = [ctype_of(p["type"]) for p in w["parameters"]]
    f.restype = ctype_of(w["return_type"]) if (w["flags"] & D.WF_has_return) else None
    got = f(*vals)
    if isinstance(got, bytes) and f.restype is ctypes.c_char and len(got) == 1:
        got = got[0]
    if var: env[var] = got
    exp = env[expect[1:]] if isinstance(expect, str) and expect.startswith("$") else \
        (expect.encode() if isinstance(expect, str) else expect)
    ok = True if exp is None else (abs(got - exp) < 1e-12 * max(1.0, abs(exp)) if isinstance(exp, float)
                                   else got == exp)
    report.append({"fn": fname, "wrapper": w["name"], "args": repr(vals), "got": repr(got),
                   "expected": repr(exp), "ok": bool(ok)})
print("FFI-REPORT " + json.dumps(report))
'''


def ffi_case(b, run, atoms):
    """Link the -c -fnames code and drive it through ctypes using only the database."""
    so = os.path.join(run.dir, "libffi.so")
    rc, out = L.gxx(L.cxx_flags(b, [run.dir]) + ["-shared", "-o", so, run.oc,
                                                  os.path.join(run.dir, "defs.cxx")], run.dir)
    res = {"status": "ok", "sig": "", "calls": 0, "checked": 0}
    if rc != 0:
        res.update(status="link", sig=L.first_error(out), gxx=out[:2000])
        return res
    script = []
    for a in atoms:
        if a in FFI and a in run.names and (a not in FFI_NEEDS_STRING or "string" in run.c):
            for var, fn, args, exp in FFI[a]:
                conv = lambda v: v.decode() if isinstance(v, bytes) else v
                script.append([var, fn, [conv(x) for x in args], conv(exp)])
    # bytes were turned into str for JSON; the client turns non-$ str back into bytes
    code = CLIENT % {"verif": build.VERIF, "od": run.od, "so": so, "script": json.dumps(script)}
    r = pynative.run_python(code, so, timeout=120)
    m = re.search(r"^FFI-REPORT (.*)$", r.out, re.M)
    if r.rc != 0 or not m:
        res.update(status="client", sig=("client exit %s: %s" % (r.rc, (r.err or "").strip().splitlines()[-1:]))[:240],
                   out=(r.err or "")[-1500:])
        return res
    rep = json.loads(m.group(1))
    res["calls"] = len(rep)
    res["checked"] = sum(1 for x in rep if x.get("ok") and x.get("expected") != "None")
    bad = [x for x in rep if not x.get("ok")]
    if bad:
        x = bad[0]
        res.update(status="ffi", sig=("%s%s -> %s, expected %s" % (x["fn"], x.get("args", ""), x.get("got"), x.get("expected"))
                                      if "error" not in x else "%s: %s" % (x["fn"], x["error"]))[:240],
                   bad=bad[:10])
    return res


# --------------------------------------------------------------------------- main
def main():
    ck = Check(PID, level="model_checking")
    b = build.build("rel")
    if ck.replay:
        return replay(ck, b)
    thorough = ck.tier == "thorough"
    root = ck.scratch()
    want = lambda fam: ck.only is None or fam in ck.only
    cfgs = configs()
    plain = L.GROUPS["plain"]
    nasty = L.GROUPS["nasty"]
    allatoms = plain + nasty
    everyatom = allatoms + L.GROUPS["adversarial"]
    total_cov = {"%s.%s" % (k, f): 0 for k, f, _t in D.INDEX_FIELDS}
    cov_by_backend = {be: dict.fromkeys(total_cov, 0) for be in BACKENDS}
    unequal_loads = []
    witnessed = {}

    def account(res, c):
        for k, v in res["cov"].items():
            total_cov[k] += v
            cov_by_backend[c[0]][k] += v

    pending = []     # (kind, sig, key, names, c, detail)

    def report_closure(key, res, names, c):
        sig = re.sub(r"\b\d+\b", "N", res["problems"][0])
        pending.append(("closure", sig, key, names, c,
                        {"problems": res["problems"][:40], "cmd": res.get("cmd"), "first": res["problems"][0]}))

    def flush_failures():
        """Group by (kind, back-end, normalised observation); report the smallest case of each
        group once, after two confirming re-runs."""
        groups = {}
        for kind, sig, key, names, c, det in pending:
            groups.setdefault((kind, c[0], sig), []).append((key, names, c, det))
        for (kind, be, sig), members in sorted(groups.items()):
            key, names, c, det = sorted(members, key=lambda m: (len(m[1]), len(m[2]), m[0]))[0]
            what = {"closure": "database not closed/consistent: %s" % det.get("first", sig),
                    "agreement": "generated code disagrees with the database: %s" % sig,
                    "tables": "lookup table in the code disagrees with the database: %s" % det.get("first", sig),
                    "ffi": "database-driven ctypes client: %s" % sig}[kind]
            what += " [smallest of %d case(s) of back-end -%s with this observation]" % (len(members), be)
            d = {"observed": sig, "kind": kind, "atoms": names, "cfg": list(c),
                 "same_observation_cases": sorted(m[0] for m in members)[:400]}
            d.update(det)
            hdr = det.get("header")
            if kind == "closure":
                conf = lambda names=names, c=c, hdr=hdr: closure_case(
                    b, root, names, c, "confirm-%d" % (hash((tuple(names), c)) & 0xffffff),
                    header=hdr)[0]["status"] == "closure"
            else:
                conf = lambda names=names, c=c, kind=kind, hdr=hdr: _again(b, root, names, c, kind, hdr)
            ck.fail(key, what, d, confirm=conf)

    # ---- family 1: every atom alone x every configuration (closure)
    if want("atoms"):
        jobs = [(a, c) for c in cfgs for a in everyatom]

        def one(j):
            a, c = j
            return j, closure_case(b, os.path.join(root, "a"), [a], c, "%s@%s" % (a, ckey(c)))[0]
        for i in range(0, len(jobs), 512):
            if ck.expired(reserve=120):
                ck.cap("deadline: single-atom closure stopped after %d of %d cases" % (i, len(jobs)))
                break
            for (a, c), res in pmap(one, jobs[i:i + 512]):
                key = "atom|%s|%s" % (a, ckey(c))
                st = res["status"]
                if st == "empty":
                    continue
                ck.note(key, nontrivial=(st in ("ok", "closure") and res["records"] > 0),
                        outcome={"ok": "closed", "closure": "not-closed", "rejected": "tool-rejects-options",
                                 "noexit0": "unjudged:exit!=0"}.get(st, st) + ":" + c[0],
                        family="atom-closure",
                        sample={"atom": a, "options": ["-" + x for x in c], "records": res["records"],
                                "wrappers": res.get("wrappers")})
                account(res, c)
                if res.get("loaded_equal") is False:
                    unequal_loads.append(key)
                if st in ("closure", "unreadable"):
                    report_closure(key, res, [a], c)

    # ---- family 2: whole headers x every configuration (closure + agreement + ffi)
    if want("headers"):
        hdrs = [("plain", plain), ("all", allatoms)] + [(a, [a]) for a in L.GROUPS["adversarial"]]
        if thorough:
            hdrs.append(("all-reversed", list(reversed(allatoms))))
        jobs = [(hn, names, c) for c in cfgs for hn, names in hdrs]
        # the atoms that exist for the remaining ParameterRemap classes, with and without
        # -refcount (PointerTo<T> results/parameters become T *)
        rbase = [c for c in cfgs if thorough or len(c) <= 3]
        rhdrs = [("remaps", ["handles", "refcount", "stringptrs"]), ("bytevector", ["bytevector"])]
        jobs += [(hn, names, c + extra) for c in rbase for extra in ((), ("refcount",))
                 for hn, names in rhdrs]

        def two(j):
            hn, names, c = j
            res, run = closure_case(b, os.path.join(root, "h-" + hn), names, c, ckey(c), keep=True)
            ag = ff = None
            if res["status"] in ("ok", "closure"):
                res["witnessed"] = witness_case(run)
            if res["status"] == "ok" and ("fptrs" in c or "unique-names" in c):
                tp, nchk = tables_case(run)
                res["tables_checked"] = nchk
                if tp:
                    res["status"] = "tables"
                    res["problems"] = tp
            if res["status"] == "ok" and c[0] in ("c", "python"):
                ag = agreement_case(b, run, c[0])
                if ag["status"] == "ok" and c[0] == "c" and "fnames" in c:
                    ff = ffi_case(b, run, names)
            if res["status"] not in ("closure", "tables") and (ag is None or ag["status"] == "ok") and \
                    (ff is None or ff["status"] == "ok"):
                run.cleanup()
            return j, res, ag, ff
        for i in range(0, len(jobs), 64):
            if ck.expired(reserve=120):
                ck.cap("deadline: header cases stopped after %d of %d" % (i, len(jobs)))
                break
            for (hn, names, c), res, ag, ff in pmap(two, jobs[i:i + 64]):
                key = "header|%s|%s" % (hn, ckey(c))
                st = res["status"]
                oc = {"ok": "closed", "closure": "not-closed", "rejected": "tool-rejects-options",
                      "noexit0": "unjudged:exit!=0", "tables": "tables-disagree"}.get(st, st)
                if res.get("tables_checked"):
                    oc += "+tables"
                    ck.extra["table_entries_checked"] = ck.extra.get("table_entries_checked", 0) + res["tables_checked"]
                if ag:
                    oc += "+agree:" + ag["status"]
                if ff:
                    oc += "+ffi:" + ff["status"]
                ck.note(key, nontrivial=(st in ("ok", "closure", "tables") and res["records"] > 0),
                        outcome=oc + ":" + c[0], family="header-" + hn,
                        sample={"header": hn, "options": ["-" + x for x in c], "records": res["records"],
                                "wrappers": res.get("wrappers"),
                                "asserted": ag and ag["asserted"], "declared": ag and ag["declared"],
                                "ffi_calls": ff and ff["calls"], "ffi_checked": ff and ff["checked"]})
                account(res, c)
                for cls in res.get("witnessed", ()):
                    witnessed[cls] = witnessed.get(cls, 0) + 1
                if res.get("loaded_equal") is False:
                    unequal_loads.append(key)
                if ag:
                    ck.extra["agreement_asserted"] = ck.extra.get("agreement_asserted", 0) + ag["asserted"]
                    ck.extra["agreement_unspellable"] = ck.extra.get("agreement_unspellable", 0) + len(ag["skipped"])
                    if ag["skipped"]:
                        ck.extra.setdefault("agreement_unspellable_examples", {})[ag["skipped"][0][2]] = \
                            "%s wrapper %s" % (key, ag["skipped"][0][1])
                if ff:
                    ck.extra["ffi_calls"] = ck.extra.get("ffi_calls", 0) + ff["calls"]
                    ck.extra["ffi_checked_results"] = ck.extra.get("ffi_checked_results", 0) + ff["checked"]
                if st in ("closure", "unreadable"):
                    report_closure(key, res, names, c)
                if st == "tables":
                    pending.append(("tables", re.sub(r"\b\d+\b", "N", re.sub(r"_in[CP]\w+|\b[cp][A-Za-z0-9_]{8,}\b", "X", res["problems"][0])),
                                    key + "|tables", names, c, {"problems": res["problems"][:20], "first": res["problems"][0]}))
                if ag and ag["status"] == "nocompile":
                    ck.extra.setdefault("unjudged_code_does_not_compile", []).append(key)
                elif ag and ag["status"] != "ok":
                    pending.append(("agreement", ag["sig"], key + "|agreement", names, c,
                                    {"gxx": ag.get("gxx", "")[:2500]}))
                if ff and ff["status"] != "ok":
                    pending.append(("ffi", ff["sig"], key + "|ffi", names, c,
                                    {"bad": ff.get("bad"), "out": ff.get("out", ff.get("gxx", ""))}))

    # ---- family 2b: constructed hash collisions (k = 2..5 signatures with one primary hash),
    #      every declaration order; names, unique names, tables; agreement for the full groups
    if want("collisions"):
        hcfg = [c for c in cfgs if c[0] in ("c", "python") and (thorough or len(c) <= 3)]
        groups = L.collision_groups()
        jobs = [(g, k, order, c) for g in groups for k, order in L.group_orders(g) for c in hcfg]
        full = {(g.name, order) for g in groups for k, order in L.group_orders(g)
                if k == len(g.members) and order in (tuple(range(k)), tuple(reversed(range(k))),
                                                     tuple((i + 1) % k for i in range(k)))}
        agree_cfg = {("c", "fnames"), ("python", "fnames"), ("c", "fptrs", "unique-names"),
                     ("python", "fptrs", "unique-names")}

        def four(j):
            g, k, order, c = j
            tag = "%s-%s@%s" % (g.name, "".join(map(str, order)), ckey(c))
            names = ["group:" + g.name] + [g.members[i][0] for i in order]
            wantag = (g.name, order) in full and c in agree_cfg
            res, run = closure_case(b, os.path.join(root, "g"), names, c, tag, keep=True,
                                    header=g.header(order))
            ag = None
            if res["status"] == "ok" and ("fptrs" in c or "unique-names" in c):
                tp, nchk = tables_case(run)
                res["tables_checked"] = nchk
                if tp:
                    res["status"] = "tables"
                    res["problems"] = tp
            if res["status"] == "ok" and wantag:
                ag = agreement_case(b, run, c[0])
            if res["status"] == "ok":
                plen = 4 + len(run.db["library_hash_name"])
                nm = [w["name"] for w in run.db["wrappers"].values() if w["name"]]
                res["same4"] = len(nm) - len(set(n[plen:plen + 4] for n in nm))
            run.cleanup()
            return j, res, ag, names, g.header(order)
        for i in range(0, len(jobs), 512):
            if ck.expired(reserve=120):
                ck.cap("deadline: constructed collisions stopped after %d of %d cases" % (i, len(jobs)))
                break
            for (g, k, order, c), res, ag, names, hdr in pmap(four, jobs[i:i + 512]):
                key = "group|%s|%s|%s" % (g.name, "".join(map(str, order)), ckey(c))
                st = res["status"]
                if st == "empty":
                    continue
                oc = {"ok": "closed", "closure": "not-closed", "rejected": "tool-rejects-options",
                      "noexit0": "unjudged:exit!=0", "tables": "tables-disagree"}.get(st, st)
                if ag:
                    oc += "+agree:" + ag["status"]
                ck.note(key, nontrivial=(st in ("ok", "closure", "tables") and res.get("same4", k) >= k - 1),
                        outcome="group%d:%s:%s" % (k, oc, c[0]), family="constructed-collisions",
                        sample={"group": g.name, "order": list(order), "options": ["-" + x for x in c],
                                "wrappers": res.get("wrappers")})
                account(res, c)
                if res.get("tables_checked"):
                    ck.extra["table_entries_checked"] = ck.extra.get("table_entries_checked", 0) + res["tables_checked"]
                if st in ("closure", "unreadable"):
                    sig = re.sub(r"_in[CP]\w+|\b[cp][A-Za-z0-9_]{8,}\b", "X", re.sub(r"\b\d+\b", "N", res["problems"][0]))
                    pending.append(("closure", sig, key, names, c,
                                    {"problems": res["problems"][:40], "cmd": res.get("cmd"),
                                     "first": res["problems"][0], "header": hdr}))
                if st == "tables":
                    pending.append(("tables", re.sub(r"\b\d+\b", "N", re.sub(r"_in[CP]\w+|\b[cp][A-Za-z0-9_]{8,}\b", "X", res["problems"][0])),
                                    key + "|tables", names, c,
                                    {"problems": res["problems"][:20], "first": res["problems"][0], "header": hdr}))
                if ag and ag["status"] not in ("ok", "nocompile"):
                    pending.append(("agreement", ag["sig"], key + "|agreement", names, c,
                                    {"gxx": ag.get("gxx", "")[:2500], "header": hdr}))
                elif ag and ag["status"] == "nocompile":
                    # the code of a colliding group must at least compile: C11 requires every
                    # wrapper to be defined exactly once
                    pending.append(("agreement", "generated code does not compile: " + ag["sig"],
                                    key + "|agreement", names, c, {"header": hdr}))

    # ---- family 3 (thorough): ordered pairs of atoms, closure
    if thorough and want("pairs") and not ck.expired(reserve=300):
        pc = [c for c in cfgs if len(c) <= 2 or c in
              (("c", "fnames", "fptrs", "unique-names", "string", "promiscuous"),
               ("python", "fptrs", "true-names", "unique-names", "string", "promiscuous"),
               ("python-native", "fptrs", "true-names", "unique-names", "string", "promiscuous"))]
        jobs = [(a1, a2, c) for c in pc for a1 in allatoms for a2 in allatoms if a1 != a2]

        def three(j):
            a1, a2, c = j
            return j, closure_case(b, os.path.join(root, "p"), [a1, a2], c,
                                   "%s,%s@%s" % (a1, a2, ckey(c)))[0]
        for i in range(0, len(jobs), 1024):
            if ck.expired(reserve=120):
                ck.cap("deadline: atom pairs stopped after %d of %d cases" % (i, len(jobs)))
                break
            for (a1, a2, c), res in pmap(three, jobs[i:i + 1024]):
                key = "pair|%s,%s|%s" % (a1, a2, ckey(c))
                st = res["status"]
                if st == "empty":
                    continue
                ck.note(key, nontrivial=(st in ("ok", "closure") and res["records"] > 0),
                        outcome={"ok": "closed", "closure": "not-closed", "rejected": "tool-rejects-options",
                                 "noexit0": "unjudged:exit!=0"}.get(st, st) + ":" + c[0],
                        family="pair-closure",
                        sample={"atoms": [a1, a2], "options": ["-" + x for x in c], "records": res["records"]})
                account(res, c)
                if st in ("closure", "unreadable"):
                    report_closure(key, res, [a1, a2], c)

    flush_failures()
    missing_remaps = sorted(set(w[0] for w in REMAP_WITNESS) - set(witnessed))
    if missing_remaps and ck.only is None and not ck.violations:
        raise HarnessError("ParameterRemap classes never observed in any -c database: %s" % missing_remaps)
    zero = sorted(k for k, v in total_cov.items() if v == 0)
    if zero and ck.only is None and not ck.violations:
        raise HarnessError("index-valued fields that were never non-zero in any explored database: %s" % zero)
    return ck.finish(
        rule="one case = (header built from atoms, back-end + naming options) run through the real "
             "interrogate; non-trivial = exit 0 and the database holds at least one record; every "
             "index-valued field of every record type was non-zero in at least one explored database "
             "(counts in index_field_nonzero)",
        exhaustive=True,
        bound="%d configurations x (%d single atoms + whole headers%s)"
              % (len(cfgs), len(allatoms), " + all ordered atom pairs under the small configurations" if thorough else ""),
        assumptions=["the database file as written is read by an independent parser (vf/lib_c11.py); the "
                     "enumeration vectors, which exist only after loading, are taken from idbdump",
                     "index 0 is the documented 'none'; a zero wrapper parameter/return type (types the "
                     "database cannot represent) is not a dangling index",
                     "C types are spelled from atomic token + flags, pointer/const wrappers and true names; "
                     "wrappers whose types the database cannot spell (counted in agreement_unspellable) are "
                     "not compared"],
        extra={"index_field_nonzero": total_cov, "index_field_nonzero_by_backend": cov_by_backend,
               "configurations": len(cfgs),
               "remap_classes_witnessed": dict(sorted(witnessed.items())),
               "remap_classes_not_exercised": missing_remaps,
               "remap_classes_unreachable_in_source": REMAP_UNREACHABLE,
               "load_not_identical_to_file": unequal_loads[:20]})


def _again(b, root, names, c, what, header=None):
    res, run = closure_case(b, os.path.join(root, "again"), names, c,
                            "%s-%d" % (what, hash((tuple(names), c)) & 0xffffff), keep=True, header=header)
    if res["status"] != "ok":
        return False
    if what == "tables":
        return bool(tables_case(run)[0])
    ag = agreement_case(b, run, c[0])
    if what == "agreement":
        return ag["status"] in ("mismatch", "symbol") or (header is not None and ag["status"] == "nocompile")
    return ffi_case(b, run, names)["status"] != "ok"


def replay(ck, b):
    rp = ck.load_replay()
    d = rp["detail"]
    root = ck.scratch()
    c = tuple(d["cfg"])
    res, run = closure_case(b, root, d["atoms"], c, "replay", keep=True, header=d.get("header"))
    print("case   :", rp["key"])
    print("command:", res.get("cmd"))
    print("closure:", res["status"], res["problems"][:5])
    bad = res["status"] not in ("ok", "rejected", "noexit0")
    if res["status"] == "ok" and d["kind"] in ("agreement", "ffi") and c[0] in ("c", "python"):
        ag = agreement_case(b, run, c[0])
        print("agreement:", ag["status"], ag["sig"])
        bad = bad or ag["status"] != "ok"
        if d["kind"] == "ffi" and ag["status"] == "ok":
            ff = ffi_case(b, run, d["atoms"])
            print("ffi:", ff["status"], ff["sig"])
            bad = bad or ff["status"] != "ok"
    ck.cleanup()
    return 1 if bad else 0


if __name__ == "__main__":
    run_main(main)
