"""C06 -- valid C++ is accepted; every printed type is the type that was written.

Shape S (small-scope exhaustive program enumeration, g++ as oracle).

One case = one declaration: (name-lookup context, role, type term).  Type terms are all
well-formed modifier strings up to depth d over the base types (lib_c06.py); roles are
variable / parameter / return type / typedef; contexts are global, inside a namespace, via a
using-declaration, via a namespace alias, inside a class with a shadowing nested type, default
template arguments, elaborated type specifiers.

Name lookup:  a second family (lib_c06lookup.py) declares one type name at every subset of the
              sites {global, namespace of the bases, namespace of the user class, enclosing
              class, first base, second base, the class itself} and uses the unqualified name in
              a class with 0/1/2 bases (same / other namespace, nested or not) or at namespace
              scope, as return type, parameter, method, data member and typedef; g++ decides
              which declaration wins (cases it finds ambiguous are filtered and counted).

Template members: a third family (lib_c06tmpl.py) puts one member (data member, parameter,
              return type, typedef; element T or fixed; plain, pointer, reference, arrays bounded
              by N, pointer/reference to array, function pointers) into its own class template
              over {class T; class T,int N; int N; defaults; template-of-template arguments},
              instantiates it through a global typedef and checks everything printed for the
              INSTANTIATED member, plus the template as re-printed by parse_file.

Template arguments: context `targ` (lib_c06targ.py) uses as base type template-ids whose
              arguments are composite: function types and function pointers over template-ids,
              arrays, cv/pointer/reference types, nested template-ids, and non-type arguments
              such as -1, (2 > 1), (1, 2), ternaries, sizeof(template-id), enum and qualified
              constants, template-id::value, at positions 1-2 of Box Fn Pair Arr Num Two and of
              the alias templates AB AA, nested to depth 2; family `aliaspair` puts a template-id
              and the same instantiation written through an alias template into one TU.

Acceptance:   parse_file exits 0 and reports no error on every generated translation unit
              (errors are attributed to single declarations and confirmed in isolation), and
              on every file of parser-inc/ that g++ accepts stand-alone.
Printed text: for every text interrogate prints for the declaration
                P    the declaration as re-printed by parse_file (scope relative)
                Dp   the function prototype in the database          (fully scoped)
                Dt   the true name of the database type of a variable
                Ds   the scoped name of that type
                Dtd  the database entry of a typedef
                W    the wrapper prototype in the -oc file against the database types of the
                     wrapper's return value and parameters
              a checker translation unit that includes the ORIGINAL header asks g++ whether the
              text denotes the declared type: std::is_same<decltype(entity), TEXT>.
              Text g++ cannot compile is a failure of that declaration.
"""
import itertools
import os
import re
import shutil

from vf import build, tools
from vf import lib_c06 as L
from vf import lib_c06lookup as K
from vf import lib_c06tmpl as T
from vf import lib_c06targ as TA
from vf.core import Check, HarnessError, pmap, run_main

PID = "C06"
GXX = ["g++", "-std=c++17", "-w", "-fmax-errors=0", "-ftemplate-backtrace-limit=1"]
PER_TU = 500

# ------------------------------------------------------------------------- contexts
# id -> dict(scope=[...], wrap=(open, close) for one-line declarations, bases={sym: (spelling,
# qualified)}, member=True for class scope)
G = {k: v for k, v in L.BASES.items()}
CONTEXTS = {
    "global": dict(scope=[], wrap=("", ""), bases=G),
    "ns": dict(scope=["N"], wrap=("namespace N { ", " }"), bases={
        "N::T": ("T", "::N::T"), "N::T::In": ("T::In", "::N::T::In"),
        "V<N::T*,4>": ("V<T*, 4>", "::V< ::N::T*, 4>"), "S": ("S", "::S"), "E": ("E", "::E")}),
    "using": dict(scope=["M"], wrap=("namespace M { ", " }"), bases={
        "N::T": ("T", "::N::T"), "N::T::In": ("T::In", "::N::T::In"),
        "V<N::T*,4>": ("V<T*, 4>", "::V< ::N::T*, 4>")}),
    "alias": dict(scope=[], wrap=("", ""), bases={
        "N::T": ("NA::T", "::N::T"), "N::T::In": ("NA::T::In", "::N::T::In"),
        "V<N::T*,4>": ("V<NA::T*, 4>", "::V< ::N::T*, 4>")}),
    "class": dict(scope=["Sh"], member=True, bases={
        "Sh::T": ("T", "::Sh::T"), "N::T": ("N::T", "::N::T"), "::N::T": ("::N::T", "::N::T"),
        "V<Sh::T>": ("V<T>", "::V< ::Sh::T, 3>"), "Sh::In": ("In", "::Sh::In"),
        "S": ("S", "::S")}),
    "deftmpl": dict(scope=[], wrap=("", ""), bases={
        "W<>": ("W<>", "::W< ::N::T, 2>"), "W<int>": ("W<int>", "::W<int, 2>"),
        "W<S,5>": ("W<S, 5>", "::W< ::S, 5>"), "W<W<>>": ("W<W<> >", "::W< ::W< ::N::T, 2>, 2>")}),
    "elab": dict(scope=[], wrap=("", ""), bases={
        "struct S": ("struct S", "::S"), "enum E": ("enum E", "::E"),
        "struct N::T": ("struct N::T", "::N::T"), "struct N::T::In": ("struct N::T::In", "::N::T::In")}),
}
# explicit / partial specializations whose members differ from the primary template's, named as
# X<args>::member from scopes nested in (or equal to) the scope that declares the specialization
SPEC_PRELUDE = """\
namespace SN { struct SS { int s; }; }
template<class T> struct Tr { typedef T type; static const int k = 1; struct In { int p; }; };
template<> struct Tr<int> { typedef long type; static const int k = 2; struct In { long q; }; };
template<class T> struct Tr<T*> { typedef T **type; static const int k = 3; struct In { char r; }; };
template<> struct Tr<SN::SS> { typedef short type; static const int k = 4; struct In { short s; }; };
template<int N> struct Tv { typedef int type; static const int k = 1; struct In { int p; }; };
template<> struct Tv<7> { typedef double type; static const int k = 5; struct In { double d; }; };
template<int N> struct Kc { int z; };
namespace PN {
template<class T> struct Tq { typedef T type; struct In { int p; }; };
template<> struct Tq<int> { typedef unsigned long type; struct In { long q; }; };
template<class T> struct Tq<T*> { typedef T ***type; struct In { char r; }; };
}
"""


def _spec_bases(prefixes, tmpl, qual):
    out = {}
    args = ["int", "char", "int *", "char *", "SN::SS"] if tmpl != "Tv" else ["7", "3"]
    for a in args:
        if tmpl == "Tq" and a == "SN::SS":
            continue
        for mem in ("type", "In"):
            for pre in prefixes:
                sp = "%s%s<%s>::%s" % (pre, tmpl, a, mem)
                out[sp] = (sp, "%s%s<%s>::%s" % (qual, tmpl, a.replace("SN::", "::SN::"), mem))
        if tmpl != "Tq":
            sp = "Kc<%s<%s>::k>" % (tmpl, a)
            out[sp] = (sp, "::Kc< ::%s<%s>::k>" % (tmpl, a.replace("SN::", "::SN::")))
    return out


_SPEC_G = {}
_SPEC_G.update(_spec_bases(("", "::"), "Tr", "::"))
_SPEC_G.update(_spec_bases(("", "::"), "Tv", "::"))
_SPEC_PN = _spec_bases(("", "PN::", "::PN::"), "Tq", "::PN::")
CONTEXTS["spec-global"] = dict(scope=[], wrap=("", ""), bases=_SPEC_G)
CONTEXTS["spec-ns"] = dict(scope=["U1"], wrap=("namespace U1 { ", " }"), bases=_SPEC_G)
CONTEXTS["spec-ns2"] = dict(scope=["U1", "U2"], wrap=("namespace U1 { namespace U2 { ", " } }"),
                            bases=_SPEC_G)
CONTEXTS["spec-class"] = dict(scope=["Sc"], member=True, open="struct Sc { int sc;", close="};",
                              bases=_SPEC_G)
CONTEXTS["spec-nested"] = dict(scope=["So", "Si"], member=True,
                               open="struct So { struct Si { int si;", close="}; };", bases=_SPEC_G)
CONTEXTS["spec-pn-same"] = dict(scope=["PN"], wrap=("namespace PN { ", " }"), bases=_SPEC_PN)
CONTEXTS["spec-pn-inner"] = dict(scope=["PN", "Pi"], wrap=("namespace PN { namespace Pi { ", " } }"),
                                 bases=_SPEC_PN)
CONTEXTS["spec-pn-class"] = dict(scope=["PN", "Cq"], member=True, chk_ns=["PN"],
                                 open="namespace PN { struct Cq { int cq;", close="}; }",
                                 bases=_SPEC_PN)

# template-ARGUMENT family: the base type of the declaration is a template-id with composite
# arguments (lib_c06targ.py); spelled the same in the header and in the checker
CONTEXTS["targ"] = dict(scope=[], wrap=("", ""),
                        bases={t: (t, t) for t in TA.template_ids("thorough")})
CTX_ORDER = list(CONTEXTS)

PRELUDE = L.PRELUDE + """\
namespace M { using N::T; }
namespace NA = N;
template<class X = N::T, int n = 2> struct W { X w[n]; };
""" + TA.PRELUDE + SPEC_PRELUDE
CLASS_OPEN = "struct Sh { struct T { int sh; }; struct In { int shi; };"
CLASS_CLOSE = "};"

ROLES = ("var", "param", "ret", "typedef")
ROLE_PREFIX = {"var": "v", "param": "p", "ret": "r", "typedef": "t"}


class Case:
    __slots__ = ("ctx", "role", "term", "idx", "name", "line", "probes", "accept", "printed")

    def __init__(self, ctx, role, term):
        self.ctx, self.role, self.term = ctx, role, term
        self.idx = None
        self.name = None
        self.accept = None      # None = accepted, else error text
        self.probes = []

    @property
    def key(self):
        return "%s/%s/%s" % (self.ctx, self.role, L.key(self.term))

    def spell(self, qualified):
        tab = CONTEXTS[self.ctx]["bases"]
        return lambda b: tab[b][1 if qualified else 0]

    def path(self):
        return "::" + "::".join(CONTEXTS[self.ctx]["scope"] + [self.name])

    def decl(self, name=None):
        """The declaration as written in the header under test (without scope wrapper)."""
        n = name or self.name
        sp = self.spell(False)
        member = CONTEXTS[self.ctx].get("member")
        if self.role == "var":
            return ("static " if member else "extern ") + L.render(self.term, n, sp) + ";"
        if self.role == "typedef":
            return "typedef " + L.render(self.term, n, sp) + ";"
        if self.role == "param":
            return ("static " if member else "") + "void %s(%s);" % (n, L.render(self.term, "a", sp))
        return ("static " if member else "") + L.render(self.term, n + "(void)", sp) + ";"

    def line_text(self):
        c = CONTEXTS[self.ctx]
        if c.get("member"):
            return self.decl()
        return c["wrap"][0] + self.decl() + c["wrap"][1]

    def expected(self, term=None, base_text=None):
        """Fully qualified C++ type-id the entity must have, rendered by the generator.
        base_text: override of the base type's text (deviation models on the base)."""
        t = term if term is not None else self.term
        q = self.spell(True) if base_text is None else (lambda b: base_text)
        txt = L.render(t, "", q, qualified=True)
        if self.role == "param":
            return "fn_param< %s >" % txt
        if self.role == "ret":
            return "fn_ret< %s >" % txt
        return txt

    def entity_type(self):
        if self.role == "typedef":
            return self.path()
        return "decltype(%s)" % self.path()


def case_from_key(k):
    ctx, role, tk = k.split("/", 2)
    return Case(ctx, role, L.parse_key(tk))


def enumerate_cases(tier):
    d_main = 2 if tier == "quick" else 3
    d_ctx = 2 if tier == "quick" else 3
    out = []
    for ctx in CTX_ORDER:
        bases = CONTEXTS[ctx]["bases"]
        d = d_main if ctx == "global" else d_ctx
        if ctx == "targ":
            bases = TA.template_ids(tier)
            d = 0 if tier == "quick" else 1
        if ctx.startswith("spec-"):
            d = 0 if tier == "quick" else 1
        for base in bases:
            for t in L.terms(base, d):
                for role in ROLES:
                    if L.role_ok(role, t):
                        out.append(Case(ctx, role, t))
    # canonical order: simplest first
    out.sort(key=lambda c: (L.depth(c.term), CTX_ORDER.index(c.ctx)))
    return out


# ------------------------------------------------------------------------- one TU
def build_header(cases):
    """Header text; sets case.line.  Class-scope cases go inside struct Sh."""
    lines = PRELUDE.rstrip("\n").split("\n")
    for c in cases:
        if not CONTEXTS[c.ctx].get("member"):
            lines.append(c.line_text())
            c.line = len(lines)
    blocks = []
    for c in cases:
        x = CONTEXTS[c.ctx]
        if x.get("member"):
            oc = (x.get("open", CLASS_OPEN), x.get("close", CLASS_CLOSE))
            if oc not in blocks:
                blocks.append(oc)
    for oc in blocks:
        lines.append(oc[0])
        for c in cases:
            x = CONTEXTS[c.ctx]
            if x.get("member") and (x.get("open", CLASS_OPEN), x.get("close", CLASS_CLOSE)) == oc:
                lines.append(c.line_text())
                c.line = len(lines)
        lines.append(oc[1])
    return "\n".join(lines) + "\n"


def _w(path, text):
    with open(path, "w") as f:
        f.write(text)


def gxx_filter(d, cases):
    """Drop declarations g++ itself rejects (generator imprecision); returns (kept, dropped)."""
    dropped = []
    for _ in range(5):
        _w(os.path.join(d, "h.h"), build_header(cases))
        r = tools.run(GXX + ["-fsyntax-only", "-x", "c++", "h.h"], cwd=d, timeout=300)
        if r.rc == 0:
            return cases, dropped
        byline = {c.line: c for c in cases}
        bad = {}
        for m in re.finditer(r"^h\.h:(\d+):\d+: error: (.*)$", r.err, re.M):
            c = byline.get(int(m.group(1)))
            if c is None:
                raise HarnessError("g++ rejects the fixed part of the header: " + m.group(0))
            bad.setdefault(c, m.group(2))
        if not bad:
            raise HarnessError("g++ failed on the header: " + r.err[-2000:])
        dropped += list(bad.items())
        cases = [c for c in cases if c not in bad]
    raise HarnessError("header still rejected by g++ after 5 filter rounds")


ERR_RE = re.compile(r"h\.h:(\d+):\d+: error: (.*)")


def run_parse(b, d, cases):
    """parse_file on the TU.  Declarations the parser reports an error for are recorded
    (case.accept) and removed until the rest parses; returns (remaining cases, stdout)."""
    remaining = list(cases)
    for _ in range(len(cases) + 2):
        _w(os.path.join(d, "h.h"), build_header(remaining))
        r = tools.parse_file(b, ["h.h"], cwd=d, timeout=300)
        errs = [(int(m.group(1)), m.group(2)) for m in ERR_RE.finditer(r.err)]
        if r.rc == 0 and not errs and not r.timeout:
            return remaining, r.out
        byline = {c.line: c for c in remaining}
        bad = {}
        for ln, msg in errs:
            c = byline.get(ln)
            if c is not None:
                bad.setdefault(c, msg)
                break              # later errors may be consequences of the first one
        if not bad:
            if len(remaining) == 1:
                m = re.search(r"error: (.*)", r.err)
                bad[remaining[0]] = m.group(1) if m else "rc=%s %s" % (r.rc, r.err.strip()[-200:])
            else:
                # a diagnostic without a line number: isolate by halves
                mid = len(remaining) // 2
                ra, oa = run_parse(b, d, remaining[:mid])
                rb, ob = run_parse(b, d, remaining[mid:])
                return ra + rb, oa + ob
        for c, msg in bad.items():
            c.accept = msg
        remaining = [c for c in remaining if c not in bad]
        if not remaining:
            return [], ""
    raise HarnessError("parse_file: rejection loop did not terminate")


DECL_NAME = re.compile(r"\b([vprt])(\d+)\b")


def extract_printed(out, byname):
    """Map entity name -> (scope path at which parse_file printed it, text)."""
    res = {}
    stack = []      # (indent, name)
    for line in out.splitlines():
        if not line.strip():
            continue
        ind = len(line) - len(line.lstrip(" "))
        s = line.strip()
        while stack and ind <= stack[-1][0] and s.startswith("}"):
            stack.pop()
            s = ""
            break
        if not s:
            continue
        m = re.match(r"(?:namespace|struct|class) (\w+)\b.*\{$", s)
        if m and not s.endswith("};"):
            stack.append((ind, m.group(1)))
            continue
        m = DECL_NAME.search(s)
        if m and m.group(0) in byname and not s.startswith("template"):
            res.setdefault(m.group(0), []).append(([n for _, n in stack], s))
    out = {}
    for name, lst in res.items():
        # a reopened namespace is printed once per reopening: identical repeats are one
        uniq = []
        for x in lst:
            if x not in uniq:
                uniq.append(x)
        if name[0] == "t":
            tds = [x for x in uniq if x[1].startswith("typedef ") or x[1].startswith("using ")]
            rest = [x for x in uniq if x not in tds]
            if tds:
                out[name] = tds[0] + (len(rest) + len(tds) - 1,)
                continue
        out[name] = uniq[0] + (len(uniq) - 1,)
    return out


CHK_PRELUDE = """\
#include "h.h"
#include <type_traits>
#include <cstdio>
using McS = ::S;
template<class X> using ident = X;
template<class A> using fn_param = void(A);
template<class R> using fn_ret = R(void);
template<class X> using bare = std::remove_cv_t<std::remove_reference_t<X>>;
"""


class Probe:
    __slots__ = ("case", "chan", "text", "setup", "printed_type", "expected", "norm", "verdict",
                 "line", "why")

    def __init__(self, case, chan, text, setup, printed_type, expected=None, norm=False):
        self.case, self.chan, self.text = case, chan, text
        self.setup = setup                  # line(s) declaring what printed_type refers to
        self.printed_type = printed_type    # C++ type-id built from the printed text
        self.expected = expected            # override of the entity's type
        self.norm = norm                    # compare modulo reference and top-level cv
        self.verdict = None
        self.why = None


def rename(text, name, new):
    return re.sub(r"\b%s\b" % re.escape(name), new, text)


def make_probes(cases, printed, dump, oc_text):
    probes = []
    funcs_by_name, elems_by_name, types_by_name = {}, {}, {}
    wrappers_by_func = {}
    if dump:
        for k, f in dump["functions"].items():
            funcs_by_name[f["scoped_name"]] = (k, f)
        for k, e in dump["elements"].items():
            elems_by_name[e["scoped_name"]] = e
        for k, t in dump["types"].items():
            types_by_name.setdefault(t["scoped_name"], t)
        for k, w in dump["wrappers"].items():
            wrappers_by_func.setdefault(str(w["function"]), []).append(w)
    oc_protos = {}
    for m in re.finditer(r"^(?:EXPORT_FUNC )?([\w:<>,*& ]*?)\b(_in\w+)\((.*)\);$", oc_text or "", re.M):
        oc_protos[m.group(2)] = m.group(0)
    for c in cases:
        n = c.name
        ctx = CONTEXTS[c.ctx]
        scoped = "::".join(ctx["scope"] + [n])
        # ---- P: parse_file's re-printed declaration
        if n in printed:
            scope, text, extra = printed[n]
            if extra:
                p = Probe(c, "P2", None, None, None)
                p.verdict = "spurious additional declaration of the name"
                probes.append(p)
            if scope != ctx["scope"]:
                p = Probe(c, "P", text, None, None)
                p.verdict = "printed in scope %s instead of %s" % ("::".join(scope) or "::",
                                                                     "::".join(ctx["scope"]) or "::")
                probes.append(p)
            else:
                chk = "chk_" + n
                body = rename(text, n, chk)
                if not body.endswith(";"):
                    body += ";"
                if ctx.get("member"):
                    holder = "ChkSh_%s" % n
                    setup = "struct %s : ::%s { %s };" % (holder, "::".join(ctx["scope"]), body)
                    ref = "::" + "::".join(ctx.get("chk_ns", []) + [holder, chk])
                    for ns in reversed(ctx.get("chk_ns", [])):
                        setup = "namespace %s { %s }" % (ns, setup)
                else:
                    setup = body
                    for s in reversed(ctx["scope"]):
                        setup = "namespace %s { %s }" % (s, setup)
                    ref = "::" + "::".join(ctx["scope"] + [chk])
                pt = ref if c.role == "typedef" else "decltype(%s)" % ref
                probes.append(Probe(c, "P", text, setup, pt))
        else:
            p = Probe(c, "P", None, None, None)
            p.verdict = "declaration missing from parse_file's output"
            probes.append(p)
        if not dump:
            continue
        # ---- Dp: database prototype of the function
        if c.role in ("param", "ret"):
            ent = funcs_by_name.get(scoped)
            if ent is not None:
                fi, f = ent
                proto = f["prototype"].strip().rstrip(";")
                proto = re.sub(r"^(static|inline|extern)\s+", "", proto)
                if proto.count(scoped + "(") == 1:
                    ptr = proto.replace(scoped + "(", "(*)(", 1)
                    probes.append(Probe(c, "Dp", f["prototype"].strip(), None, ptr,
                                        expected="decltype(&%s)" % c.path()))
                else:
                    p = Probe(c, "Dp", f["prototype"].strip(), None, None)
                    p.verdict = "prototype does not name the function"
                    probes.append(p)
                # ---- W: wrapper prototypes in the generated code against the database types
                for w in wrappers_by_func.get(fi, []):
                    pr = oc_protos.get(w["name"])
                    if pr is None:
                        continue
                    tys = [w["return_type"]] + [q["type"] for q in w["parameters"]]
                    names = []
                    okk = True
                    for ti in tys:
                        t = dump["types"].get(str(ti))
                        if t is None:
                            okk = False
                            break
                        names.append(t["true_name"])
                    if not okk:
                        continue
                    al = ["using w%s_%d = %s;" % (n, i, x) for i, x in enumerate(names)]
                    sig = "w%s_0 (*)(%s)" % (n, ", ".join("w%s_%d" % (n, i) for i in range(1, len(names))))
                    setup = pr.replace("EXPORT_FUNC ", 'extern "C" ') + " " + " ".join(al)
                    probes.append(Probe(c, "W", pr + "  <->  " + " | ".join(names), setup, sig,
                                        expected="decltype(&%s)" % w["name"]))
        # ---- Dt / Ds: database type of the variable
        if c.role == "var":
            e = elems_by_name.get(scoped)
            if e is not None:
                t = dump["types"].get(str(e["type"]))
                if t is not None:
                    probes.append(Probe(c, "Dt", t["true_name"], None, t["true_name"], norm=True))
                    if t["scoped_name"] != t["true_name"]:
                        probes.append(Probe(c, "Ds", t["scoped_name"], None, t["scoped_name"], norm=True))
        # ---- Dtd: database entry of the typedef
        if c.role == "typedef":
            t = types_by_name.get(scoped)
            if t is not None and t["flags"] & 0x200000:
                w = dump["types"].get(str(t["wrapped_type"]))
                if w is not None:
                    probes.append(Probe(c, "Dtd", w["true_name"], None, w["true_name"]))
    return probes


def run_checker(d, probes, prelude=None):
    """Ask g++ about every probe; sets probe.verdict:
       'same' | 'alt:<names>' | 'differs' | 'invalid: <g++ message>'."""
    live = [p for p in probes if p.verdict is None]
    for rnd in range(8):
        src = (prelude or CHK_PRELUDE).rstrip("\n").split("\n")
        mains = []
        linemap = {}
        for i, p in enumerate(live):
            if p.setup:
                src.append(p.setup)
                linemap[len(src)] = p
            src.append("using pr_%d = %s;" % (i, p.printed_type))
            linemap[len(src)] = p
            c = p.case
            exp = p.expected or c.entity_type()
            alts = []
            if hasattr(c, "alts"):
                alts = list(c.alts(p.chan))
            elif p.chan != "W":
                allowed = {"volatile-dropped", "member-pointer-as-pointer",
                           "array-suffix-unparenthesised"}
                if L.base_of(c.term) not in BUILTIN and paren_declarator(c):
                    allowed.add("west-const-dropped")
                for names, t in L.alternatives(c.term, allowed):
                    if not L.role_ok(c.role, t):
                        continue
                    a = c.expected(t)
                    if p.chan == "Dp":
                        a = "std::add_pointer_t< %s >" % a
                    alts.append(("+".join(names), a))
            if p.chan != "W" and not hasattr(c, "alts") and getattr(c, "ctx", "").startswith("spec-"):
                prim = spec_primary_text(L.base_of(c.term))
                if prim is not None:
                    # alone and combined with the other deviation models
                    for names, t in [((), c.term)] + L.alternatives(c.term):
                        if not L.role_ok(c.role, t):
                            continue
                        a = c.expected(t, base_text="ident< %s >" % prim)
                        if p.chan == "Dp":
                            a = "std::add_pointer_t< %s >" % a
                        alts.append(("+".join(names + ("specialization-ignored",)), a))
                        if L.mods_of(t)[:1] == "W" and prim.endswith("*"):
                            # the resolved pointer type is printed textually after the leading
                            # `volatile`, which then qualifies the pointee
                            a = c.expected(t, base_text=prim)
                            if p.chan == "Dp":
                                a = "std::add_pointer_t< %s >" % a
                            alts.append(("+".join(names + ("specialization-ignored",
                                                           "leading-volatile-binds-to-pointee")), a))
            wrap = (lambda x: "bare< %s >" % x) if p.norm else (lambda x: x)
            conds = ["std::is_same< %s, %s >::value" % (wrap(exp), wrap("pr_%d" % i))]
            for nm, a in alts:
                conds.append("std::is_same< %s, %s >::value" % (wrap(a), wrap("pr_%d" % i)))
            p.why = [nm for nm, _ in alts]
            mains.append('std::printf("%d %s\\n", %s);' % (i, " ".join(["%d"] * len(conds)),
                                                          ", ".join("(int)" + x for x in conds)))
        # generator self-check: the entity has the type the generator thinks it declared
        seen = set()
        for p in live:
            c = p.case
            if c not in seen:
                seen.add(c)
                src.append("static_assert(std::is_same< %s, %s >::value, \"generator\");"
                           % (c.entity_type(), c.expected()))
                linemap[len(src)] = ("self", c)
        src.append("int main() {")
        src += mains
        src.append("return 0; }")
        _w(os.path.join(d, "chk.cpp"), "\n".join(src) + "\n")
        r = tools.run(GXX + ["-O0", "chk.cpp", "-o", "chk"], cwd=d, timeout=900)
        if r.rc == 0:
            break
        bad = {}
        for m in re.finditer(r"^chk\.cpp:(\d+):\d+: error: (.*)$", r.err, re.M):
            who = linemap.get(int(m.group(1)))
            if who is None:
                continue
            if isinstance(who, tuple):
                raise HarnessError("generator self-check failed for %s (%s): %s"
                                   % (who[1].key, who[1].decl(), m.group(2)))
            bad.setdefault(who, m.group(2))
        if not bad:
            raise HarnessError("checker TU does not compile and nothing can be blamed:\n" + r.err[-2500:])
        for p, msg in bad.items():
            msg = re.sub(r"\bChkSh_[vprt]\d+\b", "ChkSh", msg)
            p.verdict = "invalid: " + re.sub(r"\b(chk_|pr_|w)?[vprt]\d+(_\d+)?\b", "X", msg)[:100]
        live = [p for p in live if p not in bad]
    else:
        raise HarnessError("checker TU still fails after 8 rounds")
    rr = tools.run([os.path.join(d, "chk")], cwd=d, timeout=120)
    if rr.rc != 0:
        raise HarnessError("checker program failed: %s" % rr.brief())
    for line in rr.out.splitlines():
        f = line.split()
        p = live[int(f[0])]
        vals = f[1:]
        if vals[0] == "1":
            p.verdict = "same"
        else:
            hit = [nm for nm, v in zip(p.why, vals[1:]) if v == "1"]
            p.verdict = ("alt:" + hit[0]) if hit else "differs"
    for p in live:
        if p.verdict is None:
            raise HarnessError("checker printed no verdict for a probe")


def run_tu(b, d, cases):
    """Everything for one translation unit.  Returns (cases, probes, filtered)."""
    os.makedirs(d, exist_ok=True)
    for i, c in enumerate(cases):
        c.idx = i
        c.name = ROLE_PREFIX[c.role] + str(i)
    cases, dropped = gxx_filter(d, cases)
    remaining, out = run_parse(b, d, cases)
    byname = {c.name: c for c in remaining}
    printed = extract_printed(out, byname)
    dump, oc = None, ""
    if remaining:
        _w(os.path.join(d, "h.h"), build_header(remaining))
        for f in ("o.in", "o.cxx"):
            if os.path.exists(os.path.join(d, f)):
                os.unlink(os.path.join(d, f))
        r = tools.interrogate(b, ["-promiscuous", "-c", "-nodb", "-od", "o.in", "-oc", "o.cxx",
                                  "-module", "m", "-library", "l", "h.h"], cwd=d, timeout=600)
        if r.rc != 0 or r.timeout or not os.path.exists(os.path.join(d, "o.in")):
            if len(remaining) == 1:
                remaining[0].accept = "interrogate: rc=%s %s" % (r.rc, r.err.strip()[-160:])
                remaining = []
            else:
                # isolate: halves
                mid = len(remaining) // 2
                a = run_tu(b, d + "a", remaining[:mid])
                bb = run_tu(b, d + "b", remaining[mid:])
                rejected = [c for c in cases if c.accept is not None and c not in remaining]
                return a[0] + bb[0] + rejected, a[1] + bb[1], dropped + a[2] + bb[2]
        else:
            dump = tools.idb_dump(b, [os.path.join(d, "o.in")], cwd=d)
            oc = open(os.path.join(d, "o.cxx")).read()
    probes = make_probes(remaining, printed, dump, oc) if remaining else []
    if probes:
        run_checker(d, probes)
    return cases, probes, dropped


# ------------------------------------------------------------------------- corpus
def corpus(ck, b):
    root = os.path.join(b["repo"], "parser-inc")
    files = []
    for dp, dn, fn in os.walk(root):
        for f in fn:
            rel = os.path.relpath(os.path.join(dp, f), root)
            if f != "README":
                files.append(rel)
    files.sort()
    d = ck.scratch("corpus")

    def one(rel):
        g = tools.run(["g++", "-std=c++20", "-fsyntax-only", "-w", "-nostdinc", "-nostdinc++",
                       "-I", root, "-x", "c++", os.path.join(root, rel)], cwd=d, timeout=120)
        if g.rc != 0:
            m = re.search(r"error: (.*)", g.err)
            return rel, "filtered", (m.group(1) if m else "rc=%s" % g.rc)[:70]
        r = tools.parse_file(b, ["-S", root, os.path.join(root, rel)], cwd=d, timeout=120)
        errs = re.findall(r"^.*error:.*$", r.err, re.M)
        if r.rc != 0 or errs or r.timeout:
            return rel, "rejected", (errs[0] if errs else "rc=%s %s" % (r.rc, r.err.strip()[-150:]))
        return rel, "accepted", ""
    res = pmap(one, files)
    reasons = {}
    for rel, st, why in res:
        if st == "filtered":
            w = re.sub(r"'[^']*'", "'..'", why)
            reasons[w] = reasons.get(w, 0) + 1
            continue
        key = "corpus/" + rel
        ck.note(key, nontrivial=True, outcome="corpus " + st, family="corpus",
                sample={"file": rel, "g++": "accepts stand-alone (-nostdinc -I parser-inc)",
                        "parse_file": st})
        if st == "rejected":
            def again(rel=rel):
                return one(rel)[1] == "rejected"
            ck.fail(key, "g++ accepts parser-inc/%s stand-alone but parse_file reports: %s" % (rel, why),
                    {"file": rel, "observed": why}, confirm=again)
    ck.extra["corpus"] = {"files": len(files),
                          "accepted_by_gxx": sum(1 for r in res if r[1] != "filtered"),
                          "filtered_rejected_by_gxx": sum(1 for r in res if r[1] == "filtered"),
                          "filter_reasons": reasons}


# ------------------------------------------------------------------------- class heads
def classhead_cases(tier):
    specs = []
    for acc in ("", "public", "protected", "private"):
        for virt in ("", "pre", "post"):
            if virt == "post" and not acc:
                continue
            specs.append((acc, virt))
    out = []
    for dk in ("struct", "class"):
        for base in ("Bc", "Bs"):
            for sp in specs:
                out.append((dk, ((sp, base),)))
    second = specs if tier == "thorough" else [("", ""), ("", "pre"), ("public", "post")]
    for dk in ("struct", "class"):
        for sp1 in specs:
            for sp2 in second:
                out.append((dk, ((sp1, "Bc"), (sp2, "Bs"))))
    return out


def spec_text(sp, base):
    acc, virt = sp
    words = []
    if virt == "pre":
        words.append("virtual")
    if acc:
        words.append(acc)
    if virt == "post":
        words.append("virtual")
    words.append(base)
    return " ".join(words)


def classhead_key(case):
    dk, bases = case
    return "classhead/%s:%s" % (dk, ",".join(spec_text(sp, b).replace(" ", "-") for sp, b in bases))


def classheads(ck, b):
    cases = classhead_cases(ck.tier)
    d = ck.scratch("classhead")
    pre = ["class Bc { public: int bc; };", "struct Bs { int bs; };"]

    def header(active):
        lines = list(pre)
        where = {}
        for i in active:
            dk, bases = cases[i]
            lines.append("%s D%d : %s { };" % (dk, i, ", ".join(spec_text(sp, bb) for sp, bb in bases)))
            where[len(lines)] = i
        return "\n".join(lines) + "\n", where

    active = list(range(len(cases)))
    txt, where = header(active)
    _w(os.path.join(d, "h.h"), txt)
    g = tools.run(GXX + ["-fsyntax-only", "-x", "c++", "h.h"], cwd=d, timeout=120)
    if g.rc != 0:
        raise HarnessError("g++ rejects the class-head header: " + g.err[-1500:])
    rejected = {}
    out = ""
    for _ in range(len(cases) + 2):
        txt, where = header(active)
        _w(os.path.join(d, "h.h"), txt)
        r = tools.parse_file(b, ["h.h"], cwd=d, timeout=120)
        errs = [(int(m.group(1)), m.group(2)) for m in ERR_RE.finditer(r.err)]
        if r.rc == 0 and not errs:
            out = r.out
            break
        blamed = [where[ln] for ln, _ in errs if ln in where][:1]
        if not blamed:
            raise HarnessError("parse_file fails on the class-head header, nothing to blame: " + r.err[-800:])
        rejected[blamed[0]] = dict(errs)[[ln for ln in where if where[ln] == blamed[0]][0]]
        active = [i for i in active if i not in rejected]
    printed = {}
    for m in re.finditer(r"^(struct|class) D(\d+)(?: : (.*?))? \{$", out, re.M):
        printed[int(m.group(2))] = (m.group(1), m.group(3) or "")
    src = ['#include "h.h"', "#include <type_traits>", "#include <cstdio>"]
    linemap = {}
    mains = []
    verdict = {}
    for i in active:
        if i not in printed:
            verdict[i] = "class missing from parse_file's output"
            continue
        k, lst = printed[i]
        src.append("%s chk_D%d%s { };" % (k, i, (" : " + lst) if lst else ""))
        linemap[len(src)] = i
    todo = [i for i in active if i not in verdict]
    for rnd in range(6):
        body = list(src) + ["int main() {"]
        for i in todo:
            conds = []
            for bb in ("Bc", "Bs"):
                conds.append("(std::is_convertible<D%d*, %s*>::value == std::is_convertible<chk_D%d*, %s*>::value)"
                             % (i, bb, i, bb))
                conds.append("(std::is_base_of<%s, D%d>::value == std::is_base_of<%s, chk_D%d>::value)"
                             % (bb, i, bb, i))
            conds.append("(sizeof(D%d) == sizeof(chk_D%d))" % (i, i))
            body.append('std::printf("%d %%d%%d%%d%%d%%d\\n", %s);' % (i, ", ".join("(int)" + c for c in conds)))
        body.append("return 0; }")
        _w(os.path.join(d, "chk.cpp"), "\n".join(body) + "\n")
        g = tools.run(GXX + ["-O0", "chk.cpp", "-o", "chk"], cwd=d, timeout=300)
        if g.rc == 0:
            break
        bad = {}
        for m in re.finditer(r"^chk\.cpp:(\d+):\d+: error: (.*)$", g.err, re.M):
            i = linemap.get(int(m.group(1)))
            if i is not None:
                bad.setdefault(i, m.group(2))
        if not bad:
            raise HarnessError("class-head checker does not compile: " + g.err[-1500:])
        for i, msg in bad.items():
            verdict[i] = "invalid: " + re.sub(r"(chk_)?D\d+", "D", msg)[:90]
        src = [l for n, l in enumerate(src, 1) if linemap.get(n) not in bad]
        # line numbers shift: rebuild the map
        linemap = {}
        for n, l in enumerate(src, 1):
            m = re.match(r"(?:struct|class) chk_D(\d+)\b", l)
            if m:
                linemap[n] = int(m.group(1))
        todo = [i for i in todo if i not in bad]
    else:
        raise HarnessError("class-head checker still fails")
    rr = tools.run([os.path.join(d, "chk")], cwd=d, timeout=60)
    names = ("access(Bc)", "base(Bc)", "access(Bs)", "base(Bs)", "size")
    for line in rr.out.splitlines():
        i, bits_ = line.split()
        wrong = [n for n, v in zip(names, bits_) if v != "1"]
        verdict[int(i)] = "same" if not wrong else "differs in " + ",".join(wrong)
    for i, case in enumerate(cases):
        key = classhead_key(case)
        dk, bases = case
        decl = "%s D : %s { };" % (dk, ", ".join(spec_text(sp, bb) for sp, bb in bases))
        if i in rejected:
            obs = "rejected: " + rejected[i]
        else:
            k, lst = printed.get(i, ("?", "?"))
            obs = "printed `%s D : %s` %s" % (k, lst, verdict[i])
        ok = i not in rejected and verdict.get(i) == "same"
        ck.note(key, nontrivial=True, outcome="classhead " + ("ok" if ok else "DEVIATES"),
                family="classhead", sample={"declaration": decl, "observed": obs})
        if not ok:
            def again(case=case, obs=obs):
                return classhead_single(ck, b, case) == obs
            ck.fail(key, obs, {"declaration": decl, "observed": obs}, confirm=again)


def classhead_single(ck, b, case):
    """One class head alone (confirmation / replay); returns the observation string."""
    d = ck.scratch("classhead1")
    dk, bases = case
    txt = "class Bc { public: int bc; };\nstruct Bs { int bs; };\n%s D0 : %s { };\n" % (
        dk, ", ".join(spec_text(sp, bb) for sp, bb in bases))
    _w(os.path.join(d, "h.h"), txt)
    r = tools.parse_file(b, ["h.h"], cwd=d, timeout=60)
    errs = ERR_RE.findall(r.err)
    if r.rc != 0 or errs:
        return "rejected: " + (errs[0][1] if errs else "rc=%s" % r.rc)
    m = re.search(r"^(struct|class) D0(?: : (.*?))? \{$", r.out, re.M)
    if not m:
        return "printed `? D : ?` class missing from parse_file's output"
    k, lst = m.group(1), m.group(2) or ""
    src = ['#include "h.h"', "#include <type_traits>", "#include <cstdio>",
           "%s chk_D0%s { };" % (k, (" : " + lst) if lst else ""), "int main() {"]
    conds = []
    for bb in ("Bc", "Bs"):
        conds.append("(std::is_convertible<D0*, %s*>::value == std::is_convertible<chk_D0*, %s*>::value)" % (bb, bb))
        conds.append("(std::is_base_of<%s, D0>::value == std::is_base_of<%s, chk_D0>::value)" % (bb, bb))
    conds.append("(sizeof(D0) == sizeof(chk_D0))")
    src.append('std::printf("%%d%%d%%d%%d%%d\\n", %s); return 0; }' % ", ".join("(int)" + c for c in conds))
    _w(os.path.join(d, "chk.cpp"), "\n".join(src) + "\n")
    g = tools.run(GXX + ["-O0", "chk.cpp", "-o", "chk"], cwd=d, timeout=120)
    if g.rc != 0:
        m2 = re.search(r"error: (.*)", g.err)
        return "printed `%s D : %s` invalid: %s" % (k, lst, re.sub(r"(chk_)?D\d+", "D", m2.group(1) if m2 else "?")[:90])
    rr = tools.run([os.path.join(d, "chk")], cwd=d, timeout=60)
    names = ("access(Bc)", "base(Bc)", "access(Bs)", "base(Bs)", "size")
    wrong = [n for n, v in zip(names, rr.out.strip()) if v != "1"]
    return "printed `%s D : %s` %s" % (k, lst, "same" if not wrong else "differs in " + ",".join(wrong))


# ------------------------------------------------------------------------- name lookup
class LEntity:
    """One use of the homonym (case x role), with the interface run_checker expects."""
    term = ("b", "int")

    def __init__(self, case, role):
        self.case, self.role = case, role
        self.name = case.entity(role)

    @property
    def key(self):
        return self.case.key + "/" + self.role

    def path(self):
        return self.case.path(self.role)

    def entity_type(self):
        if self.role == "typedef":
            return self.path()
        if self.role == "method":
            return "decltype(&%s)" % self.path()
        return "decltype(%s)" % self.path()

    def expected(self, term=None):
        return self.entity_type()       # g++ decides which declaration the name denotes

    def decl(self):
        return " ".join(self.case.render())


LNAME = re.compile(r"\b(l[rpmdt])(\d+)\b")
LOOKUP_PER_TU = 160


def lookup_tu(b, d, cases):
    """One TU of lookup cases.  Returns (cases, probes, filtered{case: reason})."""
    os.makedirs(d, exist_ok=True)
    for i, c in enumerate(cases):
        c.i = i
        c.reject = None

    def header(active):
        lines, where = [], {}
        for c in active:
            for l in c.render():
                lines.append(l)
                where[len(lines)] = c
        return "\n".join(lines) + "\n", where

    # 1. g++ decides which cases are well-formed (ambiguous / invisible names are dropped)
    filtered = {}
    active = list(cases)
    for _ in range(8):
        txt, where = header(active)
        _w(os.path.join(d, "h.h"), txt)
        g = tools.run(GXX + ["-fsyntax-only", "-x", "c++", "h.h"], cwd=d, timeout=300)
        if g.rc == 0:
            break
        bad = {}
        for m in re.finditer(r"^h\.h:(\d+):\d+: error: (.*)$", g.err, re.M):
            c = where.get(int(m.group(1)))
            if c is not None:
                bad.setdefault(c, m.group(2))
        if not bad:
            raise HarnessError("g++ fails on the lookup header and nothing can be blamed: " + g.err[-1500:])
        filtered.update(bad)
        active = [c for c in active if c not in bad]
    else:
        raise HarnessError("lookup header still rejected by g++")
    # 2. the parser must accept what g++ accepts
    out = ""
    for _ in range(len(active) + 2):
        if not active:
            break
        txt, where = header(active)
        _w(os.path.join(d, "h.h"), txt)
        r = tools.parse_file(b, ["h.h"], cwd=d, timeout=300)
        errs = [(int(m.group(1)), m.group(2)) for m in ERR_RE.finditer(r.err)]
        if r.rc == 0 and not errs and not r.timeout:
            out = r.out
            break
        blamed = [where[ln] for ln, _ in errs if ln in where][:1]
        if not blamed:
            raise HarnessError("parse_file fails on the lookup header, nothing to blame: " + r.err[-800:])
        blamed[0].reject = [msg for ln, msg in errs if where.get(ln) is blamed[0]][0]
        active = [c for c in active if c.reject is None]
    probes = []
    if not active:
        return cases, probes, filtered
    # 3. interrogate
    for f in ("o.in", "o.cxx"):
        if os.path.exists(os.path.join(d, f)):
            os.unlink(os.path.join(d, f))
    r = tools.interrogate(b, ["-promiscuous", "-c", "-nodb", "-od", "o.in", "-oc", "o.cxx",
                              "-module", "m", "-library", "l", "h.h"], cwd=d, timeout=600)
    dump = None
    if r.rc != 0 or r.timeout or not os.path.exists(os.path.join(d, "o.in")):
        if len(active) == 1:
            active[0].reject = "interrogate: rc=%s %s" % (r.rc, r.err.strip()[-160:])
            return cases, probes, filtered
        mid = len(active) // 2
        a = lookup_tu(b, d + "a", active[:mid])
        bb = lookup_tu(b, d + "b", active[mid:])
        return cases, a[1] + bb[1], filtered
    dump = tools.idb_dump(b, [os.path.join(d, "o.in")], cwd=d)
    funcs, elems, types = {}, {}, {}
    for k, f in dump["functions"].items():
        funcs[f["scoped_name"]] = f
    for k, e in dump["elements"].items():
        elems[e["scoped_name"]] = e
    for k, t in dump["types"].items():
        types.setdefault(t["scoped_name"], t)
    printed = {}
    for line in out.splitlines():
        s = line.strip()
        m = LNAME.search(s)
        if m and not s.startswith(("namespace", "struct", "class")):
            printed.setdefault(m.group(0), s)
    for c in active:
        for role in c.roles():
            e = LEntity(c, role)
            scoped = e.path()[2:]
            # P: parse_file's re-printed member, re-declared where lookup has the same order
            if role != "method":
                text = printed.get(e.name)
                if text is None:
                    p = Probe(e, "P", None, None, None)
                    p.verdict = "declaration missing from parse_file's output"
                    probes.append(p)
                else:
                    body = rename(text, e.name, "chk_" + e.name)
                    if role == "data" and not c.ctx.free:
                        body = "static " + body
                    setup, ref = c.chk_wrap(role, body)
                    pt = ref if role == "typedef" else "decltype(%s)" % ref
                    probes.append(Probe(e, "P", text, setup, pt,
                                        expected=("decltype(%s)" % e.path()) if role == "data" else None,
                                        norm=False))
            # Dp: database prototype
            if role in ("ret", "param", "method"):
                f = funcs.get(scoped)
                if f is None:
                    if not c.ctx.free:      # namespace-scope functions are never scanned
                        p = Probe(e, "Dp", None, None, None)
                        p.verdict = "function missing from the database"
                        probes.append(p)
                else:
                    proto = f["prototype"].strip().rstrip(";")
                    proto = re.sub(r"^(static|inline|extern)\s+", "", proto)
                    if proto.count(scoped + "(") == 1:
                        if role == "method":
                            cls = scoped.rsplit("::", 1)[0]
                            ptr = proto.replace(scoped + "(", "(%s::*)(" % cls, 1)
                        else:
                            ptr = proto.replace(scoped + "(", "(*)(", 1)
                        probes.append(Probe(e, "Dp", f["prototype"].strip(), None, ptr,
                                            expected="decltype(&%s)" % e.path()))
                    else:
                        p = Probe(e, "Dp", f["prototype"].strip(), None, None)
                        p.verdict = "prototype does not name the function"
                        probes.append(p)
            # Dt: database type of the data member / variable
            if role == "data":
                el = elems.get(scoped)
                if el is not None:
                    t = dump["types"].get(str(el["type"]))
                    if t is not None:
                        probes.append(Probe(e, "Dt", t["true_name"], None, t["true_name"], norm=True))
                        if t["scoped_name"] != t["true_name"]:
                            probes.append(Probe(e, "Ds", t["scoped_name"], None, t["scoped_name"], norm=True))
            # Dtd: database entry of the member typedef
            if role == "typedef":
                t = types.get(scoped)
                if t is not None and t["flags"] & 0x200000:
                    w = dump["types"].get(str(t["wrapped_type"]))
                    if w is not None:
                        probes.append(Probe(e, "Dtd", w["true_name"], None, w["true_name"]))
    if probes:
        run_checker(d, probes, prelude=CHK_PRELUDE.replace("using McS = ::S;\n", ""))
    return cases, probes, filtered


def lookup_observed(c, probes):
    """Observation string of one case: what deviates, names made anonymous."""
    parts = []
    if c.reject is not None:
        parts.append("rejected: " + c.reject)
    for p in probes:
        if p.verdict != "same":
            t = re.sub(r"(?<![A-Za-z])(H|nu|nb|Ba|Bb|Ou|U|l[rpmdt])\d+\b", r"\1", p.text or "")
            parts.append("%s/%s `%s` %s" % (p.case.role, p.chan, t,
                                            re.sub(r"\b(H|nu|nb|Ba|Bb|Ou|U)\d+\b", r"\1", p.verdict)))
    return " ;; ".join(parts)


def lookups(ck, b):
    cases = K.enumerate_cases(ck.tier)
    tus = [cases[i:i + LOOKUP_PER_TU] for i in range(0, len(cases), LOOKUP_PER_TU)]
    cnt = itertools.count()

    def one(tu):
        d = ck.scratch("lk%d" % next(cnt))
        res = lookup_tu(b, d, tu)
        if not ck.keep:
            for suf in ("", "a", "b", "aa", "ab", "ba", "bb"):
                shutil.rmtree(d + suf, ignore_errors=True)
        return res

    def confirm(c, expect):
        def f():
            c2 = K.LCase(c.ctx, c.sites, c.kind)
            d = ck.scratch("lkc%d" % next(cnt))
            cs, probes, filt = lookup_tu(b, d, [c2])
            shutil.rmtree(d, ignore_errors=True)
            return c2 not in filt and lookup_observed(c2, probes) == expect
        return f

    filtered = {}
    winners = {}
    reported = 0
    failing = 0
    for tu_cases, probes, filt in pmap(one, tus):
        byc = {}
        for p in probes:
            byc.setdefault(p.case.case, []).append(p)
        for c in tu_cases:
            if c in filt:
                w = re.sub(r"'[^']*'", "'..'", filt[c])[:60]
                filtered[w] = filtered.get(w, 0) + 1
                continue
            ps = byc.get(c, [])
            obs = lookup_observed(c, ps)
            ck.note(c.key, nontrivial=len(c.sites) >= 2 and len(ps) >= 5,
                    outcome="lookup " + ("ok" if not obs else "DEVIATES") + " sites=%d" % len(c.sites),
                    family="lookup/" + c.ctx.key(),
                    sample={"header": c.render(),
                            "printed": [(p.case.role, p.chan, p.text, p.verdict) for p in ps]})
            if obs:
                failing += 1
                det = {"case": c.key, "header": c.render(), "observed": obs}
                if ck._match_known(c.key, det) is not None:
                    ck.fail(c.key, obs, det)
                elif reported < 25:
                    reported += 1
                    ck.fail(c.key, obs, det, confirm=confirm(c, obs))
    if failing > reported:
        print("NOTE: %d failing lookup cases in total" % failing, flush=True)
        ck.cap("%d failing lookup cases, the first %d were confirmed and reported" % (failing, reported))
    ck.extra["lookup"] = {"cases": len(cases), "filtered_rejected_by_gxx": filtered,
                          "failing": failing}


# ------------------------------------------------------------------------- template members
TM_PER_TU = 300


def tmember_tu(b, d, cases):
    """One TU of template-member cases.  Returns (cases, probes, filtered{case: reason})."""
    os.makedirs(d, exist_ok=True)
    for i, c in enumerate(cases):
        c.i = i
        c.reject = None

    def header(active):
        lines = T.PRELUDE.rstrip("\n").split("\n")
        where = {}
        for c in active:
            for l in c.render():
                lines.append(l)
                where[len(lines)] = c
        return "\n".join(lines) + "\n", where

    filtered = {}
    active = list(cases)
    for _ in range(8):
        txt, where = header(active)
        _w(os.path.join(d, "h.h"), txt)
        g = tools.run(GXX + ["-fsyntax-only", "-x", "c++", "h.h"], cwd=d, timeout=300)
        if g.rc == 0:
            break
        bad = {}
        for m in re.finditer(r"^h\.h:(\d+):\d+: error: (.*)$", g.err, re.M):
            c = where.get(int(m.group(1)))
            if c is not None:
                bad.setdefault(c, m.group(2))
        if not bad:
            raise HarnessError("g++ fails on the template header and nothing can be blamed: " + g.err[-1500:])
        filtered.update(bad)
        active = [c for c in active if c not in bad]
    else:
        raise HarnessError("template header still rejected by g++")
    out = ""
    for _ in range(len(active) + 2):
        if not active:
            break
        txt, where = header(active)
        _w(os.path.join(d, "h.h"), txt)
        r = tools.parse_file(b, ["h.h"], cwd=d, timeout=300)
        errs = [(int(m.group(1)), m.group(2)) for m in ERR_RE.finditer(r.err)]
        if r.rc == 0 and not errs and not r.timeout:
            out = r.out
            break
        blamed = [where[ln] for ln, _ in errs if ln in where][:1]
        if not blamed:
            raise HarnessError("parse_file fails on the template header, nothing to blame: " + r.err[-800:])
        blamed[0].reject = [msg for ln, msg in errs if where.get(ln) is blamed[0]][0]
        active = [c for c in active if c.reject is None]
    probes = []
    if not active:
        return cases, probes, filtered
    for f in ("o.in", "o.cxx"):
        if os.path.exists(os.path.join(d, f)):
            os.unlink(os.path.join(d, f))
    r = tools.interrogate(b, ["-promiscuous", "-c", "-nodb", "-od", "o.in", "-oc", "o.cxx",
                              "-module", "m", "-library", "l", "h.h"], cwd=d, timeout=600)
    if r.rc != 0 or r.timeout or not os.path.exists(os.path.join(d, "o.in")):
        if len(active) == 1:
            active[0].reject = "interrogate: rc=%s %s" % (r.rc, r.err.strip()[-160:])
            return cases, probes, filtered
        mid = len(active) // 2
        a = tmember_tu(b, d + "a", active[:mid])
        bb = tmember_tu(b, d + "b", active[mid:])
        return cases, a[1] + bb[1], filtered
    dump = tools.idb_dump(b, [os.path.join(d, "o.in")], cwd=d)
    funcs, elems, tdefs, wrappers = {}, {}, {}, {}
    for k, f in dump["functions"].items():
        funcs.setdefault(f["scoped_name"].rsplit("::", 1)[-1], []).append((k, f))
    for k, e in dump["elements"].items():
        elems[e["scoped_name"].rsplit("::", 1)[-1]] = e
    for k, t in dump["types"].items():
        if t["flags"] & 0x200000:
            tdefs.setdefault(t["scoped_name"].rsplit("::", 1)[-1], t)
    for k, w in dump["wrappers"].items():
        wrappers.setdefault(str(w["function"]), []).append(w)
    # the template definitions as re-printed by parse_file
    olines = out.splitlines()
    blocks = {}
    for n, line in enumerate(olines):
        m = re.match(r"(\s*)struct Tm(\d+) \{$", line)
        if m and n > 0 and olines[n - 1].strip().startswith("template<"):
            ind = m.group(1)
            blk = [olines[n - 1].strip(), line.strip()]
            for l2 in olines[n + 1:]:
                blk.append(l2.strip())
                if l2 == ind + "};":
                    break
            blocks[int(m.group(2))] = blk

    def type_closure(ti, acc):
        t = dump["types"].get(str(ti))
        if t is None or ti in acc:
            return
        acc[ti] = t["true_name"]
        if t["wrapped_type"]:
            type_closure(t["wrapped_type"], acc)

    for c in active:
        n = c.name
        al = c.alias()
        # P: the template re-printed by parse_file, instantiated with the same arguments
        blk = blocks.get(c.i)
        if blk is None:
            p = Probe(c, "P", None, None, None)
            p.verdict = "template missing from parse_file's output"
            probes.append(p)
        else:
            uses = [l for l in blk[2:] if re.search(r"\b%s\b" % n, l)]
            if len(uses) > 1:
                p = Probe(c, "P2", None, None, None)
                p.verdict = "spurious additional declaration of the name"
                probes.append(p)
                # keep the declaration of the right kind only
                keep = [l for l in uses if l.startswith("typedef ") == (c.role == "typedef")][:1]
                blk = [l for l in blk if l not in uses or l in keep]
            text = " ".join(blk)
            setup = rename(text, c.tmpl(), "chk_" + c.tmpl())
            ref = "chk_%s<%s>::%s" % (c.tmpl(), c.inst[0], n)
            pt = ref if c.role == "typedef" else "decltype(%s)" % ref
            shown = " ".join(l for l in blk[2:-1] if l != "public:")
            probes.append(Probe(c, "P", shown, setup, pt))
        # Dp: prototype of the instantiated member function
        if c.role in ("param", "ret"):
            fl = funcs.get(n, [])
            if not fl:
                p = Probe(c, "Dp", None, None, None)
                p.verdict = "function missing from the database"
                probes.append(p)
            for fi, f in fl:
                scoped = f["scoped_name"]
                proto = f["prototype"].strip().rstrip(";")
                proto = re.sub(r"^(static|inline|extern)\s+", "", proto)
                if proto.count(scoped + "(") == 1:
                    probes.append(Probe(c, "Dp", f["prototype"].strip(), None,
                                        proto.replace(scoped + "(", "(*)(", 1),
                                        expected="decltype(&%s)" % c.path()))
                else:
                    p = Probe(c, "Dp", f["prototype"].strip(), None, None)
                    p.verdict = "prototype does not name the function"
                    probes.append(p)
                # Tv: every database type the wrappers of the function refer to must at least
                # be a type to the compiler
                acc = {}
                for w in wrappers.get(fi, []):
                    type_closure(w["return_type"], acc)
                    for q in w["parameters"]:
                        type_closure(q["type"], acc)
                for tn in sorted(set(acc.values())):
                    probes.append(Probe(c, "Tv", tn, None, tn, expected=tn))
        if c.role == "data":
            el = elems.get(n)
            if el is not None:
                t = dump["types"].get(str(el["type"]))
                if t is not None:
                    probes.append(Probe(c, "Dt", t["true_name"], None, t["true_name"], norm=True))
                    if t["scoped_name"] != t["true_name"]:
                        probes.append(Probe(c, "Ds", t["scoped_name"], None, t["scoped_name"], norm=True))
                # Dg: the synthesized getter / setter prototypes must be well-formed
                for gk in ("getter", "setter"):
                    f = dump["functions"].get(str(el.get(gk, 0)))
                    if f is not None:
                        scoped = f["scoped_name"]
                        proto = f["prototype"].strip().rstrip(";")
                        if proto.count(scoped + "(") == 1:
                            ptr = proto.replace(scoped + "(", "(%s::*)(" % al, 1)
                            probes.append(Probe(c, "Dg", f["prototype"].strip(), None, ptr, expected=ptr))
        if c.role == "typedef":
            t = tdefs.get(n)
            if t is not None:
                w = dump["types"].get(str(t["wrapped_type"]))
                if w is not None:
                    probes.append(Probe(c, "Dtd", w["true_name"], None, w["true_name"]))
    if probes:
        run_checker(d, probes)
    return cases, probes, filtered


def tm_anon(c, text):
    return re.sub(r"(?<![A-Za-z0-9])(chk_|get_|set_)?(Tm|I|[mprt])\d+\b",
                  lambda m: re.sub(r"\d+", "", m.group(0)), text or "")


def tmembers(ck, b):
    cases = T.enumerate_cases(ck.tier)
    tus = [cases[i:i + TM_PER_TU] for i in range(0, len(cases), TM_PER_TU)]
    cnt = itertools.count()

    def one(tu):
        d = ck.scratch("tm%d" % next(cnt))
        res = tmember_tu(b, d, tu)
        if not ck.keep:
            for suf in ("", "a", "b", "aa", "ab", "ba", "bb"):
                shutil.rmtree(d + suf, ignore_errors=True)
        return res

    def observe(c, ps):
        items = []
        if c.reject is not None:
            items.append((None, "rejected: " + c.reject))
        for p in ps:
            if p.verdict == "same":
                continue
            if p.verdict.startswith("alt:"):
                for nm in p.verdict[4:].split("+"):
                    items.append(("deviation:" + nm, nm))
            else:
                items.append((None, "%s %s" % (p.chan, tm_anon(c, p.verdict))))
        return items

    def obs_text(c, ps):
        parts = ["rejected: " + c.reject] if c.reject is not None else []
        parts += ["%s `%s` %s" % (p.chan, tm_anon(c, p.text), tm_anon(c, p.verdict))
                  for p in ps if p.verdict != "same"]
        return " ;; ".join(parts)

    def confirm(c, expect):
        def f():
            c2 = T.TCase(c.pl, c.inst, c.role, c.elem, c.shape)
            d = ck.scratch("tmc%d" % next(cnt))
            cs, probes, filt = tmember_tu(b, d, [c2])
            shutil.rmtree(d, ignore_errors=True)
            return c2 not in filt and obs_text(c2, probes) == expect
        return f

    filtered, explained = {}, {}
    reported = failing = 0
    chan = {}
    for tu_cases, probes, filt in pmap(one, tus):
        byc = {}
        for p in probes:
            byc.setdefault(p.case, []).append(p)
            chan[p.chan] = chan.get(p.chan, 0) + 1
        for c in tu_cases:
            if c in filt:
                w = re.sub(r"'[^']*'", "'..'", filt[c])[:60]
                filtered[w] = filtered.get(w, 0) + 1
                continue
            ps = byc.get(c, [])
            items = observe(c, ps)
            ck.note(c.key, nontrivial=len(ps) >= 2 or c.reject is not None,
                    outcome="tmember " + ("rejected" if c.reject else "accepted")
                            + (" DEVIATES" if items else ""),
                    family="tmember/" + c.role,
                    sample={"header": c.render(),
                            "printed": [(p.chan, tm_anon(c, p.text), p.verdict) for p in ps]})
            if not items:
                continue
            obs = obs_text(c, ps)
            det = {"case": c.key, "header": c.render(), "observed": obs}
            resolved = []
            for k0, ob in items:
                cands = [k0] if k0 is not None else c.symbol_keys()
                hit = None
                for k1 in cands:
                    if ck._match_known(k1, {"observed": ob}) is not None:
                        hit = k1
                        break
                resolved.append((hit, ob))
            if all(h is not None for h, _ in resolved):
                for h, ob in set(resolved):
                    explained[h + " | " + ob] = explained.get(h + " | " + ob, 0) + 1
                    ck.fail(h, ob, {"observed": ob, "first_case": det})
                continue
            failing += 1
            if DUMP:
                DUMP.write("%s\t%s\n" % (c.key, obs))
            if ck._match_known(c.key, det) is not None:
                ck.fail(c.key, obs, det)
            elif reported < 25:
                reported += 1
                ck.fail(c.key, obs, det, confirm=confirm(c, obs))
    if failing > reported:
        print("NOTE: %d failing template-member cases in total" % failing, flush=True)
        ck.cap("%d failing template-member cases, the first %d were confirmed and reported"
               % (failing, reported))
    ck.extra["tmember"] = {"cases": len(cases), "filtered_rejected_by_gxx": filtered,
                           "failing": failing, "probes_per_channel": chan,
                           "explained_by_symbol_findings": explained}


# ------------------------------------------------------------------------- alias pairs
ALIAS_PAIRS = [("Arr<%s>", "AA<%s>", "int, 3"), ("Arr<%s>", "AA<%s>", "int, te1"),
               ("Arr<%s>", "AA<%s>", "Box<int>, (2 > 1)"), ("Box<%s>", "AB<%s>", "int"),
               ("Box<%s>", "AB<%s>", "Arr<int, 3>")]


def aliaspair_cases():
    out = []
    for direct, alias, args in ALIAS_PAIRS:
        for order in ("direct-first", "alias-first"):
            out.append((direct % args, alias % args, order))
    return out


def aliaspair_run(ck, b, case):
    """A template-id written directly and through an alias template, both as typedefs in one
    TU.  Returns the observation ('' = accepted and both printed types right)."""
    direct, alias, order = case
    d = ck.scratch("aliaspair")
    decls = ["typedef %s ta0;" % direct, "typedef %s ta1;" % alias]
    if order == "alias-first":
        decls.reverse()
    _w(os.path.join(d, "h.h"), "struct S { int m; };\n" + TA.PRELUDE + "\n".join(decls) + "\n")
    g = tools.run(GXX + ["-fsyntax-only", "-x", "c++", "h.h"], cwd=d, timeout=60)
    if g.rc != 0:
        raise HarnessError("g++ rejects an alias pair: " + g.err[-500:])
    r = tools.parse_file(b, ["h.h"], cwd=d, timeout=60)
    errs = re.findall(r"error: (.*)", r.err)
    if r.rc != 0 or errs:
        return "rejected: " + re.sub(r"(struct|class) \w+<.*?> (has|\{)", r"\1 T \2",
                                     errs[0] if errs else "rc=%s" % r.rc)[:90]
    src = ['#include "h.h"', "#include <type_traits>"]
    bad = []
    for n in ("ta0", "ta1"):
        m = re.search(r"^typedef (.*) %s;$" % n, r.out, re.M)
        if not m:
            bad.append("%s missing from parse_file's output" % n)
            continue
        src.append("static_assert(std::is_same< %s, %s >::value, \"%s\");" % (n, m.group(1), n))
    _w(os.path.join(d, "chk.cpp"), "\n".join(src) + "\n")
    g = tools.run(GXX + ["-fsyntax-only", "chk.cpp"], cwd=d, timeout=60)
    if g.rc != 0:
        m = re.search(r"error: (.*)", g.err)
        bad.append("printed typedef wrong: " + (m.group(1) if m else "?")[:80])
    return " ;; ".join(bad)


def aliaspairs(ck, b):
    for case in aliaspair_cases():
        key = "aliaspair/%s+%s/%s" % case
        obs = aliaspair_run(ck, b, case)
        ck.note(key, nontrivial=True, outcome="aliaspair " + ("ok" if not obs else "DEVIATES"),
                family="aliaspair", sample={"direct": case[0], "alias": case[1], "order": case[2],
                                            "observed": obs})
        if obs:
            ck.fail(key, obs, {"observed": obs, "case": list(case)},
                    confirm=lambda case=case, obs=obs: aliaspair_run(ck, b, case) == obs)


# ------------------------------------------------------------------------- findings
BUILTIN = {"int", "ulong", "char", "bool", "double"}


def paren_declarator(c):
    """Does the declarator begin with '(' right after the type specifier?"""
    txt = L.render(c.term, "X" if c.role != "ret" else "X(void)", lambda b: "B")
    rest = txt.split("B", 1)[1].strip()
    for q in ("const", "volatile"):
        while rest.startswith(q):
            rest = rest[len(q):].strip()
    return rest.startswith("(")


def outer_core(c):
    return L.strip_cv(c.term)[0]


def spec_primary_text(base):
    """For X<A>::type where X<A> is a PARTIAL specialization or the specialization on a class
    type from a namespace: the type the PRIMARY template's member would have (known finding
    deviation:specialization-ignored).  None for every other base -- in particular for the
    plain full specializations Tr<int>, Tv<7>, Tq<int>, which must be honoured."""
    m = re.fullmatch(r"(?:::)?(?:PN::)?T[rq]<(int \*|char \*|SN::SS)>::type", base)
    if not m:
        return None
    return {"int *": "int *", "char *": "char *", "SN::SS": "::SN::SS"}[m.group(1)]


NESTED_DROPPED_ARGS = ("<char>", "<int *>", "<char *>", "<SN::SS>", "<3>")
COMMA_ARGS = ("(1, 2)", "::value, 2)")


def targ_symptoms(c, text, verdict):
    """Template-argument cases: recognise the two listed wrong renderings by their exact
    textual signature in the printed text (which g++ then rejects)."""
    if not verdict.startswith("invalid") or not text:
        return []
    base = L.base_of(c.term)
    flat = text.replace(" ", "")
    items = []
    if any(a in base for a in COMMA_ARGS):
        if "1,2" in flat and "(1,2)" not in flat or "::value,2" in flat and "::value,2)" not in flat:
            items.append(("symbol:template-argument/comma-expression",
                          "comma expression printed without its parentheses"))
    if base.endswith("::In") and any(a in base for a in NESTED_DROPPED_ARGS) \
            and re.search(r"\bT[rvq]::In\b", text):
        items.append(("symbol:nested-class-of-template-instantiation",
                      "template arguments of the enclosing instantiation dropped"))
    if (">::value" in base and "Num::value" in flat) or \
            (">::k>" in base and re.search(r"\bT[rv]::k\b", text)):
        items.append(("symbol:template-argument/member-of-template-id",
                      "template arguments of the qualifying template-id dropped"))
    return items


def symbol_keys(c):
    """Alphabet symbols (syntactic properties of the declaration) a root cause may poison,
    most specific first.  A known finding names one of them plus the exact observation."""
    ks = []
    base = L.base_of(c.term)
    if c.role == "param" and outer_core(c) == "f":
        ks.append("symbol:parameter-of-function-type")
    if c.ctx == "elab" and base == "enum E" and c.role == "param":
        ks.append("symbol:elaborated-enum-parameter")
    if base not in BUILTIN and paren_declarator(c):
        ks.append("symbol:type-name-then-parenthesised-declarator/" + c.role)
    return ks


# ------------------------------------------------------------------------- driver
def verdict_of(c, probes):
    """(list of per-channel findings, set of deviation names)  for one case."""
    bad, dev = [], set()
    for p in probes:
        if p.verdict == "same":
            continue
        if p.verdict.startswith("alt:"):
            for nm in p.verdict[4:].split("+"):
                dev.add(nm)
            bad.append((p.chan, p.text, p.verdict))
        else:
            bad.append((p.chan, p.text, p.verdict))
    return bad, dev


def observed_text(c, bad):
    parts = []
    if c.accept is not None:
        parts.append("rejected: " + c.accept)
    for chan, text, v in bad:
        t = rename(text or "", c.name or "", "X") if text else ""
        t = re.sub(r"\b_in\w+\b", "_in", t)
        t = re.sub(r"\bwX_\d+\b", "w", t)
        parts.append("%s `%s` %s" % (chan, t, v))
    return " ;; ".join(parts)


def main():
    ck = Check(PID)
    b = build.build("rel")
    if ck.replay:
        return replay(ck, b)
    ck.scratch()
    if not ck.only or "corpus" in ck.only:
        corpus(ck, b)
    if not ck.only or "classhead" in ck.only:
        classheads(ck, b)
    if not ck.only or "lookup" in ck.only:
        lookups(ck, b)
    if not ck.only or "tmember" in ck.only:
        tmembers(ck, b)
    if not ck.only or "aliaspair" in ck.only:
        aliaspairs(ck, b)
    cases = enumerate_cases(ck.tier) if (not ck.only or "grammar" in ck.only) else []
    # a template-id written through the alias template AA and the same instantiation written
    # directly clash in one TU (see the aliaspair family): keep them in separate TUs
    plain = [c for c in cases if "AA<" not in L.base_of(c.term)]
    alias = [c for c in cases if "AA<" in L.base_of(c.term)]
    tus = [plain[i:i + PER_TU] for i in range(0, len(plain), PER_TU)] + \
          [alias[i:i + PER_TU] for i in range(0, len(alias), PER_TU)]
    counter = itertools.count()
    dev_counts = {}
    filtered = {}
    reported = [0]
    MAXREP = 40
    chan_counts = {}

    def one_tu(tu):
        d = ck.scratch("tu%d" % next(counter))
        res = run_tu(b, d, tu)
        if not ck.keep:
            shutil.rmtree(d, ignore_errors=True)
            for suf in ("a", "b", "aa", "ab", "ba", "bb"):
                shutil.rmtree(d + suf, ignore_errors=True)
        return res

    def confirm(c, expect):
        def f():
            c2 = Case(c.ctx, c.role, c.term)
            d = ck.scratch("confirm%d" % next(counter))
            cs, probes, _ = run_tu(b, d, [c2])
            shutil.rmtree(d, ignore_errors=True)
            if c2 not in cs:
                return False
            bad, dev = verdict_of(c2, [p for p in probes if p.case is c2])
            return observed_text(c2, bad) == expect
        return f

    done = 0
    for group in (tus[i:i + 16] for i in range(0, len(tus), 16)):
        if ck.expired(reserve=60):
            ck.cap("deadline after %d of %d declarations" % (done, len(cases)))
            break
        for tu_cases, probes, dropped in pmap(one_tu, group):
            for c, why in dropped:
                w = re.sub(r"'[^']*'", "'..'", why)[:70]
                filtered[w] = filtered.get(w, 0) + 1
            byc = {}
            for p in probes:
                byc.setdefault(p.case, []).append(p)
                chan_counts[p.chan] = chan_counts.get(p.chan, 0) + 1
            for c in tu_cases:
                done += 1
                ps = byc.get(c, [])
                bad, dev = verdict_of(c, ps)
                mods = L.mods_of(c.term)
                outcome = "accepted" if c.accept is None else "rejected"
                outcome += " probes=%s" % "".join(sorted({p.chan[0] + p.chan[1:2] for p in ps}))
                if bad:
                    outcome += " DEVIATES"
                ck.note(c.key, nontrivial=(len(mods) >= 1 or c.ctx == "targ"
                                           or c.ctx.startswith("spec-")) and len(ps) >= 1,
                        outcome=outcome,
                        family=c.ctx + "/" + c.role,
                        sample={"declaration": c.line_text(), "accepted": c.accept is None,
                                "printed": [(p.chan, p.text, p.verdict) for p in ps]})
                if c.accept is None and not bad:
                    continue
                obs = observed_text(c, bad)
                det = {"case": c.key, "declaration": c.line_text(), "observed": obs,
                       "channels": [(ch, tx, v) for ch, tx, v in bad]}
                # root causes that poison a whole alphabet symbol are listed in
                # known_findings.jsonl as  symbol (or deviation) + exact observation;
                # everything a case shows must be explained, else the case is a violation
                items = []          # (key, observed)
                if c.accept is not None:
                    items.append((None, "rejected: " + c.accept))
                for ch, tx, v in bad:
                    if v.startswith("alt:"):
                        for nm in v[4:].split("+"):
                            items.append(("deviation:" + nm, nm))
                    elif (c.ctx == "targ" or c.ctx.startswith("spec-")) and targ_symptoms(c, tx, v):
                        items += targ_symptoms(c, tx, v)
                    else:
                        items.append((None, "%s %s" % (ch, v)))
                resolved = []
                for k0, ob in items:
                    if k0 is not None:
                        cands = [k0]
                    else:
                        cands = symbol_keys(c)
                    hit = None
                    for k1 in cands:
                        if ck._match_known(k1, {"observed": ob}) is not None:
                            hit = k1
                            break
                    resolved.append((hit, ob))
                if all(h is not None for h, _ in resolved):
                    for h, ob in set(resolved):
                        dev_counts[h + " | " + ob] = dev_counts.get(h + " | " + ob, 0) + 1
                        ck.fail(h, ob, {"observed": ob, "first_case": det})
                    continue
                if ck._match_known(c.key, det) is not None:
                    ck.fail(c.key, obs, det)
                elif reported[0] < MAXREP:
                    reported[0] += 1
                    ck.fail(c.key, obs, det, confirm=confirm(c, obs))
                else:
                    reported[0] += 1
                if DUMP:
                    DUMP.write("%s\t%s\n" % (c.key, obs))
    if reported[0] > MAXREP:
        ck.cap("%d failing declarations, only the first %d (canonical order) were confirmed and reported"
               % (reported[0], MAXREP))
        print("NOTE: %d failing declarations in total" % reported[0], flush=True)
    ck.extra["filtered_rejected_by_gxx"] = filtered
    ck.extra["probes_per_channel"] = chan_counts
    ck.extra["cases_explained_by_symbol_findings"] = dev_counts
    ck.extra["failing_declarations"] = reported[0]
    return ck.finish(
        rule="one case = one declaration (context, role, type term) parsed by parse_file and "
             "interrogate, or one parser-inc file; non-trivial = the type has at least one modifier "
             "(or is a template-id with composite arguments) and at least one printed text of it was compared by g++ (corpus files: g++ accepted "
             "the file stand-alone)",
        exhaustive=True,
        bound="modifier depth<=%d (global context), <=%d (other contexts); %d contexts x 4 roles"
              % ((2, 2, len(CTX_ORDER)) if ck.tier == "quick" else (3, 3, len(CTX_ORDER))),
        assumptions=["database element types are compared modulo reference and top-level cv "
                     "(scan_element records the value type)",
                     "corpus filter: g++ -std=c++20 -fsyntax-only -nostdinc -nostdinc++ -I parser-inc"],
        min_nontrivial=20)


DUMP = open(os.environ["VERIF_C06_DUMP"], "w") if os.environ.get("VERIF_C06_DUMP") else None


def replay(ck, b):
    rp = ck.load_replay()
    k = rp["key"]
    if k.startswith("corpus/"):
        root = os.path.join(b["repo"], "parser-inc")
        r = tools.parse_file(b, ["-S", root, os.path.join(root, k[7:])], cwd=ck.scratch(), timeout=120)
        print("parse_file rc=%s\n%s" % (r.rc, r.err[-1500:]))
        ck.cleanup()
        return 1 if (r.rc != 0 or "error:" in r.err) else 0
    if k.startswith("aliaspair/"):
        for case in aliaspair_cases():
            if "aliaspair/%s+%s/%s" % case == k:
                obs = aliaspair_run(ck, b, case)
                print(case, "->", obs or "accepted, printed types right")
                ck.cleanup()
                return 1 if obs else 0
        raise HarnessError("unknown alias pair " + k)
    if k.startswith("tmember/"):
        c = T.case_from_key(k)
        cs, probes, filt = tmember_tu(b, ck.scratch("replay"), [c])
        print("\n".join(c.render()))
        if c in filt:
            print("g++ rejects the case:", filt[c])
        if c.reject:
            print("rejected:", c.reject)
        for p in probes:
            print("  %-3s %-60s %s" % (p.chan, p.text, p.verdict))
        bad = c.reject is not None or any(p.verdict != "same" for p in probes)
        ck.cleanup()
        return 1 if bad else 0
    if k.startswith("lookup/"):
        c = K.case_from_key(k)
        cs, probes, filt = lookup_tu(b, ck.scratch("replay"), [c])
        print("\n".join(c.render()))
        if c in filt:
            print("g++ rejects the case:", filt[c])
        for p in probes:
            print("  %-8s %-3s %-50s %s" % (p.case.role, p.chan, p.text, p.verdict))
        obs = lookup_observed(c, probes)
        ck.cleanup()
        return 1 if obs else 0
    if k.startswith("classhead/"):
        for case in classhead_cases("thorough"):
            if classhead_key(case) == k:
                obs = classhead_single(ck, b, case)
                print(obs)
                ck.cleanup()
                return 0 if obs.endswith(" same") else 1
        raise HarnessError("unknown class-head case " + k)
    if k.startswith("deviation:") or k.startswith("symbol:"):
        k = rp["detail"]["first_case"]["case"]
    c = case_from_key(k)
    cs, probes, dropped = run_tu(b, ck.scratch("replay"), [c])
    print("declaration:", c.line_text())
    print("accepted   :", c.accept is None, c.accept or "")
    for p in probes:
        print("  %-3s %-60s %s" % (p.chan, p.text, p.verdict))
    bad, dev = verdict_of(c, probes)
    ck.cleanup()
    return 1 if (bad or c.accept is not None) else 0


if __name__ == "__main__":
    run_main(main)
