"""C07 -- recorded constants (enumerator values, integer macro constants, array bounds)
equal the values the C++ compiler computes.

Shapes S + V.  ALL integer constant expressions up to a depth bound over the literal and
operator alphabets of DESIGN.md/C07 are generated (vf/lib_c07.py) WITHOUT redundant
parentheses, so precedence and associativity decide the value.  A Python evaluator with
C++ typed `int` semantics only FILTERS to expressions whose every evaluated intermediate
is defined and inside `int`; it is not the oracle.  The ORACLE is g++: the same header is
compiled together with a printer program and every value interrogate stored in the
database (read back through the real libinterrogatedb with idbdump) must equal g++'s.

Contexts, all in one header per batch of 2000 expressions (names carry the index):

    enum E_i { e_i = EXPR, n_i, m_i };     explicit enumerator + two implicit increments
    #define M_i EXPR                       published manifest (compact spelling, no blanks)
    extern char a_i[EXPR];                 array bound (only when the value is >= 1)

with EXPR possibly referring to an earlier enumerator, a `static const int`, a
`constexpr int`, a static const data member and object-like macros (PREAMBLE).

A value may be absent / unevaluated (enum not recorded, manifest without F_has_int_value,
array of unknown size -1) but never different from g++'s; a crash of interrogate on such a
header is a violation as well (the crashing expression is isolated by bisection).
"""
import os
import shutil

from vf import build, tools
from vf import lib_c07 as X
from vf.core import Check, HarnessError, pmap_proc, run_main

PID = "C07"
BATCH = 2000
MAX_REPORT = 40          # individually confirmed + reported violations per run
MAX_PER_SIGNATURE = 2    # ... of which per (outcome class, top-level operator): so that every
                         # distinct way of failing shows up among the reported ones
CRASH_ISOLATE_CAP = 64   # crashing/rejected expressions isolated by bisection per batch
F_HAS_INT = 4
F_ARRAY = 0x400000
NA = -(2 ** 62)


class Case(object):
    __slots__ = ("e", "family", "inc", "arr")

    def __init__(self, e, family):
        self.e, self.family = e, family
        if e.val is None:                 # textual-macro family: value known to g++ only
            self.inc, self.arr = True, False
        else:
            self.inc = e.val <= X.INT_MAX - 2
            self.arr = e.val >= 1

    def spec(self):
        return {"text": self.e.text, "ctext": self.e.ctext, "inc": self.inc, "arr": self.arr,
                "family": self.family, "model_value": self.e.val, "leaves": list(self.e.leaves),
                "nops": self.e.nops}


class Spec(object):
    """a case rebuilt from a replay file"""
    class _E(object):
        pass

    def __init__(self, d):
        self.e = Spec._E()
        self.e.text, self.e.ctext, self.e.val = d["text"], d["ctext"], d.get("model_value")
        self.e.leaves, self.e.nops = tuple(d.get("leaves", ())), d.get("nops", 1)
        self.family, self.inc, self.arr = d["family"], d["inc"], d["arr"]

    def spec(self):
        return {"text": self.e.text, "ctext": self.e.ctext, "inc": self.inc, "arr": self.arr,
                "family": self.family, "model_value": self.e.val, "leaves": list(self.e.leaves),
                "nops": self.e.nops}


# ----------------------------------------------------------------------------- render
def render_header(items):
    """items: list of (index, case)"""
    out = [X.PREAMBLE, "__begin_publish\n"]
    for i, c in items:
        inc = (", n_%d, m_%d" % (i, i)) if c.inc else ""
        out.append("enum E_%d { e_%d = %s%s };\n" % (i, i, c.e.text, inc))
        out.append("#define M_%d %s\n" % (i, c.e.ctext))
        if c.arr:
            out.append("extern char a_%d[%s];\n" % (i, c.e.text))
    out.append("__end_publish\n")
    return "".join(out)


def render_printer(items):
    out = ['#include "h.h"\n#include <cstdio>\n',
           "static const long long NA = %dLL;\n" % NA,
           "static const long long T[][6] = {\n"]
    for i, c in items:
        n = "(long long)n_%d, (long long)m_%d" % (i, i) if c.inc else "NA, NA"
        a = "(long long)sizeof(a_%d)" % i if c.arr else "NA"
        out.append(" {%d, (long long)e_%d, %s, (long long)(M_%d), %s},\n" % (i, i, n, i, a))
    out.append("};\nint main() {\n  for (unsigned k = 0; k < sizeof(T) / sizeof(T[0]); ++k)\n"
               '    printf("%lld %lld %lld %lld %lld %lld\\n", T[k][0], T[k][1], T[k][2], T[k][3], '
               "T[k][4], T[k][5]);\n  return 0;\n}\n")
    return "".join(out)


def gxx_values(d, items):
    """the oracle: compile header + printer with g++ and run it."""
    with open(os.path.join(d, "p.cxx"), "w") as f:
        f.write(render_printer(items))
    r = tools.run(["g++", "-std=c++17", "-w", "-O0", "-fno-diagnostics-color"] + tools.PUBLISH_DEFS +
                  ["-o", "p", "p.cxx"], cwd=d, timeout=600)
    if r.rc != 0:
        raise HarnessError("g++ rejects a generated header (generator/filter bug): %s"
                           % r.err[:1500])
    r = tools.run([os.path.join(d, "p")], cwd=d, timeout=60)
    if r.rc != 0:
        raise HarnessError("printer failed: %s" % r.brief())
    vals = {}
    for line in r.out.splitlines():
        p = [int(x) for x in line.split()]
        vals[p[0]] = {"e": p[1], "n": None if p[2] == NA else p[2],
                      "m": None if p[3] == NA else p[3], "M": p[4],
                      "a": None if p[5] == NA else p[5]}
    if len(vals) != len(items):
        raise HarnessError("printer printed %d of %d rows" % (len(vals), len(items)))
    return vals


def interrogate_once(b, d, items, tag, timeout=120):
    hn = "h_%s.h" % tag
    with open(os.path.join(d, hn), "w") as f:
        f.write(render_header(items))
    r = tools.interrogate(b, ["-od", "o_%s.in" % tag, "-oc", "o_%s.cxx" % tag, "-module", "m",
                              "-library", "l", "-c", "-fnames", hn], cwd=d, timeout=timeout)
    if r.timeout:
        r = tools.interrogate(b, ["-od", "o_%s.in" % tag, "-oc", "o_%s.cxx" % tag, "-module", "m",
                                  "-library", "l", "-c", "-fnames", hn], cwd=d, timeout=timeout * 10)
    return r


def read_db(b, d, items, tag):
    dump = tools.idb_dump(b, [os.path.join(d, "o_%s.in" % tag)], cwd=d)
    enums, arrays, mans = {}, {}, {}
    types = dump["types"]
    for t in types.values():
        if t["flags"] & 0x080000 and t["name"].startswith("E_"):
            enums[t["name"]] = {ev["name"]: ev["value"] for ev in t["enum_values"]}
    for el in dump["elements"].values():
        if el["name"].startswith("a_"):
            t = types.get(str(el["type"]))
            if t is not None and t["flags"] & F_ARRAY:
                arrays[el["name"]] = t["array_size"]
    for m in dump["manifests"].values():
        if m["name"].startswith("M_"):
            mans[m["name"]] = m["int_value"] if m["flags"] & F_HAS_INT else None
    rec = {}
    for i, c in items:
        ev = enums.get("E_%d" % i, {})
        rec[i] = {"e": ev.get("e_%d" % i), "n": ev.get("n_%d" % i), "m": ev.get("m_%d" % i),
                  "M": mans.get("M_%d" % i), "a": arrays.get("a_%d" % i)}
    return rec


def bad_kind(r):
    if r.timeout:
        return "hang"
    if r.rc is None or r.rc < 0 or r.rc in (98, 99, 134):
        return "crash"
    return "rejected"


class Budget(object):
    def __init__(self):
        self.crash_isolated = 0
        self.reported = 0
        self.suppressed = 0
        self.unisolated = 0
        self.per_sig = {}


def observe(b, d, items, bud, tag="0"):
    """interrogate on the batch; on a crash / rejection bisect.  Returns {index: rec or
    {'bad': kind, 'r': brief}}.  `bud` is the per-batch isolation budget."""
    r = interrogate_once(b, d, items, tag)
    ok = (r.rc == 0 and not r.timeout and os.path.exists(os.path.join(d, "o_%s.in" % tag)))
    if ok:
        return read_db(b, d, items, tag)
    kind = bad_kind(r)
    if len(items) == 1:
        bud.crash_isolated += 1
        return {items[0][0]: {"bad": kind, "r": r.brief()}}
    if bud.crash_isolated >= CRASH_ISOLATE_CAP:
        # too many bad expressions already isolated in this batch: try the first one alone
        # (so the smallest is still reported) and leave the rest unexplored
        out = observe(b, d, items[:1], bud, tag + "f")
        for i, c in items[1:]:
            out[i] = {"bad": "unisolated", "r": r.brief()}
        return out
    h = len(items) // 2
    out = observe(b, d, items[:h], bud, tag + "a")
    out.update(observe(b, d, items[h:], bud, tag + "b"))
    return out


def batch_worker(job):
    """One batch, run in a worker process: g++ oracle, interrogate (+ bisection), compare.
    Returns [(outcome, wrong, g, rec, nontrivial)] in case order."""
    bid, d, b, cases, keep = job
    os.makedirs(d, exist_ok=True)
    items = list(enumerate(cases))
    with open(os.path.join(d, "h.h"), "w") as f:
        f.write(render_header(items))
    g = gxx_values(d, items)
    for i, c in items:
        if c.e.val is not None:
            if g[i]["e"] != c.e.val:
                raise HarnessError("filter model disagrees with g++ on `%s`: model %s, g++ %s"
                                   % (c.e.text, c.e.val, g[i]["e"]))
            if g[i]["M"] != c.e.val:
                raise HarnessError("compact spelling `%s` has another value (%s) than `%s` (%s)"
                                   % (c.e.ctext, g[i]["M"], c.e.text, c.e.val))
    bud = Budget()
    rec = observe(b, d, items, bud)
    out = []
    for i, c in items:
        outcome, wrong = judge(c, g[i], rec[i])
        r = rec[i]
        if "bad" in r:
            r = {"bad": r["bad"], "stderr": r["r"]["stderr_tail"][-300:], "rc": r["r"]["rc"]}
        out.append((outcome, wrong, g[i], r, nontrivial(c, g[i])))
    if not keep:
        shutil.rmtree(d, ignore_errors=True)
    return bid, out, bud.crash_isolated


def judge(c, g, rec):
    """compare what the database holds with g++'s values; returns (outcome, wrong list)."""
    if "bad" in rec:
        if rec["bad"] == "rejected":
            # a diagnosed parse error (exit status != 0, no signal): nothing is recorded, so
            # no wrong number exists.  Whether the header should have been accepted is
            # C06's question; C07 leaves the case unjudged.
            return "REJECTED(unjudged)", []
        return rec["bad"].upper(), [("interrogate", rec["bad"], None)]
    wrong, lab = [], []
    for ctx, name in (("e", "enum"), ("n", "inc1"), ("m", "inc2"), ("M", "macro"), ("a", "array")):
        exp, got = g[ctx], rec[ctx]
        if exp is None:
            lab.append("%s=na" % name)
            if got is not None and ctx in ("n", "m", "a"):
                raise HarnessError("database holds %s for a context that was not generated" % name)
            continue
        if got is None or (ctx == "a" and got == -1):
            lab.append("%s=absent" % name)
        elif got == exp:
            lab.append("%s=ok" % name)
        else:
            lab.append("%s=WRONG" % name)
            wrong.append((name, got, exp))
    return ",".join(lab), wrong


def nontrivial(c, g):
    return c.e.nops >= 1 and g["e"] not in c.e.leaves


def run_group(ck, b, items, target, tag):
    """a small header holding `items` [(index, case)...] run on its own: fresh directory,
    g++ and interrogate; judges the case with index `target`.  Returns (outcome, wrong, g,
    rec)."""
    d = ck.scratch(tag)
    with open(os.path.join(d, "h.h"), "w") as f:
        f.write(render_header(items))
    g = gxx_values(d, items)[target]
    r = interrogate_once(b, d, items, "s")
    if r.rc == 0 and not r.timeout:
        rec = read_db(b, d, items, "s")[target]
    else:
        rec = {"bad": bad_kind(r), "r": r.brief()}
    c = dict(items)[target]
    outcome, wrong = judge(c, g, rec)
    shutil.rmtree(d, ignore_errors=True)
    return outcome, wrong, g, rec


def minimise(ck, b, cases, i, g, tag):
    """The case with index i failed inside its batch.  Returns the smallest group of
    batch-mates (indices, possibly empty) found that still makes it fail: [] when it fails
    alone; otherwise a bisected subset (interrogate interns types/expressions, so a
    declaration can change what is recorded for a later one).  None if the failure does not
    reproduce even with the whole batch."""
    d = ck.scratch(tag)
    n = [0]

    def fails(idx):
        n[0] += 1
        items = [(j, cases[j]) for j in sorted(set(idx) | {i})]
        r = interrogate_once(b, d, items, "m%d" % n[0])
        if r.rc == 0 and not r.timeout:
            rec = read_db(b, d, items, "m%d" % n[0])[i]
        else:
            rec = {"bad": bad_kind(r), "r": r.brief()}
        return bool(judge(cases[i], g, rec)[1])

    try:
        if fails([]):
            return []
        S = [j for j in range(len(cases)) if j != i]
        if not fails(S):
            return None
        while len(S) > 1:
            h = len(S) // 2
            if fails(S[:h]):
                S = S[:h]
            elif fails(S[h:]):
                S = S[h:]
            else:
                break
        return S
    finally:
        shutil.rmtree(d, ignore_errors=True)


def describe(wrong):
    return "; ".join("%s: recorded %s, g++ computes %s" % (n, got, exp) if exp is not None
                     else "%s: %s on a well-formed header" % (n, got) for n, got, exp in wrong)


# ------------------------------------------------------------------------------ spaces
def spaces(tier):
    """ordered list of (bound name, family, generator factory)."""
    Lp = X.lits()
    C = X.lits(X.CORE)
    C3 = X.lits(X.CORE3)
    thorough = tier == "thorough"

    def d1():
        for e in Lp:                       # depth 0: the bare literals and references
            yield e
        for e in X.depth1(Lp, tern_branches=C):
            yield e

    def d1c():
        return list(X.depth1(C))

    def d2core():
        D = d1c()
        for g in (X.wrap1(D), X.extend_binary(D, C), X.extend_ternary(D, C)):
            for e in g:
                yield e

    sp = [("depth0 + depth1 over L+refs (ternary branches over core)", "d1", d1),
          ("textual object-like macro R_TXT, depth 1", "textual", X.macro_text_family),
          ("depth2 over 6-literal core", "d2core", d2core)]
    if thorough:
        def d1tern():
            for c in Lp:
                for a in Lp:
                    for bb in Lp:
                        yield X.ternary(c, a, bb)

        def d2L():
            # the qualified reference RS::r_ms stays at depth <= 1: `RS::r_ms < x` is taken for
            # a template-id and rejected (unjudged here, C06's business), and thousands of
            # rejected headers would only cost bisection time
            L2 = [l for l in Lp if "::" not in l.text]
            D = list(X.depth1(L2, with_ternary=False))
            for e in X.wrap1(D):
                yield e
            for e in X.extend_binary(D, C):
                yield e
            for e in X.extend_binary(d1c(), L2):
                yield e

        def d2pairs():
            B3 = list(X.depth1(C3, with_ternary=False))
            return X.pair_binary(B3, B3)

        def d3():
            B3 = [e for e in X.depth1(C3, with_ternary=False) if e.shape[0] in "BU"]
            X2 = list(X.extend_binary(B3, C3))
            for e in X.wrap1(X2):
                yield e
            for e in X.extend_binary(X2, C3):
                yield e
            for e in X.extend_ternary(X2, C3[:2]):
                yield e

        sp += [("depth1 ternary over (L+refs)^3", "d1tern", d1tern),
               ("depth2: (depth1 over L+refs) x core and (depth1 over core) x L+refs", "d2L", d2L),
               ("depth2: binary of two depth-1 expressions over {1,2,7}", "d2pairs", d2pairs),
               ("depth3 over {1,2,7} (binary/unary chains)", "d3", d3)]
    return sp


# -------------------------------------------------------------------------------- main
def main():
    ck = Check(PID, level="model_checking")
    try:
        return explore(ck)
    finally:
        ck.cleanup()      # scratch is removed on harness errors too (unless --keep)


def explore(ck):
    b = build.build("rel")
    if ck.replay:
        return replay(ck, b)
    bud = Budget()
    filtered = {}
    seen = set()
    completed = []
    nbatch = [0]
    rejected = []

    def absorb(res, store):
        fails = []
        for bid, out, iso in res:
            bud.crash_isolated += iso
            for i, (outcome, wrong, g, rec, nt) in enumerate(out):
                c = store[bid][i]
                if outcome == "UNISOLATED":
                    bud.unisolated += 1
                    continue
                if outcome.startswith("REJECTED") and len(rejected) < 40:
                    rejected.append({"expr": c.e.text, "stderr": rec["stderr"]})
                ck.note(c.e.text, nontrivial=nt, outcome=outcome, family=c.family,
                        sample={"expr": c.e.text, "gxx": g, "database": rec},
                        transitions=sum(1 for k in g.values() if k is not None))
                if wrong:
                    fails.append((bid, i, c, wrong, g, rec))
        return fails

    def report(fails, store):
        fails.sort(key=lambda t: (t[0], t[1]))
        for bid, i, c, wrong, g, rec in fails:
            sig = (tuple(sorted(set(w[0] for w in wrong))), c.e.shape,
                   rec.get("stderr", "")[-40:] if "bad" in rec else "")
            if bud.reported >= MAX_REPORT or bud.per_sig.get(sig, 0) >= MAX_PER_SIGNATURE:
                bud.suppressed += 1
                continue
            bud.per_sig[sig] = bud.per_sig.get(sig, 0) + 1
            bud.reported += 1
            cases = store[bid]
            mates = minimise(ck, b, cases, i, g, "min-%d-%d" % (bid, i))
            if mates is None:
                raise HarnessError("failure of `%s` did not reproduce when its batch was re-run "
                                   "(batching/harness artefact): %s" % (c.e.text, describe(wrong)))
            group = [(j, cases[j]) for j in sorted(set(mates) | {i})]
            n = [0]

            def confirm():
                n[0] += 1
                o, w, _, _ = run_group(ck, b, group, i, "confirm-%d-%d-%d" % (bid, i, n[0]))
                return bool(w)
            key = c.e.text
            what = "`%s`: %s" % (c.e.text, describe(wrong))
            if mates:
                key += "  @with  " + " ;; ".join(cases[j].e.text for j in mates)
                what += "  -- only when the header also declares: " + \
                        ", ".join("`%s`" % cases[j].e.text for j in mates[:4])
            observed = ";".join("%s=%s" % (w[0], w[1]) for w in wrong)
            ck.fail(key, what,
                    {"observed": observed, "target": i,
                     "group": [[j, cj.spec()] for j, cj in group], "gxx": g,
                     "database": rec,
                     "header": render_header(group)}, confirm=confirm)

    for bound, family, gen in spaces(ck.tier):
        if ck.only and family not in ck.only:
            continue
        if ck.expired(reserve=20):
            ck.cap("deadline before bound '%s'" % bound)
            break
        cur, batches, cut = [], [], False

        def flush(batches):
            store = dict(batches)
            jobs = [(bid, os.path.join(ck.scratch(), "b%d" % bid), b, cases, ck.keep)
                    for bid, cases in batches]
            res = pmap_proc(batch_worker, jobs)
            report(absorb(res, store), store)

        for e in gen():
            if e.val is None and e.why != "textual":
                k = e.why.split(":")[0]
                filtered[k] = filtered.get(k, 0) + 1
                continue
            if e.text in seen:
                continue
            seen.add(e.text)
            cur.append(Case(e, family))
            if len(cur) == BATCH:
                batches.append((nbatch[0], cur))
                nbatch[0] += 1
                cur = []
                if len(batches) == 32:
                    flush(batches)
                    batches = []
                    if ck.expired(reserve=20):
                        cut = True
                        break
        if cut:
            ck.cap("deadline inside bound '%s' after %d expressions" % (bound, ck.evaluations))
            break
        if cur:
            batches.append((nbatch[0], cur))
            nbatch[0] += 1
        if batches:
            flush(batches)
        completed.append(bound)

    if bud.suppressed:
        print("%s: %d further failing expressions not reported individually (caps: %d per "
              "failure signature, %d in all)" % (PID, bud.suppressed, MAX_PER_SIGNATURE, MAX_REPORT),
              flush=True)
    if bud.unisolated:
        ck.cap("%d expressions in crashing batches left unexplored (more than %d crashing "
               "expressions isolated in one batch)" % (bud.unisolated, CRASH_ISOLATE_CAP))
    return ck.finish(
        rule="one case = one integer constant expression (canonical minimal-parenthesis text), "
             "recorded in up to five places (explicit enumerator, two implicit increments, macro "
             "constant, array bound) and compared with g++; non-trivial = it has an operator and "
             "g++'s value differs from every leaf literal's value",
        exhaustive=True,
        bound="; ".join(completed) if completed else None,
        assumptions=["well-formedness and values are decided by g++ 12 -std=c++17 on x86-64 "
                     "(char signed, int 32 bit, arithmetic >> of negative values)",
                     "expressions with an evaluated intermediate that is undefined or outside int "
                     "(after the usual arithmetic conversions) are outside the property and are "
                     "filtered by a Python model; the model is cross-checked against g++ on every "
                     "case it lets through",
                     "a header interrogate rejects with a diagnosed parse error records nothing: "
                     "left unjudged here (outcome REJECTED), see rejected_examples"],
        min_nontrivial=50,
        extra={"filtered_out": filtered, "batches": nbatch[0], "batch_size": BATCH,
               "failing_not_reported_individually": bud.suppressed,
               "crash_isolated": bud.crash_isolated, "unisolated": bud.unisolated,
               "rejected_examples": rejected})


def replay(ck, b):
    rp = ck.load_replay()
    det = rp["detail"]
    group = [(j, Spec(sp)) for j, sp in det["group"]]
    target = det["target"]
    c = dict(group)[target]
    print("expression: %s   (macro spelling: %s)" % (c.e.text, c.e.ctext))
    print(render_header(group))
    outcome, wrong, g, rec = run_group(ck, b, group, target, "replay")
    print("g++      :", g)
    print("database :", rec)
    print("outcome  :", outcome)
    if wrong:
        print("STILL FAILING:", describe(wrong))
    ck.cleanup()
    return 1 if wrong else 0


if __name__ == "__main__":
    run_main(main)
