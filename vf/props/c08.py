"""C08 -- macro expansion yields the token sequence a conforming preprocessor yields.

Shape S (small-scope exhaustive program enumeration), oracle `gcc -E -P`.

One case = one macro program: a definition of the macro under test M (object-like, or
function-like with 0/1/2 parameters, `...`, named variadic), optional helper macros
G (function-like) and O (object-like), an optional directive sequence between definition
and use (#undef, redefinition, push_macro/pop_macro; initial definition by #define or by
-D on the command line) and one use of M.  Bodies are ALL node strings up to length n
over the node alphabet of DESIGN 4/C08; invocations take their arguments from the
argument alphabet.  Cases are rendered with names unique to the case (M17, G17, O17),
batched some hundreds per file between marker declarations `int __case_17__;`, and the
token stream `parse_file -E` prints between two markers is compared, token by token
(vf/tok.py), with what gcc prints for the same file.

Families
  obj    object-like bodies x uses
  fn     function-like bodies x invocations
  gnu    cases that contain `, ## __VA_ARGS__`: ISO and GNU differ on purpose when the
         variable part is absent, so `-std=c++20` and `-std=gnu++20` are both run and
         either token sequence is accepted
  dir    directive sequences (#undef / redefinition / push_macro / pop_macro / -D)
  chain  paste chains op##op##op(##op) over a three-parameter macro and a literal, with
         every combination of empty / non-empty arguments (placemarkers inside a chain)
  self   bodies that mention the macro itself (time-boxed, small batches: a runaway
         expansion must not starve the rest)
  cycle  definition SETS that form cycles (2-, 3-, 4-cycles, a tail into a cycle) over
         object-like and function-like macros x use (plain, argument of an identity macro,
         nested, stringified, pasted, argument of a macro of the cycle, body of a later
         macro, #if); time-boxed like self
  nest   the same function-like macro nested in its own arguments to depth 4 (thorough 5)
         through each argument position of 1- and 2-parameter macros (identity, parameter
         used twice, # and ## on the parameter), alone, inside an argument of a different
         macro, alternating with a different macro

A case the oracle itself rejects (gcc prints an error located in the case: invalid
paste, wrong argument count) or whose pasted token is a pp-token but not a C++ token
(`"s"u`) is ill-formed and is counted under an `unjudged-*` outcome, never judged.
"""
import hashlib
import itertools
import os
import re
import sys

from vf import build, tok, tools
from vf.core import Check, HarnessError, pmap_proc, run_main

PID = "C08"
GCC_STDS = ("c++20",)
GNU_STDS = ("c++20", "gnu++20")

# ---------------------------------------------------------------------------- alphabet
SIGS = {
    "f0": [], "f1": ["x"], "f2": ["x", "y"],
    "v0": ["..."], "v1": ["x", "..."], "n0": ["r..."], "n1": ["x", "r..."],
}


def sig_info(sig):
    ps = SIGS[sig]
    has_x = "x" in ps
    has_y = "y" in ps
    va = None
    if "..." in ps:
        va = "__VA_ARGS__"
    elif "r..." in ps:
        va = "r"
    return has_x, has_y, va


def fn_nodes(sig, self_nodes=False):
    """Node alphabet available to a function-like macro of this signature:
    list of (symbol, text with {k})."""
    has_x, has_y, va = sig_info(sig)
    n = []
    if has_x:
        n += [("x", "x"), ("#x", "#x"), ("a##x", "a##x"), ("x##u", "x##u"),
              ("x##y", "x##y") if has_y else ("x##x", "x##x"),
              ("G(x)", "G{k}(x)")]
        if has_y:
            n += [("y", "y")]
    else:
        n += [("G(7)", "G{k}(7)")]
    n += [("7", "7"), ("str", '"x,G{k}  #x"'), ("+", "+")]
    if va:
        n += [("VA", va), ("#VA", "#" + va), (",##VA", ",##" + va), ("VAOPT", "__VA_OPT__(,)")]
        if not has_x:
            n += [("G(VA)", "G{k}(%s)" % va)]
    if self_nodes:
        arg = "x" if has_x else (va or "")
        if has_y:
            arg = "x,y"
        n += [("M(x)", "M{k}(%s)" % arg), ("Mname", "M{k}")]
    return n


def obj_nodes(self_nodes=False):
    n = [("a", "a"), ("7", "7"), ("str", '"O{k},M{k}"'), ("+", "+"), ("O", "O{k}"),
         ("Gname", "G{k}"), ("G(1)", "G{k}(1)"), ("a##b", "a##b"), ("O##b", "O{k}##b")]
    if self_nodes:
        n += [("M", "M{k}"), ("G(M)", "G{k}(M{k})")]
    return n


ARGS = [
    ("id", "p"), ("num", "1"), ("empty", ""), ("paren", "(a,b)"), ("str", '"s,t"'),
    ("chr", "','"), ("O", "O{k}"), ("G()", "G{k}(2)"), ("M()", None), ("nl", "p\n  q"),
    ("sp", " p   +q "), ("esc", '"O{k}\\"r\\n"'),
]
ARGD = dict(ARGS)
PASTE_NODES = {"a##x", "x##u", "x##y", "x##x", ",##VA"}
SIMPLE_ARGS = ["id", "num", "empty"]


def arg_text(a, sig, k):
    if a == "M()":
        # invocation of the same macro as an argument, itself with plain arguments
        inner = {"f0": "", "f1": "p", "f2": "p,q", "v0": "p,q", "v1": "p,q", "n0": "p,q",
                 "n1": "p,q", "f3": "p,q,r"}[sig]
        return "M%d(%s)" % (k, inner)
    return ARGD[a].replace("{k}", str(k))


def invocations(sig, thorough):
    """All argument tuples for one signature: list of (form, (arg symbols...))."""
    A = [a for a, _ in ARGS]
    out = [("noparen", ())]
    ps = SIGS[sig]
    if sig == "f0":
        out += [("call", ()), ("nlcall", ())]
    elif sig == "f1":
        out += [("call", (a,)) for a in A] + [("nlcall", ("id",))]
    elif sig == "f2":
        pairs = set()
        for a in A:
            pairs.add((a, "id"))
            pairs.add(("id", a))
            pairs.add((a, a))
            pairs.add((a, "empty"))
            pairs.add(("empty", a))
        if thorough:
            pairs = set(itertools.product(A, A))
        out += [("call", p) for p in sorted(pairs, key=lambda p: (A.index(p[0]), A.index(p[1])))]
        out += [("nlcall", ("id", "num"))]
    elif sig in ("v0", "n0"):
        out += [("call", ())] + [("call", (a,)) for a in A]
        two = [(a, b) for a in A for b in (A if thorough else SIMPLE_ARGS + ["paren", "str"])]
        out += [("call", p) for p in two]
        out += [("call", ("id", "num", "id")), ("call", ("id", "empty", "empty"))]
    else:  # v1 / n1: fixed parameter + variable part
        out += [("call", (a,)) for a in A]                       # variable part absent
        two = [(a, b) for a in (A if thorough else SIMPLE_ARGS + ["paren", "O"]) for b in A]
        out += [("call", p) for p in two]                        # one variable argument (maybe empty)
        out += [("call", ("id", a, b)) for a in SIMPLE_ARGS + ["paren"] for b in SIMPLE_ARGS + ["str"]]
    return out


def key_of(c):
    if c["fam"] == "nest":
        return "nest|%s|%s|%s|d%d|%s" % (c["kind"], c["pattern"], c["wrap"], c["depth"], c["leaf"])
    if c["fam"] == "cycle":
        return "cycle|%s|%s|%s|%s" % (c["shape"], c["kinds"], c["bodyform"], c["use"])
    if c["fam"] == "dir":
        return "dir|%s|%s|%s" % (c["kind"], c["init"], ",".join(c["ops"]) or "-")
    return "%s|%s|%s|%s|%s" % (c["fam"], c["sig"], " ".join(c["body"]), c["form"],
                                ",".join(c["args"]) or "-")


# ---------------------------------------------------------------------------- enumeration
def gen_obj(ln):
    nodes = [s for s, _ in obj_nodes()]
    for body in itertools.product(nodes, repeat=ln):
        for form in ("use", "use(1)"):
            yield dict(fam="obj", sig="obj", body=list(body), form=form, args=[])


def gen_dir(ln):
    for seq in itertools.product(["undef", "redef", "push", "pop"], repeat=ln):
        for init in ("define", "D", "none"):
            for kind in ("obj", "fn"):
                yield dict(fam="dir", kind=kind, init=init, ops=list(seq))


def gen_fn(ln, thorough, which):
    """Function-like bodies of exactly ln nodes x invocations.  which: 'fn' | 'gnu' |
    'selfarg' (the cases that belong to the self family because a nested invocation of M
    is an operand of ##: such an operand is not pre-expanded, so the invocation is rescanned
    inside M's own expansion)."""
    for sig in SIGS:
        nodes = [s for s, _ in fn_nodes(sig)]
        invs = invocations(sig, thorough)
        for body in itertools.product(nodes, repeat=ln):
            gnu = ",##VA" in body
            pastes = bool(PASTE_NODES & set(body))
            for form, args in invs:
                if pastes and "M()" in args:
                    fam = "self"
                    if which != "selfarg":
                        continue
                else:
                    fam = "gnu" if gnu else "fn"
                    if fam != which:
                        continue
                yield dict(fam=fam, sig=sig, body=list(body), form=form, args=list(args))


# definition SETS that form cycles: shape -> (number of macros, successor of macro i)
CYCLE_SHAPES = {
    "cyc1": (1, [0]),                     # plain self-reference, as the base of the series
    "cyc2": (2, [1, 0]),
    "cyc3": (3, [1, 2, 0]),
    "tail-cyc2": (3, [1, 2, 1]),          # entry macro leads into a 2-cycle
    "tail-cyc3": (4, [1, 2, 3, 1]),
    "cyc4": (4, [1, 2, 3, 0]),            # thorough only
    "tail2-cyc2": (4, [1, 2, 3, 2]),      # thorough only
}
CYCLE_USES = ["plain", "idarg", "idarg2", "strarg", "pastel", "paster", "selfarg", "later",
              "laterfn", "if"]


def gen_cycle(thorough):
    """Mutually recursive macros: every shape x every object-like/function-like
    assignment x body form x use.  A conforming preprocessor leaves a macro name alone
    once that macro is already being replaced (FIRST -> SECOND -> FIRST stops)."""
    shapes = ["cyc1", "cyc2", "cyc3", "tail-cyc2", "tail-cyc3"] + \
             (["cyc4", "tail2-cyc2"] if thorough else [])
    for shape in shapes:
        n = CYCLE_SHAPES[shape][0]
        for kinds in itertools.product("of", repeat=n):
            # body form "tok" (t<i> TARGET u<i>) makes every round of replacement visible in
            # the output; the number of rounds does not depend on the length of the cycle,
            # so it is crossed with the two shortest shapes only
            for bodyform in (("bare", "tok") if shape in ("cyc1", "cyc2") else ("bare",)):
                for use in CYCLE_USES:
                    yield dict(fam="cycle", shape=shape, kinds="".join(kinds), bodyform=bodyform,
                               use=use)


def render_cycle(c, K):
    n, succ = CYCLE_SHAPES[c["shape"]]
    kinds = c["kinds"]
    name = ["C%s%s" % ("abcd"[i], K) for i in range(n)]
    L = []
    for i in range(n):
        t = succ[i]
        if kinds[t] == "f":
            tgt = "%s(%s)" % (name[t], "x" if kinds[i] == "f" else "1")
        else:
            tgt = name[t]
        body = tgt if c["bodyform"] == "bare" else "t%d %s u%d" % (i, tgt, i)
        L.append("#define %s%s %s" % (name[i], "(x)" if kinds[i] == "f" else "", body))
    E = name[0] + ("(p)" if kinds[0] == "f" else "")        # the use of the entry macro
    use = c["use"]
    pre, line = [], None
    if use == "plain":
        line = "%s ;" % E
    elif use == "idarg":
        pre, line = ["#define I%s(x) x" % K], "I%s(%s) ;" % (K, E)
    elif use == "idarg2":
        pre, line = ["#define I%s(x) x" % K], "I%s(I%s(%s)) ;" % (K, K, E)
    elif use == "strarg":
        pre, line = ["#define S%s(x) #x x" % K], "S%s(%s) ;" % (K, E)
    elif use == "pastel":
        pre, line = ["#define P%s(x,y) x##y" % K], "P%s(,%s) ;" % (K, E)
    elif use == "paster":
        pre, line = ["#define P%s(x,y) x##y" % K], "P%s(%s,) ;" % (K, E)
    elif use == "selfarg":      # the entry macro as argument of a macro of the cycle
        j = kinds.find("f")
        if j < 0:
            pre, line = ["#define I%s(x) [x]" % K], "I%s(%s %s) ;" % (K, E, name[-1])
        else:
            line = "%s(%s) ;" % (name[j], E)
    elif use == "later":
        pre, line = ["#define L%s %s" % (K, E)], "L%s ;" % K
    elif use == "laterfn":
        pre, line = ["#define L%s(x) x %s" % (K, E)], "L%s(%s) ;" % (K, E)
    elif use == "if":
        line = "#if %s == 0\nint zero;\n#else\nint nonzero;\n#endif" % E
    return L + pre + ["int __case_%s__;" % K] + line.split("\n"), [], None


# macros nested in their own arguments: kind -> (parameters, body)
NEST_KINDS = {
    "id": ("x", "x"),
    "twice": ("x", "((x)+(x))"),
    "str": ("x", "#x x"),
    "paste": ("x", "a##x x"),
    "add": ("x,y", "((x)+(y))"),
    "max": ("x,y", "((x)>(y)?(x):(y))"),
    "str2": ("x,y", "#x + y"),
    "cat": ("x,y", "x##y x y"),
}
NEST_PATTERNS = {1: ["only"], 2: ["first", "second", "both"]}
NEST_WRAPS = ["none", "inD", "alt", "inDarg2"]


def gen_nest(thorough):
    """The SAME function-like macro nested in its own arguments to depth 1..4 (thorough 5),
    through each argument position, alone, inside an argument of a different macro, and
    alternating with a different macro: every level must be replaced (arguments are
    expanded in the caller's context, where the macro is still available)."""
    for kind, (params, _) in NEST_KINDS.items():
        for pattern in NEST_PATTERNS[params.count(",") + 1]:
            for wrap in NEST_WRAPS:
                for depth in range(1, (5 if thorough else 4) + 1):
                    if pattern == "both" and depth > 4:
                        continue
                    for leaf in ("num", "O"):
                        yield dict(fam="nest", kind=kind, pattern=pattern, wrap=wrap, depth=depth,
                                   leaf=leaf)


def render_nest(c, K):
    params, body = NEST_KINDS[c["kind"]]
    M, D = "N" + K, "D" + K
    counter = [0]

    def leaf():
        counter[0] += 1
        return ("O%s" % K) if (c["leaf"] == "O" and counter[0] == 1) else str(counter[0])

    def call(d):
        """invocation of M with nesting depth d"""
        if d == 0:
            return leaf()
        inner = lambda: call(d - 1)
        if c["wrap"] == "alt" and d < c["depth"]:
            inner = lambda: "%s(%s)" % (D, call(d - 1)) if d - 1 > 0 else leaf()
        if "," not in params:
            return "%s(%s)" % (M, inner())
        if c["pattern"] == "first":
            return "%s(%s, %s)" % (M, inner(), leaf())
        if c["pattern"] == "second":
            return "%s(%s, %s)" % (M, leaf(), inner())
        return "%s(%s, %s)" % (M, inner(), inner())
    text = call(c["depth"])
    if c["wrap"] == "inD":
        text = "%s(%s)" % (D, text)
    elif c["wrap"] == "inDarg2":
        text = "%s2(0, %s)" % (D, text)
    L = ["#define %s(%s) %s" % (M, params, body), "#define %s(z) [z]" % D,
         "#define %s2(w,z) {w z}" % D]
    if c["leaf"] == "O":
        L.append("#define O%s o1 o2" % K)
    return L + ["int __case_%s__;" % K, text + " ;"], [], None


CHAIN_PARAMS = ["x", "y", "z"]
CHAIN_OPS = ["x", "y", "z", "k"]           # three parameters and a literal identifier
CHAIN_CTX = [((), ()), (("7",), ()), ((), ("7",)), (("+",), ("+",))]


def gen_chain(nops, thorough):
    """Paste CHAINS: op1##op2##...##opN (N = nops >= 3) over the parameters of a
    three-parameter macro and a literal, alone or between other body tokens, invoked
    with every combination of empty / identifier / number (thorough: / macro name)
    arguments -- an empty operand in the middle of a chain is a placemarker that must
    neither break nor glue the chain."""
    vals = ["id", "empty", "num"] + (["O"] if thorough else [])
    argsets = list(itertools.product(vals, repeat=3))
    for ops in itertools.product(CHAIN_OPS, repeat=nops):
        if not set(ops) & set(CHAIN_PARAMS):
            continue
        chain = "##".join(ops)
        for pre, post in CHAIN_CTX:
            for args in argsets:
                yield dict(fam="chain", sig="f3", body=list(pre) + [chain] + list(post),
                           form="call", args=list(args))


def gen_self(ln, thorough):
    """Bodies that mention the macro itself."""
    nodes = [s for s, _ in obj_nodes(True)]
    for body in itertools.product(nodes, repeat=ln):
        if {"M", "G(M)"} & set(body):
            for form in ("use", "use(1)"):
                yield dict(fam="self", sig="obj", body=list(body), form=form, args=[])
    for sig in SIGS:
        if ln >= 3 and sig not in ("f1", "f2", "v1"):
            continue
        nodes = [s for s, _ in fn_nodes(sig, True)]
        invs = invocations(sig, False)
        if not thorough or ln >= 3:
            invs = [i for i in invs
                    if all(a in ("id", "num", "empty", "M()", "paren", "O") for a in i[1])]
        for body in itertools.product(nodes, repeat=ln):
            if not {"M(x)", "Mname"} & set(body):
                continue
            for form, args in invs:
                yield dict(fam="self", sig=sig, body=list(body), form=form, args=list(args))
    for c in gen_fn(ln, thorough, "selfarg"):
        yield c


def stages(tier):
    """[(family, bound index, generator thunk)] in canonical order, simplest first."""
    thorough = tier == "thorough"
    n = 3 if thorough else 2
    st = []
    for ln in range(0, (4 if thorough else 3) + 1):
        st.append(("obj", ln, lambda ln=ln: gen_obj(ln)))
    for ln in range(0, (4 if thorough else 3) + 1):
        st.append(("dir", ln, lambda ln=ln: gen_dir(ln)))
    for ln in range(0, n + 1):
        st.append(("fn", ln, lambda ln=ln: gen_fn(ln, thorough, "fn")))
    for ln in range(1, n + 1):
        st.append(("gnu", ln, lambda ln=ln: gen_fn(ln, thorough, "gnu")))
    for nops in range(3, (4 if thorough else 3) + 1):
        st.append(("chain", nops, lambda nops=nops: gen_chain(nops, thorough)))
    for ln in range(1, n + 1):
        st.append(("self", ln, lambda ln=ln: gen_self(ln, thorough)))
    st.append(("cycle", 4 if thorough else 3, lambda: gen_cycle(thorough)))
    st.append(("nest", 5 if thorough else 4, lambda: gen_nest(thorough)))
    return st


def enumerate_cases(tier, only=None):
    """Everything at once (development helper)."""
    fams = {}
    for fam, ln, thunk in stages(tier):
        if only is None or fam in only:
            fams.setdefault(fam, []).extend(thunk())
    return fams


# ---------------------------------------------------------------------------- rendering
def render(c, k):
    """Returns (lines, cmdline -D list, static_unjudged or None)."""
    K = str(k)
    lines = []
    defs = []
    unj = None
    if c["fam"] == "cycle":
        return render_cycle(c, K)
    if c["fam"] == "nest":
        return render_nest(c, K)
    if c["fam"] == "dir":
        kind = c["kind"]
        head = "M%s(x)" % K if kind == "fn" else "M%s" % K

        def body(i):
            return ("x v%d" % i) if kind == "fn" else ("v%d" % i)
        ver = 0
        if c["init"] == "define":
            lines.append("#define %s %s" % (head, body(0)))
        elif c["init"] == "D":
            defs.append("-D%s=%s" % (head, body(0)))
        for op in c["ops"]:
            if op == "undef":
                lines.append("#undef M%s" % K)
            elif op == "redef":
                ver += 1
                lines.append("#define %s %s" % (head, body(ver)))
            elif op == "push":
                lines.append('#pragma push_macro("M%s")' % K)
            elif op == "pop":
                lines.append('#pragma pop_macro("M%s")' % K)
        lines.append("int __case_%s__;" % K)
        lines.append(("M%s(1) M%s ;" if kind == "fn" else "M%s M%s ;") % (K, K))
        return lines, defs, None

    sig = c["sig"]
    if sig == "obj":
        nd = dict(obj_nodes(True))
    elif sig == "f3":
        nd = {s: s for s in c["body"]}        # chain family: nodes are written as spelled
    else:
        nd = dict(fn_nodes(sig, True))
    body = " ".join(nd[s] for s in c["body"]).replace("{k}", K)
    argt = [arg_text(a, sig, k) for a in c["args"]]
    text = body + " " + " ".join(argt)
    if ("G" + K) in text:
        lines.append("#define G%s(z) [z]" % K)
    if ("O" + K) in text:
        lines.append("#define O%s o1 o2" % K)
    if sig == "obj":
        lines.append(("#define M%s %s" % (K, body)).rstrip())
    else:
        params = CHAIN_PARAMS if sig == "f3" else SIGS[sig]
        lines.append(("#define M%s(%s) %s" % (K, ",".join(params), body)).rstrip())
    lines.append("int __case_%s__;" % K)
    form = c["form"]
    if form == "use":
        lines.append("M%s ;" % K)
    elif form == "use(1)":
        lines.append("M%s (1) ;" % K)
    elif form == "noparen":
        lines.append("M%s + 1 ;" % K)
    elif form == "call":
        lines.append("M%s(%s) ;" % (K, ",".join(argt)))
    elif form == "nlcall":
        lines.append("M%s\n  (%s) ;" % (K, ",".join(argt)))
    else:
        raise HarnessError("unknown form " + form)
    return lines, defs, unj


def render_file(cases):
    """cases: list of (k, case).  Returns text, defs, {k: (first_line, last_line)}, {k: unj}."""
    out = []
    defs = []
    span = {}
    unj = {}
    ln = 1
    for k, c in cases:
        lines, d, u = render(c, k)
        block = "\n".join(lines) + "\n"
        nl = block.count("\n")
        span[k] = (ln, ln + nl - 1)
        ln += nl
        out.append(block)
        defs += d
        if u:
            unj[k] = u
    out.append("int __case_0__;\n")
    return "".join(out), defs, span, unj


# ---------------------------------------------------------------------------- execution
_ERR = re.compile(r"^(?:[^:\n]*):(\d+):(?:\d+:)? (fatal error|error|warning): (.*)$", re.M)


def diag_lines(stderr, what="error"):
    out = []
    for m in _ERR.finditer(stderr):
        if m.group(2).endswith(what):
            out.append((int(m.group(1)), m.group(3)))
    return out


def attribute(diags, span):
    by = {}
    for line, msg in diags:
        for k, (a, b) in span.items():
            if a <= line <= b:
                by.setdefault(k, []).append(msg)
                break
        else:
            by.setdefault(None, []).append("%d: %s" % (line, msg))
    return by


def gcc_cmd(std, defs, fname):
    return ["gcc", "-E", "-P", "-x", "c++", "-std=" + std, "-w"] + defs + [fname]


def run_file(cfg, name, cases, stds, timeout):
    """Run one rendered file through interrogate (rel), the oracles, and (optionally) the
    asan build.  Returns {k: verdict dict}."""
    d = cfg["dir"]
    text, defs, span, unj = render_file(cases)
    fname = name + ".h"
    with open(os.path.join(d, fname), "w") as f:
        f.write(text)
    ks = [k for k, _ in cases]
    res = {}
    # --- oracle(s)
    oracle = []        # list of (std, {k: tokens}, {k: [errors]})
    for std in stds:
        g = tools.run(gcc_cmd(std, defs, fname), cwd=d, timeout=120)
        if g.timeout or g.rc is None or g.rc < 0:
            raise HarnessError("oracle gcc failed to run on %s: %s" % (fname, g.brief()))
        gerr = attribute(diag_lines(g.err, "error"), span)
        if None in gerr:
            raise HarnessError("oracle error outside any case in %s: %s" % (fname, gerr[None][:3]))
        if g.rc != 0 and not gerr:
            raise HarnessError("oracle gcc exit %s without a located error: %s" % (g.rc, g.brief()))
        _, gc, gorder = tok.split_cases(tok.tokenize(g.out))
        oracle.append((std, gc, gerr, gorder))
    # --- interrogate
    b = cfg["rel"]
    r = tools.run([b["parse_file"], "-E"] + defs + [fname], cwd=d, timeout=timeout, b=b)
    crashed = r.timeout or r.rc is None or r.rc < 0 or r.rc not in (0, 1)
    ierr = attribute(diag_lines(r.err, "error"), span)
    _, ic, iorder = tok.split_cases(tok.tokenize(r.out))
    complete = (not crashed) and iorder[-1:] == [0]
    # --- asan pass (crashes, memory errors); token stream must be the same text
    asan_bad = None
    if cfg.get("asan") and not crashed:
        ba = cfg["asan"]
        ra = tools.run([ba["parse_file"], "-E"] + defs + [fname], cwd=d, timeout=timeout * 5, b=ba)
        if ra.timeout or ra.sanitizer or ra.rc not in (0, 1) or ra.out != r.out:
            asan_bad = {"rc": ra.rc, "timeout": ra.timeout, "stderr_tail": ra.err[-1200:],
                        "same_output": ra.out == r.out}
    for k, c in cases:
        v = {"k": k}
        gtoks = [o[1].get(k) for o in oracle]
        if k in unj:
            v["status"] = unj[k]
        elif any(k in o[2] for o in oracle):
            v["status"] = "unjudged-oracle-rejects"
            v["oracle_error"] = [o[2].get(k) for o in oracle]
        elif any(t is not None and any(x[0] in ("num?", "udl", "bad") for x in t) for t in gtoks):
            # the oracle's sequence contains a pp-token that is no C++ token (`1p`, `"s"u`):
            # the program is ill-formed after preprocessing; a lexer may diagnose it
            v["status"] = "unjudged-not-a-c++-token"
        elif any(t is None for t in gtoks) or any(o[3].count(k) != 1 for o in oracle):
            raise HarnessError("marker of case %d lost or duplicated in the oracle output of %s"
                               % (k, fname))
        elif not complete and (k not in ic or k == iorder[-1] or iorder.count(k) != 1):
            v["status"] = "crash" if crashed else "lost"
        elif k not in ic or iorder.count(k) != 1:
            v["status"] = "lost"
        elif k in ierr:
            v["status"] = "error"
            v["errors"] = ierr[k]
        elif ic[k] not in gtoks:
            v["status"] = "mismatch"
        else:
            v["status"] = "ok"
        if gtoks and gtoks[0] is not None:
            v["expected"] = [tok.show(t) for t in gtoks if t is not None]
            v["ntok"] = len(gtoks[0])
        v["observed"] = tok.show(ic[k]) if k in ic else None
        if crashed:
            v["tool"] = {"rc": r.rc, "timeout": r.timeout, "stderr_tail": r.err[-600:]}
        if asan_bad and v["status"] in ("ok",):
            v["status"] = "asan?"       # decided by running the case alone
            v["asan"] = asan_bad
        res[k] = v
    # stray interrogate errors that belong to no case are a batch-level failure
    if None in ierr:
        for k in ks:
            if res[k]["status"] == "ok":
                res[k]["status"] = "stray?"
                res[k]["stray"] = ierr[None][:3]
    if not cfg.get("keep"):
        try:
            os.unlink(os.path.join(d, fname))
        except OSError:
            pass
    return res


BAD = ("mismatch", "error", "crash", "lost", "asan?", "stray?", "asan")


def source_tokens(c, k):
    """Tokens of the use line as written (to decide whether a replacement took place)."""
    lines, _, _ = render(c, k)
    i = lines.index("int __case_%d__;" % k)
    return tok.tokenize("\n".join(lines[i + 1:]))


def run_single(cfg, c, k, stds, timeout, tag="s"):
    """Run one case alone (file with that case only).  Returns the verdict dict."""
    name = "%s%d_%s" % (tag, k, hashlib.sha1(key_of(c).encode()).hexdigest()[:8])
    res = run_file(cfg, name, [(k, c)], stds, timeout)
    v = res[k]
    if v["status"] in ("asan?", "stray?"):
        v["status"] = "asan" if v["status"] == "asan?" else "error"
    return v


def batch_job(job):
    """Top-level (picklable) worker: one batch file; failing cases are re-run alone."""
    cfg, name, cases, stds, timeout = job[:5]
    isolate = job[5] if len(job) > 5 else True
    try:
        res = run_file(cfg, name, cases, stds, timeout)
        out = []
        for k, c in cases:
            v = res[k]
            if v["status"] in BAD and isolate:
                alone = run_single(cfg, c, k, stds, timeout)
                v = dict(alone, batch_status=v["status"])
            try:
                v["nontrivial"] = v.get("expected") is not None and \
                    tok.show(source_tokens(c, k)) not in v["expected"]
            except Exception:
                v["nontrivial"] = False
            out.append((k, v))
        only_in_batch = [k for k, v in out if v.get("batch_status") and v["status"] not in BAD]
        if only_in_batch and not any(v["status"] in BAD for _, v in out):
            # nothing in this file fails alone, so nothing explains the failures inside it
            return ("harness", "cases %s fail inside batch %s but none of its cases fails alone "
                               "(batching artefact or state leaking between cases)"
                    % (only_in_batch[:5], name))
        return ("ok", out)
    except HarnessError as e:
        return ("harness", str(e))


# ---------------------------------------------------------------------------- main
def stds_of(c):
    return GNU_STDS if c["fam"] in ("gnu", "self") else GCC_STDS


MAX_REPORTS = 200          # violations written out per family; further failures are counted


def main():
    ck = Check(PID, level="model_checking")
    try:
        return explore(ck)
    except (HarnessError, KeyboardInterrupt):
        ck.cleanup()
        raise


def explore(ck):
    rel = build.build("rel")
    asan = build.build("asan")
    if tools.run(["gcc", "--version"]).rc != 0:
        raise HarnessError("oracle tool gcc missing")
    cfg = {"dir": ck.scratch(), "rel": rel, "asan": asan, "keep": ck.keep}
    if ck.replay:
        return replay(ck, cfg)
    head = tools.run(["git", "-C", rel["repo"], "rev-parse", "--short", "HEAD"]).out.strip()
    dirty = tools.run(["git", "-C", rel["repo"], "status", "--porcelain", "-uno"]).out.strip()
    ck.extra["tree"] = {"path": rel["repo"], "head": head, "modified_files": dirty.splitlines()}

    thorough = ck.tier == "thorough"
    completed = {}
    reported = {}
    unreported = {}
    dead = set()            # families cut short
    k_next = 1001       # four digits: no identifier of the alphabet ends like a case number
    self_box = 900 if thorough else 120
    box_t0 = {}
    for fam, ln, thunk in stages(ck.tier):
        if ck.only and fam not in ck.only:
            continue
        if fam in dead:
            continue
        is_self = fam in ("self", "cycle", "nest")      # time-boxed families
        if is_self and fam not in box_t0:
            box_t0[fam] = ck.elapsed()
        # self-referential macros get small batches and short limits: a runaway expansion
        # costs one small batch, and the whole family is time-boxed
        bsize = 20 if is_self else 300
        timeout = 3 if is_self else 60
        wave = 32 if is_self else 64
        first_wave = True
        gen = thunk()
        stage_done = True
        while True:
            if ck.expired(reserve=20):
                ck.cap("deadline: family %s stopped inside body length %d" % (fam, ln))
                dead.add(fam)
                stage_done = False
                break
            if is_self and ck.elapsed() - box_t0[fam] > self_box:
                ck.cap("time box (%d s): family %s stopped inside length %d" % (self_box, fam, ln))
                dead.add(fam)
                stage_done = False
                break
            if is_self and not first_wave and not reported.get(fam) and bsize < 200:
                bsize = 200     # nothing ran away so far: ordinary batches from here on
            first_wave = False
            jobs = []
            for _ in range(wave):
                chunk = [(k_next + i, c) for i, c in enumerate(itertools.islice(gen, bsize))]
                if not chunk:
                    break
                k_next += len(chunk)
                # once the report cap of the family is reached, failing cases are only
                # counted (batch verdict), no longer isolated and written out
                jobs.append((cfg, "%s%d_%06d" % (fam, ln, chunk[0][0]), chunk,
                             stds_of(chunk[0][1]), timeout,
                             reported.get(fam, 0) < (20 if is_self else MAX_REPORTS)))
            if not jobs:
                break
            for job, (st, out) in zip(jobs, pmap_proc(batch_job, jobs)):
                if st != "ok":
                    raise HarnessError(out)
                cmap = dict(job[2])
                for k, v in out:
                    c = cmap[k]
                    status = v["status"]
                    ck.note(key_of(c), nontrivial=bool(v.get("nontrivial")) and status == "ok",
                            outcome=status if status != "ok" else
                            ("ok-replaced tokens=%s" % min(v.get("ntok", 0), 16)
                             if v.get("nontrivial") else "ok-identity"),
                            family=fam,
                            sample={"case": c, "expected": v.get("expected"),
                                    "observed": v.get("observed")})
                    if status in BAD:
                        if reported.get(fam, 0) < (20 if is_self else MAX_REPORTS):
                            if report(ck, cfg, c, k, v, timeout) != "known":
                                reported[fam] = reported.get(fam, 0) + 1
                        else:
                            unreported[fam] = unreported.get(fam, 0) + 1
            if is_self and reported.get(fam, 0) >= 20:
                ck.cap("family %s abandoned after 20 reported failures (each confirmed hang "
                       "costs two 10x re-runs)" % fam)
                dead.add(fam)
                stage_done = False
                break
        if stage_done:
            completed[fam] = ln
        print("C08: family %s, length %d: %s; %d cases so far, %.0f s"
              % (fam, ln, "done" if stage_done else "cut", ck.evaluations, ck.elapsed()), flush=True)
    if unreported:
        n = sum(unreported.values())
        print("C08: %d further failing cases were counted but not written out %s"
              % (n, unreported), flush=True)
        ck.violations.append({"key": "(unreported)", "what": "%d further failing cases" % n,
                              "replay": None})
        ck.extra["unreported_failures"] = unreported
    return ck.finish(
        rule="one case = one macro program (definition, optional directive sequence, one use) run "
             "through parse_file -E and gcc -E -P; non-trivial = the oracle's token sequence "
             "differs from the tokens as written, i.e. a macro replacement really took place, "
             "and both preprocessors agree on it",
        exhaustive=True,
        bound="completed per family (body length in nodes; directive-sequence length for dir; "
              "operands per paste chain for chain; macros per definition set for cycle; nesting depth for nest): %s"
              % completed,
        assumptions=["gcc 12 -E -P -std=c++20 is the conforming preprocessor; for `,##__VA_ARGS__` "
                     "(and in the self family) either the ISO (-std=c++20) or the GNU "
                     "(-std=gnu++20) result is accepted",
                     "programs the oracle rejects, and programs whose expansion holds a pp-token "
                     "that is no C++ token (1p, \"s\"u), are ill-formed and counted as unjudged"],
        min_nontrivial=50)


def stable(text, k):
    """Observation with the per-case number taken out of the macro names (M1017 -> M#), so
    that it can be quoted in known_findings.jsonl whatever the position of the case."""
    return None if text is None else re.sub(r"(?<=[A-Za-z_])%d\b" % k, "#", text)


def report(ck, cfg, c, k, v, timeout=10):
    key = key_of(c)
    stds = stds_of(c)
    what = {"mismatch": "token sequence differs from the conforming preprocessor's",
            "error": "interrogate reports an error on a well-formed macro program",
            "crash": "parse_file -E crashed / hung",
            "lost": "output after the case marker is missing or duplicated",
            "asan": "sanitizer report / divergent output on the asan build"}.get(v["status"], v["status"])
    lines, defs, _ = render(c, k)
    detail = {"observed": stable(v.get("observed"), k), "expected": v.get("expected"),
              "status": v["status"],
              "case": c, "k": k, "file": "\n".join(lines) + "\nint __case_0__;\n", "defs": defs,
              "stds": list(stds), "errors": v.get("errors"), "tool": v.get("tool"),
              "asan": v.get("asan"),
              "cmd": "parse_file -E %s case.h  vs  gcc -E -P -x c++ -std=%s -w %s case.h"
                     % (" ".join(defs), stds[0], " ".join(defs))}

    def again():
        # a time-out is only called a hang after a run alone with 10x the limit
        return run_single(cfg, c, k, stds, 10 * timeout, tag="c")["status"] in BAD
    return ck.fail(key, "%s: expected %s, observed %s" % (what, v.get("expected"), v.get("observed")),
                   detail, confirm=again)


def replay(ck, cfg):
    rp = ck.load_replay()
    d = rp["detail"]
    c, k = d["case"], d["k"]
    v = run_single(dict(cfg, keep=True), c, k, tuple(d["stds"]), 100, tag="replay")
    print("case     :", rp["key"])
    print("input    :\n" + d["file"])
    print("-D       :", d["defs"])
    print("expected :", v.get("expected"))
    print("observed :", v.get("observed"))
    print("status   :", v["status"], v.get("errors") or "", v.get("tool") or "", v.get("asan") or "")
    ck.cleanup()
    return 1 if v["status"] in BAD else 0


if __name__ == "__main__":
    run_main(main)
