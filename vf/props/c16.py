"""C16 -- interrogate_module registers every library once, base-class libraries first.

Shape H (exhaustive search over library graphs x command-line orders), every case
executed on the real interrogate_module binary with databases produced by real
interrogate runs.

Alphabet
  k libraries L_0..L_{k-1}.  L_j defines a root class B_j (in its own directory, so that
  for every *other* library it is a foreign, not fully defined type) and, for every edge
  j->t of the dependency graph, either
      kind 1  class D_j_t : public B_t        (inheritance edge)
      kind 2  typedef B_t T_j_t; + forcetype T_j_t + a published function using it
                                               (typedef edge: a global typedef whose
                                                wrapped type is owned by the other library)
  chain depth d > 1: additionally, for every walk j->t->u.. of <= d edges whose later edges
  are inheritance edges, a class C_j_t_u.. : public C_t_u.. (or a forced typedef of it when
  j->t is a typedef edge) -- a class that is referenced from another library AND is itself
  derived across libraries, so the edges of a class first seen as a foreign reference and
  only later defined (made global by the merge) carry ordering obligations.
  Every directed graph (cyclic or not) on k nodes is realisable; databases are generated
  once per distinct (library, set of walks) and reused across graphs (468 for k=3, 3340 for k=4).  Library names are chosen so that the
  alphabetical order (the iteration order of interrogate_module's std::map) is the
  reverse of the index order, and every graph is enumerated with every labelling, so a
  "lucky" alphabetical order cannot hide a wrong ready-set loop.
  x every permutation of the .in files on the command line.
  Failure family: one bad database (missing, ENOTDIR, ELOOP, a directory, empty, garbage,
  wrong version, truncated at EVERY byte offset) at every position among 0..2 good ones,
  with/without a pre-existing output file, back-ends -python-native and -python.

Oracle (parsed from the generated file; PY3 branch and Python-2 branch separately)
  * the extern declarations, the RegisterTypes sequence, the LibraryDef array and the
    BuildInstants sequence each name every library exactly once, all in the same order,
    and both branches agree;
  * for every edge j->t whose endpoints lie in different strongly connected components
    pos(L_t) < pos(L_j);
  * every ordering constraint that is NOT honoured lies on a cycle that was reported;
  * every reported cycle is a real directed cycle of the graph, every reported
    "X (a) inherits from / is a typedef to Y (b)" line names a real edge of that kind;
    acyclic graphs report nothing; cyclic graphs report at least one cycle;
  * exit status 0, termination within 10 s (re-run alone with 100 s before calling it a hang);
  * failure family: exit status non-zero (no signal, no hang) and the output file does
    not exist afterwards.  "Fails to load" is known a priori for every kind except
    prefixes that only drop trailing white space; idbdump (independent observer linking
    the same library) is asked as well and a disagreement is left unjudged (it is C12's
    subject) and counted.
"""
import hashlib
import itertools
import os
import re
import shutil

from vf import build, harness, tools
from vf.core import Check, HarnessError, pmap, pmap_proc, run_main

PID = "C16"
LETTERS = "zyxwvu"


def libname(j):
    return "lib%s%d" % (LETTERS[j], j)


# ----------------------------------------------------------------------------- generation
# A library's content is a set of *walks* in the dependency graph that start at it:
#   (1, (j, t))            class C_j_t       : public B_t          (inheritance edge j->t)
#   (2, (j, t))            typedef B_t T_j_t (forced, used in a published signature)
#   (1, (j, t, u, ...))    class C_j_t_u..   : public C_t_u..      (chain: derives from a class
#                                                                   that another library derived)
#   (2, (j, t, u, ...))    typedef C_t_u.. T_j_t_u..
# Only the first edge of a walk may be a typedef edge, all later edges are inheritance
# edges (the class C_t_u.. has to exist).  Every class lives in its own header
# l<v0>/c_<walk>.h, so that another library can include exactly that class as a foreign file.
# Library content styles (one per library, part of the alphabet):
#   0 ordinary       classes with published constructor and method, typedef edges used in a
#                    published function                      -> the library has functions
#   1 function-less  classes with protected constructors/destructor and only a published nested
#                    enum, typedef edges unused              -> NO functions, NO manifests: the
#                    library is known to interrogate_module through its global types only
#   2 function-less + one published integer manifest         -> known through a manifest only
STYLES = (0, 1, 2)


def class_body(name, style, method):
    if style == 0:
        return "__published:\n  %s();\n  int %s() const;\n" % (name, method)
    return ("__published:\n  enum E%s { e%s_a, e%s_b = 3 };\nprotected:\n  %s();\n  %s(const %s &copy);\n  ~%s();\n"
            % (name, name.lower(), name.lower(), name, name, name, name))


def base_header(j, style=0):
    return ("#ifndef B%d_H\n#define B%d_H\nclass B%d {\n%s};\n%s#endif\n"
            % (j, j, j, class_body("B%d" % j, style, "v%d" % j),
               "__begin_publish\n#define MANIFEST_%d %d\n__end_publish\n" % (j, 40 + j) if style == 2 else ""))


def wname(path):
    return "_".join(str(v) for v in path)


def class_of(path):
    """name of the class a walk denotes; a walk of one vertex is the root class."""
    return "B%d" % path[0] if len(path) == 1 else "C_" + wname(path)


def sfx(style):
    return "" if style == 0 else "_s%d" % style


def local_header(path, styles):
    st = styles[path[0]]
    return "b%d%s.h" % (path[0], sfx(st)) if len(path) == 1 else "c_%s%s.h" % (wname(path), sfx(st))


def header_of(path, styles):
    return "l%d/%s" % (path[0], local_header(path, styles))


def class_header(path, styles):
    n = wname(path)
    return ("#ifndef C_%s_H\n#define C_%s_H\n#include \"%s\"\nclass C_%s : public %s {\n%s};\n#endif\n"
            % (n, n, header_of(path[1:], styles), n, class_of(path[1:]),
               class_body("C_" + n, styles[path[0]], "w_" + n)))


def derive_walks(g, t, depth):
    """walks of 0..depth inheritance edges starting at t (as vertex tuples)."""
    out = [(t,)]
    frontier = [(t,)]
    for _ in range(depth):
        nxt = []
        for w in frontier:
            for u in range(len(g)):
                if g[w[-1]][u] == 1:
                    nxt.append(w + (u,))
        out += nxt
        frontier = nxt
    return out


class Content(tuple):
    """(walk items..., ) with the styles of every library that occurs in them."""
    def __new__(cls, items, styles):
        self = tuple.__new__(cls, items)
        self.styles = styles
        return self

    def sig(self):
        return (tuple(self), self.styles)

    def __hash__(self):
        return hash(self.sig())

    def __eq__(self, other):
        return isinstance(other, Content) and self.sig() == other.sig()

    def __ne__(self, other):
        return not self.__eq__(other)

    def __lt__(self, other):
        return self.sig() < other.sig()

    def __reduce__(self):
        return (Content, (tuple(self), self.styles))


def lib_content(g, j, depth, styles=None):
    """canonical content key of library j in graph g with chains up to `depth` edges; the
    styles of the libraries it mentions are part of the key (None entries: not mentioned)."""
    styles = styles or (0,) * len(g)
    items = []
    for t in range(len(g)):
        if g[j][t]:
            for tail in derive_walks(g, t, depth - 1):
                items.append((g[j][t], (j,) + tail))
    items = tuple(sorted(items, key=lambda it: (len(it[1]), it[1], it[0])))
    used = {j} | {v for _, p in items for v in p}
    return Content(items, tuple(styles[v] if v in used else None for v in range(len(g))))


def content_id(j, content):
    if all(len(p) == 2 for _, p in content) and not any(content.styles):
        code = {p[1]: kd for kd, p in content}
        return "l%d_%s" % (j, "".join(str(code.get(t, 0)) for t in range(1 + max([j] + list(code)))))
    return "l%d_%s" % (j, hashlib.sha1(repr(content.sig()).encode()).hexdigest()[:14])


def db_path(dbroot, k, j, content):
    return os.path.join(dbroot, "k%d" % k, "db", content_id(j, content) + ".in")


def code_str(code):
    return "".join(str(c) for c in code)


def write_library(root, k, j, content):
    """files of library j for one content; returns the stem of its main header."""
    d = os.path.join(root, "l%d" % j)
    stem = "x" + content_id(j, content)
    styles = content.styles
    out = ['#include "%s"\n' % local_header((j,), styles)]
    cmds = []
    for kind, path in content:                       # sorted by depth: own classes first
        if kind == 1:
            fn = os.path.join(d, local_header(path, styles))
            write_once(fn, class_header(path, styles))
            out.append('#include "%s"\n' % local_header(path, styles))
        else:
            n = wname(path)
            out.append('#include "%s"\ntypedef %s T_%s;\n' % (header_of(path[1:], styles), class_of(path[1:]), n))
            if styles[j] == 0:
                out.append("__begin_publish\nint use_%s(T_%s *p);\n__end_publish\n" % (n, n))
            cmds.append("forcetype T_%s\n" % n)
    with open(os.path.join(d, stem + ".h"), "w") as f:
        f.write("".join(out))
    if cmds:
        with open(os.path.join(d, stem + ".N"), "w") as f:
            f.write("".join(cmds))
    return d, stem


def write_once(fn, text):
    if not os.path.exists(fn):
        tmp = "%s.%d.tmp" % (fn, os.getpid())
        with open(tmp, "w") as f:
            f.write(text)
        os.replace(tmp, fn)


def needed_class_headers(root, k, contents):
    """every header a foreign library may include must exist before any run."""
    for j, content in contents:
        styles = content.styles
        for v, st in enumerate(styles):
            if st is not None:
                os.makedirs(os.path.join(root, "l%d" % v), exist_ok=True)
                write_once(os.path.join(root, header_of((v,), styles)), base_header(v, st))
        for kind, path in content:
            for i in range(1 if kind == 2 else 0, len(path) - 1):
                sub = path[i:]
                write_once(os.path.join(root, header_of(sub, styles)), class_header(sub, styles))


def gen_databases(b, root, k, contents, have=None, backend="-python-native"):
    """Real interrogate runs for every (library, content) in `contents` not yet in
    `have`.  Returns {(j, content): path}."""
    have = have if have is not None else {}
    os.makedirs(os.path.join(root, "db"), exist_ok=True)
    for j in range(k):
        os.makedirs(os.path.join(root, "l%d" % j), exist_ok=True)
    todo = sorted(set(c for c in contents if c not in have))
    needed_class_headers(root, k, todo)
    jobs = [(j, content) + write_library(root, k, j, content) for j, content in todo]

    def one(job):
        j, content, d, stem = job
        out = os.path.join(root, "db", content_id(j, content) + ".in")
        r = tools.interrogate(b, ["-oc", os.path.join(d, stem + ".cxx"), "-od", out,
                                  "-module", "m", "-library", libname(j), backend,
                                  "-I..", local_header((j,), content.styles), stem + ".h"], cwd=d)
        for ext in (".cxx", ".h", ".N"):
            try:
                os.remove(os.path.join(d, stem + ext))
            except OSError:
                pass
        if r.rc != 0 or not os.path.exists(out):
            raise HarnessError("interrogate failed for library %d content %s: %s" % (j, content, r.brief()))
        return (j, content), out

    new = dict(pmap(one, jobs))
    check_databases(b, new, k)
    have.update(new)
    return have


def check_databases(b, dbs, k):
    """The generated databases must really contain the intended edges (otherwise the
    exploration is vacuous): harness error if not."""
    def one(item):
        (j, content), path = item
        d = tools.idb_dump(b, [path])
        glob = set(d["global_types"])
        byname = {t["true_name"]: (int(i), t) for i, t in d["types"].items()}
        if "B%d" % j not in byname or byname["B%d" % j][0] not in glob:
            raise HarnessError("B%d is not a global type of its own library" % j)
        for kind, p in content:
            base = class_of(p[1:])
            bi, bt = byname.get(base, (None, None))
            if bt is None or (bt["flags"] & 0x1) or bi in glob or (bt["flags"] & 0x2000):
                raise HarnessError("%s should be a foreign (not global, not fully defined) type in library %d, "
                                   "content %s" % (base, j, content))
            if kind == 1:
                di, dt = byname.get("C_" + wname(p), (None, None))
                if dt is None or di not in glob or [x["base"] for x in dt["derivations"]] != [bi]:
                    raise HarnessError("C_%s is not a global class derived from %s" % (wname(p), base))
            else:
                ti, tt = byname.get("T_" + wname(p), (None, None))
                if tt is None or ti not in glob or tt["wrapped_type"] != bi:
                    raise HarnessError("T_%s is not a global typedef of %s" % (wname(p), base))
        st = content.styles[j]
        if st and d["functions"]:
            raise HarnessError("function-less library %d content %s has functions %s"
                               % (j, content.sig(), [f["scoped_name"] for f in d["functions"].values()][:4]))
        if (st == 2) != bool(d["manifests"]) or (st == 0 and not d["functions"]):
            raise HarnessError("library %d style %s: %d manifests, %d functions" % (j, st, len(d["manifests"]), len(d["functions"])))
        want = {"B%d" % j} | {("C_" if kd == 1 else "T_") + wname(p) for kd, p in content}
        have_g = {d["types"][str(i)]["true_name"] for i in glob}
        if have_g != want:
            raise HarnessError("library %d content %s: global types %s, expected %s" % (j, content, sorted(have_g), sorted(want)))
        return True
    pmap(one, list(dbs.items()))


# ---------------------------------------------------------------------------------- graphs
def graphs(k, mode):
    """Yield graphs as tuples of per-library codes.  mode: 'all3' every edge kind
    assignment; 'derive' / 'typedef' uniform kinds; 'mixed' kind by parity of j+t."""
    pairs = [(j, t) for j in range(k) for t in range(k) if j != t]
    if mode == "all3":
        for kinds in itertools.product((0, 1, 2), repeat=len(pairs)):
            g = [[0] * k for _ in range(k)]
            for (j, t), c in zip(pairs, kinds):
                g[j][t] = c
            yield tuple(tuple(r) for r in g)
        return
    for bits in itertools.product((0, 1), repeat=len(pairs)):
        g = [[0] * k for _ in range(k)]
        for (j, t), c in zip(pairs, bits):
            if c:
                g[j][t] = {"derive": 1, "typedef": 2,
                           "mixed": 1 if (j + t) % 2 else 2}[mode]
        yield tuple(tuple(r) for r in g)


def graph_key(g):
    return "-".join(code_str(r) for r in g)


def reach(g):
    k = len(g)
    r = [[bool(g[i][j]) for j in range(k)] for i in range(k)]
    for m in range(k):
        for i in range(k):
            for j in range(k):
                if r[i][m] and r[m][j]:
                    r[i][j] = True
    return r


# ------------------------------------------------------------------------- running + parsing
RE_EXT_DEF = re.compile(r"^extern const struct LibraryDef (\w+)_moddef;$", re.M)
RE_EXT_REG = re.compile(r"^extern void Dtool_(\w+)_RegisterTypes\(\);$", re.M)
RE_EXT_BI = re.compile(r"^extern void Dtool_(\w+)_BuildInstants\(PyObject \*module\);$", re.M)
RE_REG = re.compile(r"^\s*Dtool_(\w+)_RegisterTypes\(\);$", re.M)
RE_BI = re.compile(r"^\s*Dtool_(\w+)_BuildInstants\(module\);$", re.M)
RE_DEFS = re.compile(r"^\s*const LibraryDef \*defs\[\] = \{(.*)\};$", re.M)
RE_MODDEF = re.compile(r"&(\w+)_moddef")
RE_BRANCH = re.compile(r"\nPyObject \*PyInit_\w+\(\) \{\n(.*?)\n#else  // Python 2 case\n(.*?)\n#endif",
                       re.S)


def parse_module(text):
    i = text.rfind("#line ")
    tail = text[i:] if i >= 0 else text
    cut = tail.find("#if defined(_WIN32)")
    if cut < 0:
        return None
    pre, rest = tail[:cut], tail[cut:]
    m = RE_BRANCH.search(rest)
    if not m:
        return None
    seqs = {"extern_def": RE_EXT_DEF.findall(pre), "extern_reg": RE_EXT_REG.findall(pre),
            "extern_bi": RE_EXT_BI.findall(pre)}
    for name, body in (("py3", m.group(1)), ("py2", m.group(2))):
        seqs[name + "_reg"] = RE_REG.findall(body)
        d = RE_DEFS.findall(body)
        seqs[name + "_defs"] = RE_MODDEF.findall(d[0]) if len(d) == 1 else ["<defs lines: %d>" % len(d)]
        seqs[name + "_bi"] = RE_BI.findall(body)
    return seqs


def parse_report(err):
    cycles, deps = [], []
    for line in err.splitlines():
        if " -> " in line and line.startswith("  "):
            cycles.append(line.strip().split(" -> "))
            continue
        m = re.match(r"^  (\w+) \((\w+)\) (inherits from|is a typedef to) (\w+) \((\w+)\)$", line)
        if m:
            deps.append((m.group(1), m.group(2), m.group(3), m.group(4), m.group(5)))
    return {"announced": "Circular dependency between libraries detected" in err,
            "cycles": cycles, "deps": deps}


def run_module(b, workdir, tag, files, backend="-python-native", timeout=10, preexisting=False):
    out = os.path.join(workdir, tag + ".cxx")
    if preexisting:
        with open(out, "w") as f:
            f.write("// stale output of an earlier run\n")
    elif os.path.exists(out):
        os.remove(out)
    r = tools.run_stable([b["interrogate_module"], "-oc", out, "-module", "m", "-library", "m", backend]
                         + list(files), b, cwd=workdir, timeout=timeout)
    exists = os.path.exists(out)
    text = None
    if exists:
        with open(out, errors="replace") as f:
            text = f.read()
        os.remove(out)
    return {"rc": r.rc, "timeout": r.timeout, "stderr": r.err, "stdout": r.out,
            "exists": exists, "text": text, "cmd": r.cmd}


def judge_graph(g, perm, obs, names=None):
    """Returns (problems, outcome)."""
    k = len(g)
    names = names or [libname(j) for j in range(k)]
    idx = {n: j for j, n in enumerate(names)}
    problems = []
    if obs["timeout"]:
        return ["did not terminate within the time limit"], "hang"
    if obs["rc"] != 0:
        return ["exit status %s on loadable databases; stderr: %s" % (obs["rc"], obs["stderr"][-300:])], \
            "rc=%s" % obs["rc"]
    if not obs["exists"]:
        return ["exit status 0 but no output file"], "no-output"
    seqs = parse_module(obs["text"])
    if seqs is None:
        return ["generated module file has no recognisable init section"], "unparsable"
    ref = seqs["py3_reg"]
    missing = sorted(n for n in names if all(n not in s for s in seqs.values()))
    if missing:
        problems.append("library %s contributes to the module but is referenced nowhere in the module file "
                        "(referenced: %s)" % (", ".join(missing), ref))
    for name, s in sorted(seqs.items()):
        if sorted(s) != sorted(names):
            if not missing or sorted(s) != sorted(set(names) - set(missing)):
                problems.append("%s names %s, expected each of %s exactly once" % (name, s, names))
        elif s != ref:
            problems.append("%s order %s differs from RegisterTypes order %s" % (name, s, ref))
    ref_out = re.findall(r"^Referencing Library (\w+)$", obs["stdout"], re.M)
    if problems:
        return problems, "bad-sequences"
    pos = {idx[n]: i for i, n in enumerate(ref)}
    r = reach(g)
    rep = parse_report(obs["stderr"])
    cyclic = any(r[i][i] for i in range(k))
    # reported cycles must be real
    reported_edges = set()
    for c in rep["cycles"]:
        ok = len(c) >= 3 and c[0] == c[-1] and all(n in idx for n in c)
        if ok:
            for a, bb in zip(c, c[1:]):
                if not g[idx[a]][idx[bb]]:
                    ok = False
                reported_edges.add((idx[a], idx[bb]))
        if not ok:
            problems.append("reported cycle %s is not a cycle of the dependency graph" % " -> ".join(c))
    for tn, la, what, bn, lb in rep["deps"]:
        if la not in idx or lb not in idx:
            problems.append("report names unknown library: %s/%s" % (la, lb))
            continue
        j, t = idx[la], idx[lb]
        want = 1 if what == "inherits from" else 2
        m = re.match(r"^[CT]_(\d+(?:_\d+)+)$", tn)
        path = tuple(int(x) for x in m.group(1).split("_")) if m else ()
        ok = (len(path) >= 2 and tn[0] == ("C" if want == 1 else "T") and path[0] == j and path[1] == t
              and all(v < k for v in path) and g[j][t] == want and bn == class_of(path[1:])
              and all(g[a][c] == 1 for a, c in zip(path[1:], path[2:])))
        if not ok:
            problems.append("reported dependency '%s (%s) %s %s (%s)' does not exist" % (tn, la, what, bn, lb))
    if cyclic and not (rep["announced"] and rep["cycles"]):
        problems.append("cyclic graph but no cycle was reported")
    if not cyclic and (rep["announced"] or rep["cycles"]):
        problems.append("acyclic graph but a circular dependency was reported")
    broken = 0
    for j in range(k):
        for t in range(k):
            if not g[j][t]:
                continue
            if pos[t] < pos[j]:
                continue
            broken += 1
            same_scc = r[j][t] and r[t][j]
            if not same_scc:
                problems.append("%s (derives from / is a typedef of a class of %s) is initialised before %s; order %s"
                                % (names[j], names[t], names[t], ref))
            elif (j, t) not in reported_edges:
                problems.append("dependency %s -> %s was dropped but lies on no reported cycle" % (names[j], names[t]))
    if ref_out != ref:
        problems.append("'Referencing Library' lines %s differ from emitted order %s" % (ref_out, ref))
    outcome = ("cyclic cycles=%d broken=%d" % (len(rep["cycles"]), broken)) if cyclic else \
        ("dag alpha-order" if ref == sorted(ref) else "dag reordered")
    return problems, outcome


def graph_case(ctx, case, timeout=10):
    b, workdir, dbroot = ctx
    k, g, perm, tag, depth, styles = case
    files = [db_path(dbroot, k, j, lib_content(g, j, depth, styles)) for j in perm]
    obs = run_module(b, workdir, tag, files, timeout=timeout)
    if obs["timeout"] and timeout < 100:
        obs = run_module(b, workdir, tag, files, timeout=100)       # alone, 10x
    problems, outcome = judge_graph(g, perm, obs)
    return problems, outcome, obs


def graph_chunk(arg):
    """Worker (separate process): run a chunk of graph cases."""
    ctx, cases, wid = arg
    b, workroot, dbroot = ctx
    workdir = os.path.join(workroot, "w%d" % wid)
    os.makedirs(workdir, exist_ok=True)
    res = []
    for n, (k, g, perm, depth, styles) in enumerate(cases):
        problems, outcome, obs = graph_case((b, workdir, dbroot), (k, g, perm, "m", depth, styles))
        key = "k%dd%d/g%s/p%s" % (k, depth, graph_key(g), code_str(perm))
        if any(styles):
            key += "/s" + code_str(styles)
        nedges = sum(1 for r in g for c in r if c)
        if depth > 1:
            outcome = "chains " + outcome
        if any(styles):
            # is some base library function-less (known only through its global types)?
            fl = any(g[j][t] and styles[t] == 1 for j in range(k) for t in range(k))
            outcome = ("function-less base " if fl else "styled ") + outcome
        res.append((key, outcome, nedges > 0, problems,
                    {"k": k, "depth": depth, "styles": list(styles), "graph": [list(r) for r in g],
                     "perm": list(perm), "rc": obs["rc"],
                     "stderr_head": obs["stderr"][:200]}))
    return res


# ------------------------------------------------------------------------- failure family
def failure_files(root, good):
    """Create the bad databases.  Returns list of (kind, path, apriori_fails)."""
    d = os.path.join(root, "bad")
    os.makedirs(d, exist_ok=True)
    out = []
    out.append(("missing", os.path.join(d, "nonexistent.in"), True))
    with open(os.path.join(d, "plainfile"), "w") as f:
        f.write("x\n")
    out.append(("enotdir", os.path.join(d, "plainfile", "x.in"), True))
    loop = os.path.join(d, "loop.in")
    if not os.path.islink(loop):
        os.symlink("loop.in", loop)
    out.append(("eloop", loop, True))
    os.makedirs(os.path.join(d, "dir.in"), exist_ok=True)
    out.append(("directory", os.path.join(d, "dir.in"), True))
    data = open(good, "rb").read()
    lines = data.split(b"\n", 2)

    def w(name, content):
        p = os.path.join(d, name)
        with open(p, "wb") as f:
            f.write(content)
        return p
    out.append(("garbage", w("garbage.in", b"hello world\nthis is not a database\n"), True))
    out.append(("major4", w("major4.in", lines[0] + b"\n4 0\n" + lines[2]), True))
    out.append(("major2", w("major2.in", lines[0] + b"\n2 9\n" + lines[2]), True))
    out.append(("minor99", w("minor99.in", lines[0] + b"\n3 99\n" + lines[2]), True))
    body = len(data.rstrip())
    for n in range(len(data)):
        out.append(("trunc@%d" % n, w("t%d.in" % n, data[:n]), n < body))
    return out, len(data)


FAIL_CHAIN = ((0, 0, 0), (1, 0, 0), (0, 1, 0))


def failure_base(dbroot):
    """the loadable databases of the failure family: the chain 2 -> 1 -> 0; library 1 is
    the one that gets damaged."""
    goods = [db_path(dbroot, 3, j, lib_content(FAIL_CHAIN, j, 1)) for j in (0, 2)]
    return goods, db_path(dbroot, 3, 1, lib_content(FAIL_CHAIN, 1, 1))


def failure_case(ctx, case, timeout=10):
    b, workdir = ctx
    kind, bad, goods, p, pre, backend, tag = case
    files = list(goods[:p]) + [bad] + list(goods[p:])
    obs = run_module(b, workdir, tag, files, backend=backend, timeout=timeout, preexisting=pre)
    if obs["timeout"] and timeout < 100:
        obs = run_module(b, workdir, tag, files, backend=backend, timeout=100, preexisting=pre)
    return obs


_ALONE = {}


def alone_error(b, path):
    if path not in _ALONE:
        r, vals = tools.idb(b, ["load:" + path, "sync", "err"])
        _ALONE[path] = bool(vals[-1].get("error")) if (r.rc == 0 and vals) else None
    return _ALONE[path]


def failure_chunk(arg):
    ctx, cases, wid = arg
    b, workroot, dbroot = ctx
    workdir = os.path.join(workroot, "f%d" % wid)
    os.makedirs(workdir, exist_ok=True)
    exe = harness.idbdump(b)
    res = []
    for (kind, bad, apriori, gsel, p, pre, backend) in cases:
        goods_all, _ = failure_base(dbroot)
        goods = [goods_all[i] for i in gsel]
        obs = failure_case((b, workdir), (kind, bad, goods, p, pre, backend, "m"))
        # Does the library accept the damaged file when it is loaded ALONE?  (That verdict is
        # C12's subject.  The whole set is deliberately NOT asked: the question here is
        # whether an error survives the databases that follow it.)
        lib_err = alone_error(b, bad)
        key = "fail/%s/g%s/p%d/%s/%s" % (kind, "".join(str(i) for i in gsel) or "-", p,
                                         "stale" if pre else "fresh", backend.strip("-"))
        problems = []
        failed_ok = (obs["rc"] not in (0, None)) and obs["rc"] > 0 and not obs["timeout"] and not obs["exists"]
        if backend == "-c":
            # with -c nothing is generated from the databases and none is ever read: the
            # property's failure clause has no antecedent here
            outcome = "unjudged: -c never reads the databases (rc=%s out=%s)" % (
                obs["rc"], "present" if obs["exists"] else "absent")
        elif apriori and lib_err is False:
            outcome = "unjudged: library accepted a damaged database"
        elif apriori or lib_err:
            outcome = "fail rc=%s out=%s" % (obs["rc"], "left" if obs["exists"] else "absent")
            if not failed_ok:
                problems.append("database fails to load (%s) but exit status %s, timeout=%s, output file %s"
                                % (kind, obs["rc"], obs["timeout"],
                                   "exists" if obs["exists"] else "absent"))
        else:
            outcome = "loadable prefix rc=%s out=%s" % (obs["rc"], "present" if obs["exists"] else "absent")
            if obs["rc"] != 0 or not obs["exists"]:
                problems.append("database loads (only trailing white space removed) but exit status %s, output %s"
                                % (obs["rc"], "exists" if obs["exists"] else "absent"))
        res.append((key, outcome, True, problems,
                    {"kind": kind, "position": p, "good": list(gsel), "stale_output": pre,
                     "backend": backend, "rc": obs["rc"], "output_exists": obs["exists"],
                     "library_error_flag": lib_err, "stderr_tail": obs["stderr"][-200:]}))
    return res


# ------------------------------------------------------------------------- content family
CONTENT = [
    ("libc_class", "class OnlyClass {\n__published:\n  OnlyClass();\n};\n"),
    ("libf_func", "__begin_publish\nint only_function(int a);\n__end_publish\n"),
    ("libe_enum", "__begin_publish\nenum OnlyEnum { OE_a, OE_b = 3 };\n__end_publish\n"),
    ("libg_globvar", "__begin_publish\nextern int only_global;\n__end_publish\n"),
    ("libs_datamember", "struct OnlyStruct {\n__published:\n  int x;\n};\n"),
    ("libt_strmanifest", "__begin_publish\n#define ONLY_STR \"abc\"\n__end_publish\n"),
    ("libi_intmanifest", "__begin_publish\n#define ONLY_INT 5\n__end_publish\n"),
]


def gen_content(b, root):
    """Libraries that contribute exactly one kind of thing to the module.  Returns
    {name: (path, contributes)} where contributes = the generated library code has
    something to register (checked in the generated -oc file, not assumed)."""
    out = {}
    for name, text in CONTENT:
        d = os.path.join(root, "content", name)
        os.makedirs(d, exist_ok=True)
        with open(os.path.join(d, "h.h"), "w") as f:
            f.write(text)
        db = os.path.join(root, "content", name + ".in")
        r = tools.interrogate(b, ["-oc", "o.cxx", "-od", db, "-module", "m", "-library", name,
                                  "-python-native", "h.h"], cwd=d)
        if r.rc != 0 or not os.path.exists(db):
            raise HarnessError("interrogate failed for content library %s: %s" % (name, r.brief()))
        src = open(os.path.join(d, "o.cxx"), errors="replace").read()
        m = re.search(r"void Dtool_%s_BuildInstants\(PyObject \*module\) \{(.*?)\n\}" % name, src, re.S)
        m2 = re.search(r"void Dtool_%s_RegisterTypes\(\) \{(.*?)\n\}" % name, src, re.S)
        if not m or not m2:
            raise HarnessError("generated code of %s has no BuildInstants/RegisterTypes" % name)
        body = [l.strip() for l in (m.group(1) + m2.group(1)).splitlines()]
        work = [l for l in body if l and l != "(void) module;" and not l.startswith("//")]
        funcs = "{nullptr, nullptr, 0, nullptr}" in src and re.search(r'\{"\w+", ', src.split("python_simple_funcs")[1].split("};")[0]
                                                                       if "python_simple_funcs" in src else "")
        out[name] = (db, bool(work) or bool(funcs))
        os.remove(os.path.join(d, "o.cxx"))
    return out


def content_cases(content):
    names = [n for n, _ in CONTENT]
    cases = []
    for n in names:
        cases.append((n,))
        if n != "libc_class":
            cases.append(("libc_class", n))
            cases.append((n, "libc_class"))
    cases.append(tuple(names))
    cases.append(tuple(reversed(names)))
    return cases


def content_case(b, workdir, content, order, tag="m"):
    files = [content[n][0] for n in order]
    obs = run_module(b, workdir, tag, files)
    names = sorted(order)
    g = tuple(tuple(0 for _ in names) for _ in names)
    problems, outcome = judge_graph(g, None, obs, names=names)
    return problems, outcome, obs


# --------------------------------------------------------------------------------- driver
def chunks(seq, n):
    seq = list(seq)
    return [seq[i:i + n] for i in range(0, len(seq), n)]


def main():
    ck = Check(PID, level="model_checking")
    b = build.build("rel")
    harness.idbdump(b)
    thorough = ck.tier == "thorough"
    root = ck.scratch()
    dbroot = os.path.join(root, "dbs")
    workroot = os.path.join(root, "work")
    os.makedirs(workroot, exist_ok=True)

    if ck.replay:
        return replay(ck, b, dbroot, workroot)

    # (k, edge-kind mode, chain depth): depth 1 = classes derive from root classes only;
    # depth d = for every walk of <= d edges a class deriving from the previous walk's class
    # (k, edge-kind mode, chain depth, style vectors)
    def uniform(k):
        return [(s_,) * k for s_ in STYLES]

    def every(k):
        return list(itertools.product(STYLES, repeat=k))
    plain = lambda k: [(0,) * k]
    bounds = [(1, "all3", 1, uniform(1)), (2, "all3", 1, every(2)), (2, "all3", 2, uniform(2)),
              (2, "all3", 3, plain(2)),
              (3, "all3", 1, uniform(3)), (3, "all3", 2, plain(3)), (3, "all3", 3, plain(3)),
              # every library content vector x every graph with uniform edge kinds
              (3, "derive", 1, every(3)), (3, "typedef", 1, every(3)), (3, "mixed", 1, every(3)),
              (3, "derive", 2, uniform(3))]
    if thorough:
        bounds += [(3, "all3", 1, every(3)), (3, "all3", 2, uniform(3)),
                   (4, "derive", 1, uniform(4)), (4, "typedef", 1, plain(4)), (4, "mixed", 1, plain(4)),
                   (4, "derive", 2, plain(4)), (4, "mixed", 2, plain(4))]
    done_bound = None
    seen_graphs = set()
    dbs_for = {}
    states = 0

    nfail = [0]

    def handle(results, kind):
        for key, outcome, nontrivial, problems, sample in results:
            ck.note(key, nontrivial=nontrivial, outcome=outcome, sample=sample, family=kind)
            if problems:
                nfail[0] += 1
                if nfail[0] <= 20:
                    confirm_and_fail(ck, b, dbroot, workroot, key, problems, sample)
                else:
                    ck.extra["failing_cases_not_individually_reported"] = nfail[0] - 20

    for (k, mode, depth, stylevecs) in bounds:
        kroot = os.path.join(dbroot, "k%d" % k)
        cases = []
        contents = set()
        for g in graphs(k, mode):
            for styles in stylevecs:
                prog = tuple((j, lib_content(g, j, depth, styles)) for j in range(k))
                gk = (k, g, styles, prog)    # the same graph with deeper chains is a new program
                if (k, g, prog) in seen_graphs:     # only if a chain class actually appears
                    continue
                seen_graphs.add((k, g, prog))
                contents.update(prog)
                states += 1
                for perm in itertools.permutations(range(k)):
                    cases.append((k, g, perm, depth, styles))
        dbs_for[k] = gen_databases(b, kroot, k, contents, dbs_for.get(k))
        ck.extra["databases_k%d" % k] = len(dbs_for[k])
        ctx = (b, workroot, dbroot)
        cut = False
        # batches of 16 chunks so the deadline is honoured between batches
        per = 200
        cl = chunks(cases, per)
        for i in range(0, len(cl), 64):
            if ck.expired(reserve=30):
                ck.cap("deadline inside bound k=%d/%s/depth %d after %d of %d runs" % (k, mode, depth, i * per, len(cases)))
                cut = True
                break
            batch = [(ctx, c, i + n) for n, c in enumerate(cl[i:i + 64])]
            for res in pmap_proc(graph_chunk, batch):
                handle(res, "graph k=%d %s depth=%d%s" % (k, mode, depth, "" if len(stylevecs) == 1 else " styles=%d" % len(stylevecs)))
        if cut:
            break
        done_bound = "k=%d (%s, chain depth %d)" % (k, mode, depth)

    # ---- content family: libraries contributing a single kind of thing
    content = gen_content(b, root)
    for n, (_, contributes) in sorted(content.items()):
        if not contributes:
            raise HarnessError("content library %s contributes nothing: generator broken" % n)
    cwd = os.path.join(workroot, "content")
    os.makedirs(cwd, exist_ok=True)
    for order in content_cases(content):
        key = "content/" + "+".join(order)
        problems, outcome, obs = content_case(b, cwd, content, order)
        sample = {"content": list(order), "rc": obs["rc"], "stderr_head": obs["stderr"][:200]}
        ck.note(key, nontrivial=True, outcome="content " + outcome, sample=sample, family="content kinds")
        if problems:
            ck.fail(key, "; ".join(problems)[:600], {"observed": problems[0], "problems": problems, "sample": sample},
                    confirm=lambda order=order: bool(content_case(b, cwd, content, order, "c")[0]))

    # ---- failure family
    k = 3
    goods_all, victim = failure_base(dbroot)
    bad, size = failure_files(root, victim)
    fcases = []
    body = len(open(victim, "rb").read().rstrip())
    # truncations that get the full positional treatment in both tiers: inside the header,
    # inside the module names, inside a record, one byte short
    representative = {"trunc@%d" % n for n in (0, 3, 12, 30, body // 3, body // 2, body - 2, body - 1)}
    all_sel = [(), (0,), (1,), (0, 1), (1, 0)]          # every permutation of 0..2 good databases
    for kind, path, apriori in bad:
        trunc = kind.startswith("trunc@") and kind not in representative
        if thorough:
            good_sets = all_sel
            pres = (False, True)
            backends = ("-python-native", "-python") if trunc else ("-python-native", "-python", "-c")
        else:
            good_sets = [(0, 1)] if trunc else all_sel
            pres = (False,) if trunc else (False, True)
            backends = ("-python-native",) if trunc else ("-python-native", "-python", "-c")
        for gsel in good_sets:
            positions = range(len(gsel) + 1)             # the bad database at EVERY position
            if trunc and not thorough:
                positions = (0, 1)
            for p in positions:
                for pre in pres:
                    for be in backends:
                        fcases.append((kind, path, apriori, gsel, p, pre, be))
    cl = chunks(fcases, 100)
    fctx = (b, workroot, dbroot)
    fcut = False
    for i in range(0, len(cl), 64):
        if ck.expired(reserve=20):
            ck.cap("deadline inside failure family after %d of %d runs" % (i * 100, len(fcases)))
            fcut = True
            break
        for res in pmap_proc(failure_chunk, [(fctx, c, i + n) for n, c in enumerate(cl[i:i + 64])]):
            handle(res, "failed load")
    ck.extra["graphs"] = states
    if nfail[0] > 20:
        print("note: %d further failing cases were not reported individually" % (nfail[0] - 20), flush=True)
    ck.extra["truncation_offsets"] = size
    if not any(o.startswith("cyclic") for o in ck.outcomes) or not any(o.startswith("dag reordered") for o in ck.outcomes):
        if not ck.violations:
            raise HarnessError("vacuous: no cyclic graph or no DAG needing a non-alphabetical order was seen")
    return ck.finish(
        rule="one case = (dependency graph with edge kinds, command-line permutation) or (bad database kind, "
             "position, stale output?, back-end); non-trivial = the graph has at least one cross-library "
             "edge (so an ordering constraint or a cycle exists), every failure case is non-trivial",
        exhaustive=True,
        bound="%s; every permutation; failure family: every byte offset of a %d-byte database" % (done_bound, size),
        states=states + len(bad),
        assumptions=["an unreadable file is modelled by open() failing with ENOENT/ENOTDIR/ELOOP and by a "
                     "directory (checks run as root, so permission bits do not bite)",
                     "with -c interrogate_module never queries the database, so nothing is loaded and the "
                     "failure clause is not judged for -c",
                     "k=4 uses uniform edge kinds (all inheritance, all typedef, mixed by parity); every "
                     "kind assignment is enumerated for k<=3"])


def confirm_and_fail(ck, b, dbroot, workroot, key, problems, sample):
    wd = os.path.join(workroot, "confirm")
    os.makedirs(wd, exist_ok=True)

    def again():
        return bool(rerun(b, dbroot, wd, key, sample)[0])
    detail = {"observed": problems[0], "problems": problems, "sample": sample}
    ck.fail(key, "; ".join(problems)[:600], detail, confirm=again)


def rerun(b, dbroot, wd, key, sample):
    if key.startswith("content/"):
        content = gen_content(b, os.path.dirname(dbroot))
        problems, outcome, obs = content_case(b, wd, content, tuple(sample["content"]), "c")
        return problems, (outcome, obs["rc"], obs["stderr"], parse_module(obs["text"]) if obs["text"] else None)
    if key.startswith("fail/"):
        raise_if = sample
        root = os.path.dirname(dbroot)
        goods_all, victim = failure_base(dbroot)
        bad, _ = failure_files(root, victim)
        path, apriori = [(p, a) for (kd, p, a) in bad if kd == sample["kind"]][0]
        gsel = tuple(sample["good"]) if isinstance(sample["good"], list) else tuple(range(sample["good"]))
        res = failure_chunk(((b, wd, dbroot), [(sample["kind"], path, apriori, gsel,
                                        sample["position"], sample["stale_output"], sample["backend"])], 0))
        return res[0][3], res[0]
    g = tuple(tuple(r) for r in sample["graph"])
    problems, outcome, obs = graph_case((b, wd, dbroot), (sample["k"], g, tuple(sample["perm"]), "c",
                                                          sample.get("depth", 1),
                                                          tuple(sample.get("styles") or (0,) * sample["k"])))
    return problems, (outcome, obs["rc"], obs["stderr"], parse_module(obs["text"]) if obs["text"] else None)


def replay(ck, b, dbroot, workroot):
    rp = ck.load_replay()
    sample = rp["detail"]["sample"]
    key = rp["key"]
    if not key.startswith("content/"):
        if key.startswith("fail/"):
            k, g, depth, styles = 3, FAIL_CHAIN, 1, None
        else:
            k, g, depth = sample["k"], tuple(tuple(r) for r in sample["graph"]), sample.get("depth", 1)
            styles = tuple(sample.get("styles") or (0,) * k)
        kroot = os.path.join(dbroot, "k%d" % k)
        gen_databases(b, kroot, k, [(j, lib_content(g, j, depth, styles)) for j in range(k)])
    wd = os.path.join(workroot, "replay")
    os.makedirs(wd, exist_ok=True)
    problems, info = rerun(b, dbroot, wd, key, sample)
    print("case:", key)
    print("observed:", info)
    print("problems:", problems)
    ck.cleanup()
    return 1 if problems else 0


if __name__ == "__main__":
    run_main(main)
