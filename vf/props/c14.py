"""C14 -- output is a pure function of the inputs.

Shape E: deviation-bounded enumeration of environment answers.  A *scenario* is one
(tool, back-end, header set, command line); its reference run uses the default environment
(glibc allocator, ASLR on, real clock, minimal environment block, LC_ALL=C, TZ=UTC, no
pre-existing output files, SOURCE_DATE_EPOCH set).  Every run of the scenario happens in the
same directory with the same argv, so only the environment's answers differ:

  alloc    heap CONTENT: every malloc'ed block pre-filled with 0x55 / 0xAA / 0xFF / an address
           pattern (today's fresh pages are zero), and a recycling mode that hands freed blocks
           back uncleared (stale bytes of a dead object show through); cross-checked under the
           real glibc with MALLOC_PERTURB_=85/170 and tcache_count=0
           heap address order: harness/mallocorder.so hands out ascending or descending
           addresses, or -- for blocks of sizeof(FunctionRemap), measured from the tree under
           test -- every permutation of every window of m consecutive such blocks (m=3, all
           window phases; thorough m=4)
  aslr     setarch -R
  clock    harness/fixclock.so: 2001-01-01 or 2038-01-19 03:14:07
  env      +64 kB of junk variables
  pwd      the working directory is reached through a symbolic link and every path argument
           (-oc/-od/-oh, sources, -I/-S) is RELATIVE; PWD is unset (reference), the physical
           path, the logical (symlink) path, a stale path, another valid directory, spelled
           with a trailing slash / "/." / "."; plus OLDPWD, HOME, TMPDIR, COLUMNS, USER, LANGUAGE
  locale   LC_ALL / LC_NUMERIC / LANG values
  tz       TZ
  stale    output files of a DIFFERENT run already exist at the output paths
  rerun    nothing changed (a second address-space layout)

  sde      SOURCE_DATE_EPOCH is an input of the property: values 0, 1, 00, 1000000000, INT_MAX,
           > INT_MAX, -1, " 5", abc, each under both fixed clocks and the real one, must give
           byte-identical outputs per value (no particular identifier is demanded for odd
           strings, only that code and database carry the same one); set-but-empty behaves
           like unset (only the identifier differs)

Quick: all single deviations.  Thorough: also all pairs of deviations from different
dimensions and m=4 windows.

Oracle: with SOURCE_DATE_EPOCH every run gives byte-identical -oc / -od / -oh (and
interrogate_module -oc).  Without it (runs under each clock, two allocators) the outputs equal
the reference after replacing the file identifier -- the first line of the database and the
first initialiser of the module definition in the code -- and those two numbers are equal (and
equal the fixed clock when one is installed).

Headers are generated to create TIES in every ordering the generators compute: overloads on
pointers to unrelated classes (equal sort class in RemapCompareLess), const/non-const and
static twins, overloaded constructors and coercion constructors, overloaded property setters,
operators, many manifests, many included files, templates instantiated through typedefs, deep
and diamond inheritance, thousands of functions (wrapper-name hash collisions), a module
made of several libraries, FOREIGN classes / enums / typedefs / bases (defined in headers found
through -I and -S, hence imported, with homonyms across namespaces and enclosing classes), and
exported homonyms (same simple name, same length, common prefix) for every name-keyed table.
"""
import itertools
import os
import re
import shutil
import subprocess

from vf import build, harness, tools
from vf.core import Check, HarnessError, pmap, run_main

PID = "C14"
SDE = "1000000000"
T2001 = "978307200"
T2038 = "2147483647"


# ----------------------------------------------------------------------------- headers
def unrelated(n, prefix="P"):
    return "".join("class %s%d {\n__published:\n  %s%d();\n  int v%d;\n};\n" % (prefix, i, prefix, i, i)
                   for i in range(n))


def h_ovl_ptr():
    n = 6
    s = unrelated(n)
    s += "class K {\n__published:\n"
    for i in range(3):
        s += "  /// constructs a K from a P%d\n  K(P%d *p);\n" % (i, i)
    for i in range(n):
        s += "  /// f taking a P%d\n  void f(P%d *p);\n" % (i, i)
    for i in range(4):
        s += "  /// const g on P%d\n  int g(const P%d *p) const;\n" % (i, i)
        s += "  /// mutable g on P%d\n  int g(P%d *p);\n" % (i, i)
    for i in range(n):
        s += "  /// static s on P%d\n  static int s(P%d *p, int k);\n" % (i, i)
    s += "};\n__begin_publish\n"
    for i in range(n):
        s += "/// global gf on P%d\nint gf(P%d *p);\n" % (i, i)
    s += "__end_publish\n"
    return {"h.h": s}


def h_ovl_mixed():
    s = unrelated(4)
    s += "class M {\n__published:\n  M();\n"
    s += "  void h(int a, P0 *p);\n  void h(int a, P1 *p);\n  void h(double a, P0 *p);\n"
    s += "  void h(P0 *p, int a);\n  void h(P1 *p, int a);\n  void h(P2 *p, double a);\n"
    s += "  void d(P0 *p, int x = 1);\n  void d(P1 *p, int x = 2, int y = 3);\n  void d(P2 *p);\n  void d(P3 *p, double z = 0.5);\n"
    s += "  void e(int a);\n  void e(unsigned int a);\n  void e(long a);\n  void e(short a);\n  void e(float a);\n  void e(double a);\n"
    s += "  void t(const char *a);\n  void t(P0 *a);\n  void t(P1 *a);\n  void t(bool a);\n"
    s += "};\n"
    return {"h.h": s}


def h_coerce():
    n = 4
    s = "".join("class V%d;\n" % i for i in range(n))
    for i in range(n):
        s += "class V%d {\n__published:\n  V%d();\n  V%d(int a);\n" % (i, i, i)
        for j in range(n):
            if j != i:
                s += "  V%d(const V%d &o);\n" % (i, j)
        s += "  void use(const V%d &a);\n  void use(const V%d &a);\n" % ((i + 1) % n, (i + 2) % n)
        s += "  int q%d;\n};\n" % i
    s += "__begin_publish\n"
    for i in range(n):
        s += "void take(const V%d &v);\n" % i
    s += "__end_publish\n"
    return {"h.h": s}


def h_manifests():
    s = ""
    for i in range(240):
        k = i % 4
        if k == 0:
            s += "#define MAN_%d %d\n" % (i, i * 7)
        elif k == 1:
            s += "#define MAN_%d %d.5\n" % (i, i)
        elif k == 2:
            s += "#define MAN_%d \"str%d\"\n" % (i, i)
        else:
            s += "#define MAN_%d (MAN_%d + %d)\n" % (i, i - 3, i)
    s += "class Z {\n__published:\n  Z();\n  enum E { e0 = MAN_0, e1 = MAN_4, e2 = MAN_8 };\n};\n"
    return {"h.h": s}


def h_includes():
    n = 24
    files = {}
    main = ""
    for i in range(n):
        main += '#include "inc_%d.h"\n' % i
    for i in range(n):
        files["inc_%d.h" % i] = (
            "#ifndef INC_%d_H\n#define INC_%d_H\nclass C%d;\n" % (i, i, (i + 1) % n) +
            "class C%d {\n__published:\n  C%d();\n  void link(C%d *other);\n  int id%d;\n};\n#endif\n"
            % (i, i, (i + 1) % n, i))
    main += "class Hub {\n__published:\n  Hub();\n"
    for i in range(n):
        main += "  void attach(C%d *c);\n" % i
    main += "};\n"
    files["h.h"] = main
    return files


def h_templates():
    s = unrelated(3)
    s += ("template<class T> class Vec {\n__published:\n  Vec();\n  T get(int i) const;\n"
          "  void set(int i, T v);\n  int size() const;\n};\n")
    s += "template<class A, class B> class Pair {\n__published:\n  Pair();\n  A first() const;\n  B second() const;\n};\n"
    for name, arg in (("VecI", "int"), ("VecF", "float"), ("VecD", "double"), ("VecP0", "P0 *"),
                      ("VecP1", "P1 *"), ("VecP2", "P2 *")):
        s += "typedef Vec<%s> %s;\n" % (arg, name)
    for name, a, b in (("PairII", "int", "int"), ("PairIF", "int", "float"), ("PairFI", "float", "int"),
                       ("PairPP", "P0 *", "P1 *")):
        s += "typedef Pair<%s, %s> %s;\n" % (a, b, name)
    s += ("class Outer {\n__published:\n  Outer();\n  class In1 {\n  __published:\n    In1();\n    int a;\n  };\n"
          "  class In2 {\n  __published:\n    In2();\n    int b;\n  };\n"
          "  enum Mode { M_a, M_b, M_c };\n  enum Kind { K_a = 3, K_b = 3, K_c = 1 };\n"
          "  typedef int count_t;\n  typedef count_t count2_t;\n"
          "  void w(VecI *v);\n  void w(VecF *v);\n  void w(VecP0 *v);\n  void w(PairII *v);\n};\n")
    return {"h.h": s}


def h_properties():
    s = unrelated(3)
    s += "class Q {\n__published:\n  Q();\n"
    s += "  int get_a() const;\n  void set_a(int a);\n  __make_property(a, get_a, set_a);\n"
    s += "  P0 *get_b() const;\n  void set_b(P0 *p);\n  void set_b(P1 *p);\n  void set_b(P2 *p);\n  __make_property(b, get_b, set_b);\n"
    s += "  int get_num_items() const;\n  P0 *get_item(int i) const;\n  __make_seq(get_items, get_num_items, get_item);\n"
    s += "  int get_num_things() const;\n  P1 *get_thing(int i) const;\n  __make_seq(get_things, get_num_things, get_thing);\n"
    s += "  double c;\n  P0 *d;\n  const char *e;\n};\n"
    return {"h.h": s}


def h_many_functions(n):
    s = "__begin_publish\n"
    for i in range(n):
        s += "int fn%d(int a);\n" % i
    s += "__end_publish\n"
    s += "class Big {\n__published:\n  Big();\n"
    for i in range(200):
        s += "  int m%d(int a, double b = %d.25) const;\n" % (i, i)
    s += "};\n"
    return {"h.h": s}


def h_inherit():
    s = ("class B0 {\n__published:\n  B0();\n  virtual int who() const;\n};\n"
         "class B1 {\n__published:\n  B1();\n  virtual int who1() const;\n};\n")
    for i in range(4):
        s += "class D%d : public B0 {\n__published:\n  D%d();\n};\n" % (i, i)
    s += "class L : public virtual B0 {\n__published:\n  L();\n};\nclass R : public virtual B0 {\n__published:\n  R();\n};\n"
    s += "class Dia : public L, public R {\n__published:\n  Dia();\n};\n"
    s += "class MI : public D0, public B1 {\n__published:\n  MI();\n};\n"
    s += "class User {\n__published:\n  User();\n"
    for c in ("B0", "B1", "D0", "D1", "D2", "D3", "L", "R", "Dia", "MI"):
        s += "  void take(%s *p);\n" % c
    for c in ("D0", "D1", "D2", "D3"):
        s += "  int k(const %s &p) const;\n" % c
    s += "};\n"
    return {"h.h": s}


def h_operators():
    s = unrelated(3)
    s += "class O {\n__published:\n  O();\n"
    for i in range(3):
        s += "  O operator + (const P%d &p) const;\n  O &operator += (const P%d &p);\n" % (i, i)
        s += "  int operator () (P%d *p);\n  bool operator == (const P%d &p) const;\n" % (i, i)
        s += "  O operator * (P%d *p) const;\n" % i
    s += "  int operator [] (int i) const;\n  bool operator < (const O &o) const;\n"
    s += "  int __getitem__(P0 *p);\n  int __getitem__(P1 *p);\n  void __setitem__(P0 *p, int v);\n  void __setitem__(P1 *p, int v);\n"
    s += "  int compare_to(const O &o) const;\n  int get_hash() const;\n};\n"
    return {"h.h": s}


def h_mix():
    parts = [h_ovl_ptr()["h.h"].replace("P", "PA").replace("class K", "class KA").replace("  K(", "  KA(").replace("a K from", "a KA from").replace("gf(", "gfa("),
             h_coerce()["h.h"], h_properties()["h.h"].replace("P", "PB"),
             h_operators()["h.h"].replace("P", "PC")]
    return {"h.h": "\n".join(parts)}


def h_lib2():
    """second library of the module: uses and derives from classes of library 1 (h_inherit)"""
    s = '#include "lib1.h"\n'
    s += "class E0 : public D0 {\n__published:\n  E0();\n  void take2(B0 *p);\n  void take2(B1 *p);\n  void take2(D1 *p);\n};\n"
    s += "class E1 : public Dia {\n__published:\n  E1();\n};\n"
    return s


def h_foreign():
    """Exported signatures, bases, typedefs and properties refer to classes, enums and typedefs that
    are defined in FOREIGN headers (found through -I and -S, so not exported by this run and to be
    imported at module initialisation).  Many of them tie under a weaker key than the full scoped
    name: same simple name in different namespaces / enclosing classes, same length, same prefix."""
    ext = """#ifndef SHAPES_H
#define SHAPES_H
namespace render {
  class Params {
  __published:
    Params();
    int get_mode() const;
  };
  class Node {
  __published:
    Node();
    virtual int kind() const;
  };
  enum Mode { M_off, M_on };
  typedef int handle_t;
  typedef Params Config;
}
namespace audio {
  class Params {
  __published:
    Params();
    int get_rate() const;
  };
  class Node {
  __published:
    Node();
    virtual int kind() const;
  };
  enum Mode { M_mute, M_loud };
  typedef float handle_t;
  typedef Params Config;
}
namespace video {
  class Params {
  __published:
    Params();
  };
  class Node {
  __published:
    Node();
  };
}
class Mesh {
__published:
  Mesh();
  class Iterator {
  __published:
    Iterator();
    int index() const;
  };
  enum Kind { K_tri, K_quad };
};
class Curve {
__published:
  Curve();
  class Iterator {
  __published:
    Iterator();
    int index() const;
  };
  enum Kind { K_line, K_arc };
};
class Patch {
__published:
  Patch();
  class Iterator {
  __published:
    Iterator();
  };
};
class Aaa1 {
__published:
  Aaa1();
};
class Aaa2 {
__published:
  Aaa2();
};
class Aab1 {
__published:
  Aab1();
};
#endif
"""
    sysh = """#ifndef SYSBASE_H
#define SYSBASE_H
namespace core {
  class Object {
  __published:
    Object();
    virtual int get_id() const;
  };
  class Params {
  __published:
    Params();
  };
}
namespace util {
  class Object {
  __published:
    Object();
    virtual int get_id() const;
  };
}
template<class T> class Handle {
__published:
  Handle();
  T *get() const;
};
typedef Handle<core::Object> CoreHandle;
typedef Handle<util::Object> UtilHandle;
#endif
"""
    common_a = "#ifndef COMMON_A\n#define COMMON_A\nnamespace a { class Common {\n__published:\n  Common();\n}; }\n#endif\n"
    common_b = "#ifndef COMMON_B\n#define COMMON_B\nnamespace b { class Common {\n__published:\n  Common();\n}; }\n#endif\n"
    scene = """#include "shapes.h"
#include <sysbase.h>
#include "a/common.h"
#include "b/common.h"

class Scene : public render::Node, public core::Object {
__published:
  Scene();
  void apply(const render::Params &params);
  void apply(const audio::Params &params);
  void apply(const video::Params &params);
  void apply(const core::Params &params);
  void seek(const Curve::Iterator &it);
  void seek(const Mesh::Iterator &it);
  void seek(const Patch::Iterator &it);
  Mesh *get_mesh() const;
  Curve *get_curve() const;
  Patch *get_patch() const;
  render::Params *get_rparams() const;
  audio::Params *get_aparams() const;
  void set_mode(render::Mode m);
  void set_mode(audio::Mode m);
  void set_kind(Mesh::Kind k);
  void set_kind(Curve::Kind k);
  render::handle_t get_rh() const;
  audio::handle_t get_ah() const;
  void use(a::Common *c);
  void use(b::Common *c);
  void use(Aaa1 *p);
  void use(Aaa2 *p);
  void use(Aab1 *p);
  CoreHandle *get_core_handle() const;
  UtilHandle *get_util_handle() const;
  render::Config *get_rconfig() const;
  audio::Config *get_aconfig() const;
  __make_property(mesh, get_mesh);
  __make_property(curve, get_curve);
};
class Track : public audio::Node, public util::Object {
__published:
  Track();
  audio::Node *as_node();
  util::Object *as_object();
};
class Clip : public video::Node {
__published:
  Clip();
};
typedef render::Params RenderParams;
typedef audio::Params AudioParams;
typedef Mesh::Iterator MeshIt;
typedef Curve::Iterator CurveIt;
__begin_publish
render::Node *find_rnode(int i);
audio::Node *find_anode(int i);
video::Node *find_vnode(int i);
core::Object *find_cobj(int i);
util::Object *find_uobj(int i);
__end_publish
"""
    return {"h.h": scene, "ext/shapes.h": ext, "ext/a/common.h": common_a, "ext/b/common.h": common_b,
            "sys/sysbase.h": sysh}


def h_homonyms():
    """EXPORTED entities whose names tie under weaker keys: same simple name in different
    namespaces and enclosing classes, same method / enum value / typedef / manifest-like names,
    same length, common prefix."""
    s = ""
    for ns in ("alpha", "beta", "gamma"):
        s += "namespace %s {\n" % ns
        s += "  class Thing {\n  __published:\n    Thing();\n    int get_value() const;\n    void set_value(int v);\n"
        s += "    __make_property(value, get_value, set_value);\n"
        s += "    enum State { S_idle, S_busy };\n    class Item {\n    __published:\n      Item();\n      int id;\n    };\n"
        s += "    typedef int size_type;\n  };\n"
        s += "  enum Level { L_low, L_high };\n  typedef Thing Alias;\n"
        s += "  __begin_publish\n  int compute(int a);\n  Thing *make_thing();\n  __end_publish\n"
        s += "}\n"
    for outer in ("Box", "Bag", "Bin"):
        s += "class %s {\n__published:\n  %s();\n  class Item {\n  __published:\n    Item();\n    int id;\n  };\n" % (outer, outer)
        s += "  class Iterator {\n  __published:\n    Iterator();\n    int index() const;\n  };\n  enum Kind { K_a, K_b };\n};\n"
    s += "class User {\n__published:\n  User();\n"
    for ns in ("alpha", "beta", "gamma"):
        s += "  void take(%s::Thing *t);\n  void item(%s::Thing::Item *i);\n  void level(%s::Level l);\n  void state(%s::Thing::State s);\n" % (ns, ns, ns, ns)
    for outer in ("Box", "Bag", "Bin"):
        s += "  void item(%s::Item *i);\n  void iter(%s::Iterator *i);\n  void kind(%s::Kind k);\n" % (outer, outer, outer)
    s += "};\n"
    for i, n in enumerate(("Aaaa", "Aaab", "Aaba", "Abaa", "Baaa")):
        s += "class %s {\n__published:\n  %s();\n  int same_len_%d;\n};\n" % (n, n, i % 2)
    for i in range(12):
        s += "#define TIE_%s %d\n" % ("ab"[i % 2] * 3 + str(i // 2), i)
    return {"h.h": s}



def h_statics():
    """static properties, published static const data members, static data, static methods behind
    __make_property -- entities none of whose functions takes 'this'"""
    s = unrelated(2)
    for i in range(4):
        s += "class S%d {\n__published:\n  S%d();\n" % (i, i)
        s += "  static int get_count();\n  static void set_count(int c);\n  __make_property(count, get_count, set_count);\n"
        s += "  static const char *get_name();\n  __make_property(name, get_name);\n"
        s += "  static P0 *get_default();\n  static void set_default(P0 *p);\n  static void set_default(P1 *p);\n"
        s += "  __make_property(default_p, get_default, set_default);\n"
        s += "  static const int max_items = %d;\n  static const double ratio;\n  static int shared;\n  static P1 *registry;\n" % (10 + i)
        s += "  int get_inst() const;\n  void set_inst(int v);\n  __make_property(inst, get_inst, set_inst);\n"
        s += "  static int get_num_slots();\n  static int get_slot(int i);\n  __make_seq(get_slots, get_num_slots, get_slot);\n"
        s += "  static int helper(int a);\n  static int helper(P0 *a);\n  int plain;\n  enum { E_%d = %d };\n};\n" % (i, i)
    s += "__begin_publish\nextern const int global_limit;\nextern int global_counter;\n__end_publish\n"
    return {"h.h": s}


def h_floats():
    """floating literals of every shape behind the number formatter (pdtoa): short, long mantissa,
    two- and three-digit exponents of both signs, extremes, denormals, negative, float suffix --
    as default arguments, published constants, macros and enum-free expressions"""
    vals = ["0.1", "1.5e10", "2.5e-120", "1.25e200", "1e100", "1e-100", "1.7976931348623157e308",
            "5e-324", "2.2250738585072014e-308", "-1e300", "1e30f", "3.4028235e38f", "1e-30f",
            "123456789.125", "0.30000000000000004", "1e21", "1e-7", "6.02214076e23", "-2.5e-120",
            "9.999999999999999e199", "1e101", "1e-101", "4.9406564584124654e-324", "0.0", "-0.0"]
    s = "class Fl {\n__published:\n  Fl();\n"
    for i, v in enumerate(vals):
        t = "float" if v.endswith("f") else "double"
        s += "  void d%d(%s x = %s);\n" % (i, t, v)
    s += "  void many(double a = 2.5e-120, double b = 1.25e200, double c = 1.7976931348623157e308, double d = 5e-324);\n"
    s += "  void mixed(int n, double a = 1e100, const char *t = \"x\", double b = 1e-100);\n"
    s += "};\n"
    for i, v in enumerate(vals):
        s += "#define FLT_%d %s\n" % (i, v)
    s += "#define FLT_EXPR (2.5e-120 * 2)\n#define FLT_SUM (1.25e200 + 1e100)\n"
    s += "__begin_publish\n"
    for i, v in enumerate(vals[:12]):
        if not v.endswith("f"):
            s += "double gf%d(double x = %s, double y = %s);\n" % (i, v, vals[(i + 3) % 10].rstrip("f"))
    s += "__end_publish\n"
    return {"h.h": s}


HEADERS = [
    ("ovl_ptr", h_ovl_ptr), ("ovl_mixed", h_ovl_mixed), ("coerce", h_coerce),
    ("manifests", h_manifests), ("includes", h_includes), ("templates", h_templates),
    ("properties", h_properties), ("manyfn", lambda: h_many_functions(1500)),
    ("inherit", h_inherit), ("operators", h_operators), ("mix", h_mix),
    ("foreign", h_foreign), ("homonyms", h_homonyms), ("statics", h_statics), ("floats", h_floats),
    ("tiny", lambda: {"h.h": "class T {\n__published:\n  T();\n  int x;\n};\n"}),
]

BACKENDS = {"c": ["-c", "-fnames"], "python": ["-python", "-fnames"], "pynative": ["-python-native"]}


# ----------------------------------------------------------------------------- deviations
DIM_ORDER = ["alloc", "glibc", "aslr", "clock", "env", "pwd", "envx", "locale", "tz", "stale", "rerun", "sde"]


def dev_key(dev):
    return "+".join("%s=%s" % (k, dev[k]) for k in DIM_ORDER if k in dev) or "default"


def perms(m):
    return [p for p in itertools.permutations(range(m)) if list(p) != list(range(m))]


def single_deviations(thorough):
    out = [{"rerun": "1"}, {"alloc": "asc"}, {"alloc": "desc"}]
    for m in ([3, 4] if thorough else [3]):
        for phase in range(m):
            for p in perms(m):
                out.append({"alloc": "perm%d.%d.%s" % (m, phase, "".join(map(str, p)))})
    # what freshly allocated memory CONTAINS (fill patterns; recycled, uncleared blocks)
    modes = ["asc", "desc"] if thorough else ["asc"]
    for m in modes:
        for extra in ("fill55", "fillaa", "fillff", "filladdr", "recycle"):
            out.append({"alloc": "%s:%s" % (m, extra)})
        out.append({"alloc": "%s:recycle:filladdr" % m})
    # independent cross-check with the real glibc allocator
    out += [{"glibc": "perturb85"}, {"glibc": "perturb170"}, {"glibc": "tcache0"}]
    out += [{"pwd": v} for v in ("physical", "logical", "stale", "other", "physical-slash", "logical-dot", "relative")]
    out += [{"envx": v} for v in ("OLDPWD", "HOME", "TMPDIR", "COLUMNS", "USER", "LANGUAGE")]
    out += [{"aslr": "off"}, {"clock": T2001}, {"clock": T2038}, {"env": "64k"},
            {"locale": "LC_ALL:de_DE.UTF-8"}, {"locale": "LC_ALL:C.UTF-8"},
            {"locale": "LC_NUMERIC:de_DE.UTF-8"}, {"tz": "Asia/Tokyo"}, {"stale": "present"}]
    return out


def pair_deviations():
    reps = {
        "alloc": ["asc", "desc", "asc:fill55", "desc:fillaa", "asc:filladdr", "desc:recycle"] + ["perm3.%d.%s" % (ph, "".join(map(str, p))) for ph in range(3) for p in perms(3)],
        "aslr": ["off"], "clock": [T2001, T2038], "env": ["64k"], "pwd": ["logical", "stale"],
        "locale": ["LC_ALL:de_DE.UTF-8", "LC_NUMERIC:de_DE.UTF-8"], "tz": ["Asia/Tokyo"],
        "stale": ["present"],
    }
    dims = [d for d in DIM_ORDER if d in reps]
    out = []
    for a, b in itertools.combinations(dims, 2):
        for va in reps[a]:
            for vb in reps[b]:
                out.append({a: va, b: vb})
    return out


def nosde_deviations():
    out = []
    for clock in (None, T2001, T2038):
        for alloc in (None, "desc"):
            d = {"sde": "unset"}
            if clock:
                d["clock"] = clock
            if alloc:
                d["alloc"] = alloc
            out.append(d)
    return out


SDE_VALUES = ["0", "1", "00", "1000000000", "2147483647", "4102444800", "-1", " 5", "abc"]


def sde_value_deviations():
    """SOURCE_DATE_EPOCH is an input: for every value that is set and non-empty, runs at
    different instants must agree byte for byte (the first run of each value, at the 2001
    clock, is that value's reference); set-but-empty is documented to behave like unset."""
    out = []
    for v in SDE_VALUES:
        for clock in (T2001, T2038, None):
            d = {"sde": "val:" + v}
            if clock:
                d["clock"] = clock
            out.append(d)
    for clock in (T2001, T2038, None):
        d = {"sde": "empty"}
        if clock:
            d["clock"] = clock
        out.append(d)
    return out


class Seams:
    def __init__(self, b):
        self.mo = harness.compile_so("mallocorder")
        self.fc = harness.compile_so("fixclock")
        src = os.path.join(build.build_root(), "scratch", "sizeof_remap_%d.cxx" % os.getpid())
        os.makedirs(os.path.dirname(src), exist_ok=True)
        with open(src, "w") as f:
            f.write('#include "functionRemap.h"\n#include <cstdio>\n'
                    'int main() { printf("%zu\\n", sizeof(FunctionRemap)); return 0; }\n')
        exe = harness.compile_cxx(b, "sizeof_remap", src=src, libs=())
        os.unlink(src)
        r = tools.run([exe], b=b)
        if r.rc != 0 or not r.out.strip().isdigit():
            raise HarnessError("cannot measure sizeof(FunctionRemap): %s" % r.brief())
        self.remap_size = int(r.out.strip())
        # ASLR off must be real: two processes then see the same stack/heap/mmap addresses
        maps = [tools.run(["setarch", os.uname().machine, "-R", "/bin/cat", "/proc/self/maps"]) for _ in range(2)]
        on = [tools.run(["/bin/cat", "/proc/self/maps"]) for _ in range(2)]
        strip = lambda r: [l.split()[0] for l in r.out.splitlines()]
        self.setarch_ok = maps[0].rc == 0 and maps[1].rc == 0 and strip(maps[0]) == strip(maps[1])
        self.aslr_on_varies = strip(on[0]) != strip(on[1])


def apply_dev(dev, seams, b, scen_dir, scen=None):
    """-> (env, argv prefix).  The environment starts from the scrubbed default."""
    env = build.tool_env(b)
    pre = []
    preload = []
    if "alloc" in dev:
        a = dev["alloc"]
        preload.append(seams.mo)
        env["MO_LOG"] = os.path.join(scen_dir, "mo.log")
        if a.split(":")[0] in ("asc", "desc"):
            toks = a.split(":")
            env["MO_MODE"] = toks[0]
            for t in toks[1:]:
                if t == "recycle":
                    env["MO_RECYCLE"] = "1"
                elif t.startswith("fill"):
                    env["MO_FILL"] = t[4:]
        else:
            m, phase, p = a[4:].split(".")
            env.update({"MO_MODE": "asc", "MO_SIZE": str(seams.remap_size), "MO_M": m,
                        "MO_SKIP": phase, "MO_PERM": ",".join(p)})
    if "glibc" in dev:
        g = dev["glibc"]
        if g.startswith("perturb"):
            env["MALLOC_PERTURB_"] = g[7:]
        else:
            env["GLIBC_TUNABLES"] = "glibc.malloc.tcache_count=0"
    if "clock" in dev:
        preload.append(seams.fc)
        env["FC_TIME"] = dev["clock"]
    if preload:
        env["LD_PRELOAD"] = " ".join(preload)
    if dev.get("aslr") == "off":
        pre = ["setarch", os.uname().machine, "-R"]
    if dev.get("env") == "64k":
        for i in range(64):
            env["VERIF_JUNK_%02d" % i] = ("j%d" % i) * 333
    if "locale" in dev:
        var, val = dev["locale"].split(":")
        if var == "LC_ALL":
            env["LC_ALL"] = val
        else:
            del env["LC_ALL"]
            env[var] = val
            env["LANG"] = val
    if "tz" in dev:
        env["TZ"] = dev["tz"]
    if "pwd" in dev:
        # the default environment has no PWD at all; the process cwd is the same in every run
        env["PWD"] = {"physical": scen.dir, "logical": scen.cwd,
                      "stale": os.path.join(scen.dir, "no", "such", "dir"),
                      "other": scen.other, "physical-slash": scen.dir + "/",
                      "logical-dot": scen.cwd + "/.", "relative": "."}[dev["pwd"]]
    if "envx" in dev:
        k = dev["envx"]
        env[k] = {"OLDPWD": scen.cwd, "HOME": scen.cwd, "TMPDIR": scen.other, "COLUMNS": "7",
                  "USER": "somebody", "LANGUAGE": "de:fr"}[k]
    if dev.get("sde") == "unset":
        del env["SOURCE_DATE_EPOCH"]
    elif dev.get("sde") == "empty":
        env["SOURCE_DATE_EPOCH"] = ""
    elif dev.get("sde", "").startswith("val:"):
        env["SOURCE_DATE_EPOCH"] = dev["sde"][4:]
    return env, pre


# ----------------------------------------------------------------------------- scenarios
class Scenario:
    def __init__(self, ck, b, seams, name, tool, backend, files, inputs, extra_args=()):
        self.ck, self.b, self.seams = ck, b, seams
        self.name, self.tool, self.backend = name, tool, backend
        # the working directory is reachable under two names: <scratch>/s-name/real (physical)
        # and <scratch>/s-name/link -> real; the tools are started through the link
        outer = ck.scratch("s-" + name)
        self.dir = os.path.realpath(os.path.join(outer, "real"))
        os.makedirs(self.dir, exist_ok=True)
        self.cwd = os.path.join(os.path.realpath(outer), "link")
        if not os.path.lexists(self.cwd):
            os.symlink("real", self.cwd)
        self.other = os.path.join(os.path.realpath(outer), "other")
        os.makedirs(self.other, exist_ok=True)
        for rel, text in files.items():
            p = os.path.join(self.dir, rel)
            os.makedirs(os.path.dirname(p), exist_ok=True)
            with open(p, "w") as f:
                f.write(text)
        self.inputs = list(inputs)
        self.extra = list(extra_args)
        self.ref = None
        self.stale = None
        self.sde_refs = {}      # SOURCE_DATE_EPOCH value -> outputs of its first (2001 clock) run

    def outputs(self):
        return {"oc": "out.cxx", "od": "out.in", "oh": "out.txt"} if self.tool == "interrogate" else {"oc": "mod.cxx"}

    def argv(self):
        if self.tool == "interrogate":
            return [self.b["interrogate"], "-oc", "out.cxx", "-od", "out.in", "-oh", "out.txt",
                    "-module", "m", "-library", "l"] + BACKENDS[self.backend] + self.extra + self.inputs
        flag = {"python": "-python", "pynative": "-python-native", "c": "-c"}[self.backend]
        return [self.b["interrogate_module"], "-oc", "mod.cxx", "-module", "m", "-library", "l", flag] + self.extra + self.inputs

    def run(self, dev):
        """Runs the scenario under deviation dev; returns observation."""
        env, pre = apply_dev(dev, self.seams, self.b, self.dir, self)
        for fn in self.outputs().values():
            p = os.path.join(self.dir, fn)
            if os.path.lexists(p):
                os.unlink(p)
        mol = os.path.join(self.dir, "mo.log")
        if os.path.exists(mol):
            os.unlink(mol)
        if dev.get("stale") == "present":
            for ch, fn in self.outputs().items():
                with open(os.path.join(self.dir, fn), "wb") as f:
                    f.write(self.stale[ch])
        cmd = pre + self.argv()
        r = tools.run(cmd, cwd=self.cwd, env=env, timeout=300, text=False)
        r_ok = r.rc == 0
        outs = {}
        for ch, fn in self.outputs().items():
            p = os.path.join(self.dir, fn)
            outs[ch] = open(p, "rb").read() if os.path.exists(p) else None
        sized = None
        if os.path.exists(mol):
            m = re.search(r"allocs (\d+) sized (\d+)", open(mol).read())
            sized = int(m.group(2)) if m else None
        if "alloc" in dev and "recycle" in dev["alloc"] and r_ok and self.tool == "interrogate":
            m = re.search(r"recycled (\d+)", open(mol).read()) if os.path.exists(mol) else None
            if not m or int(m.group(1)) == 0:
                raise HarnessError("recycling allocator never reused a block in %s" % self.name)
        if "alloc" in dev and r_ok and sized is None:
            raise HarnessError("allocator seam was not active in %s under %s" % (self.name, dev_key(dev)))
        return {"rc": r.rc, "timeout": r.timeout, "stderr": r.err.decode("latin-1")[-500:],
                "outs": outs, "sized": sized, "cmd": cmd}


ID_IN_RE = re.compile(rb"\A(-?\d+)\n")
ID_CODE_RES = [re.compile(rb"(\n  )(-?\d+)(,  /\* file_identifier \*/)"),
               re.compile(rb"(_in_module_def = \{\n  )(-?\d+)(,)")]


def find_ids(outs):
    """-> (id in database, id in code, masked outs)"""
    masked = dict(outs)
    idb = idc = None
    if outs.get("od"):
        m = ID_IN_RE.search(outs["od"])
        if m:
            idb = int(m.group(1))
            masked["od"] = b"ID\n" + outs["od"][m.end():]
    if outs.get("oc"):
        for rx in ID_CODE_RES:
            m = rx.search(outs["oc"])
            if m:
                idc = int(m.group(2))
                masked["oc"] = outs["oc"][:m.start(2)] + b"ID" + outs["oc"][m.end(2):]
                break
    return idb, idc, masked


def first_diff(a, b):
    if a is None or b is None:
        return "file %s" % ("missing" if b is None else "unexpected")
    n = min(len(a), len(b))
    i = next((k for k in range(n) if a[k] != b[k]), n)
    line = a.count(b"\n", 0, i) + 1
    ls = a.rfind(b"\n", 0, i) + 1
    return "first difference at byte %d (line %d): reference %r / this run %r" % (
        i, line, a[ls:ls + 160].split(b"\n")[0][:120], b[b.rfind(b"\n", 0, i) + 1:][:160].split(b"\n")[0][:120])


def judge(scen, dev, o):
    """-> list of problems (strings)"""
    bad = []
    if o["rc"] != 0:
        return ["exit status %s (%s)" % (o["rc"], o["stderr"][-200:])]
    ref = scen.ref
    sde = dev.get("sde", "")
    if sde.startswith("val:"):
        # the value is an input: same value, different instant => same bytes; whatever number
        # the tool derives from the value, code and database carry the same one
        idb, idc, _ = find_ids(o["outs"])
        if scen.tool == "interrogate":
            if idb is None or (scen.backend == "pynative" and idc is None):
                bad.append("file identifier not found (database %s, code %s)" % (idb, idc))
            elif idc is not None and idb != idc:
                bad.append("file identifier in the database (%d) differs from the one in the code (%d)" % (idb, idc))
        if dev.get("clock") == T2001:
            scen.sde_refs.setdefault(sde, o["outs"])
        else:
            gref = scen.sde_refs.get(sde)
            if gref is None:
                raise HarnessError("no reference run for %s in %s" % (sde, scen.name))
            for ch in sorted(gref):
                if o["outs"][ch] != gref[ch]:
                    bad.append("SOURCE_DATE_EPOCH=%r: -%s differs between two instants: %s"
                               % (sde[4:], ch, first_diff(gref[ch], o["outs"][ch])))
        return bad
    if sde not in ("unset", "empty"):
        for ch in sorted(ref["outs"]):
            if o["outs"][ch] != ref["outs"][ch]:
                bad.append("-%s differs from the reference run: %s" % (ch, first_diff(ref["outs"][ch], o["outs"][ch])))
    else:
        idb, idc, masked = find_ids(o["outs"])
        _, _, rmasked = find_ids(ref["outs"])
        for ch in sorted(ref["outs"]):
            if masked[ch] != rmasked[ch]:
                bad.append("-%s differs in more than the file identifier: %s" % (ch, first_diff(rmasked[ch], masked[ch])))
        if scen.tool == "interrogate":
            # only the python-native back-end compiles the identifier into the code (the module
            # definition of the other back-ends is disabled in interrogateBuilder::write_code)
            need_code = scen.backend == "pynative"
            if idb is None or (need_code and idc is None):
                bad.append("file identifier not found (database %s, code %s)" % (idb, idc))
            elif idc is not None and idb != idc:
                bad.append("file identifier in the database (%d) differs from the one in the code (%d)" % (idb, idc))
            elif "clock" in dev and idb != int(dev["clock"]):
                bad.append("file identifier %d is not the clock value %s" % (idb, dev["clock"]))
    return bad


# ----------------------------------------------------------------------------- main
def build_scenarios(ck, b, seams, thorough):
    scens = []
    for hname, gen in HEADERS:
        files = gen()
        if thorough and hname == "manyfn":
            files = h_many_functions(6000)
        for be in ("c", "python", "pynative"):
            extra = ["-I", "."] if hname == "includes" else []
            if hname == "foreign":
                extra = ["-I", "ext", "-S", "sys"]
            scens.append(Scenario(ck, b, seams, "i-%s-%s" % (hname, be), "interrogate", be, files, ["h.h"], extra))
    # option variants that add ordered tables to the output
    mix = h_mix()
    scens.append(Scenario(ck, b, seams, "i-mix-pynative-domodule", "interrogate", "pynative", mix, ["h.h"], ["-do-module"]))
    scens.append(Scenario(ck, b, seams, "i-mix-c-uniquenames", "interrogate", "c", mix, ["h.h"], ["-unique-names"]))
    scens.append(Scenario(ck, b, seams, "i-mix-python-domodule", "interrogate", "python", mix, ["h.h"], ["-do-module", "-unique-names"]))
    scens.append(Scenario(ck, b, seams, "i-ovl_ptr-pynative-promiscuous", "interrogate", "pynative", h_ovl_ptr(), ["h.h"], ["-promiscuous"]))
    return scens


def module_scenarios(ck, b, seams):
    """two libraries interrogated normally, then interrogate_module under deviations"""
    out = []
    lib1 = h_inherit()["h.h"]
    for be in ("python", "pynative", "c"):
        s = Scenario(ck, b, seams, "m-%s" % be, "interrogate_module", be, {"lib1.h": lib1, "lib2.h": h_lib2()},
                     ["lib1.in", "lib2.in"])
        for lib in ("lib1", "lib2"):
            r = tools.run([b["interrogate"], "-oc", lib + ".cxx", "-od", lib + ".in", "-module", "m",
                           "-library", lib] + BACKENDS[be] + [lib + ".h"], cwd=s.dir, b=b)
            if r.rc != 0:
                raise HarnessError("preparing %s for interrogate_module failed: %s" % (lib, r.brief()))
        out.append(s)
    return out


def main():
    ck = Check(PID, level="model_checking")
    b = build.build("rel")
    thorough = ck.tier == "thorough"
    seams = Seams(b)
    ck.extra["sizeof_FunctionRemap"] = seams.remap_size
    ck.extra["aslr_axis"] = (("setarch -R gives identical address maps in two processes; with ASLR on they %s"
                              % ("differ" if seams.aslr_on_varies else "are ALSO identical (ASLR is off on this host)"))
                             if seams.setarch_ok else "UNEXPLORED: setarch -R is refused or ineffective here")
    nm = tools.run(["nm", "-D", "--undefined-only", b["interrogate"]])
    calls_setlocale = bool(re.search(r"\bsetlocale\b|\buselocale\b|_ZNSt6locale6global", nm.out))
    ck.extra["locale_axis"] = ("UNEXPLORED: the tool calls setlocale/locale::global but only C/POSIX locales exist here"
                               if calls_setlocale else
                               "tools never call setlocale / std::locale::global (nm -D): LC_* can only reach them "
                               "through the environment block, which is what is varied")
    scens = build_scenarios(ck, b, seams, thorough) + module_scenarios(ck, b, seams)
    if ck.only:
        scens = [s for s in scens if any(s.name.startswith(o) or o in s.name for o in ck.only)]
    byname = {s.name: s for s in scens}

    if ck.replay:
        rp = ck.load_replay()
        s = byname[rp["detail"]["scenario"]]
        prepare(s, scens)
        dev = rp["detail"]["dev"]
        if dev.get("sde", "").startswith("val:") and dev.get("clock") != T2001:
            d0 = {"sde": dev["sde"], "clock": T2001}
            judge(s, d0, s.run(d0))
        o = s.run(dev)
        bad = judge(s, dev, o)
        print("scenario:", s.name, "deviation:", dev_key(dev))
        print("cmd:", " ".join(o["cmd"]))
        print("verdict:", bad or "identical to the reference run")
        ck.cleanup()
        return 1 if bad else 0

    singles = single_deviations(thorough)
    if not seams.setarch_ok:
        singles = [d for d in singles if "aslr" not in d]
    levels = [("singles", singles + nosde_deviations() + sde_value_deviations())]
    if thorough:
        prs = pair_deviations()
        if not seams.setarch_ok:
            prs = [d for d in prs if "aslr" not in d]
        levels.append(("pairs", prs))

    def do_scen(args):
        s, devs = args
        res = []
        for dev in devs:
            if ck.expired(reserve=20):
                break
            o = s.run(dev)
            res.append((dev, o, judge(s, dev, o)))
        return s, res

    for s in scens:
        prepare(s, scens)
    completed = "reference runs"
    # vacuity guard for the import orderings: the foreign scenario must really produce an imports
    # table in which several entries share their simple name
    # vacuity guard for the pwd axis: relative arguments must really end up as absolute names
    # in some output, and the directory must really have two names
    embeds = [s.name for s in scens if s.ref["outs"].get("oc") and s.dir.encode() in s.ref["outs"]["oc"]]
    ck.extra["scenarios_embedding_the_working_directory"] = len(embeds)
    if scens and not ck.only and not embeds:
        raise HarnessError("no scenario embeds the absolute working directory in its output: pwd axis is vacuous")
    for s in scens:
        if os.path.realpath(s.cwd) != s.dir or s.cwd == s.dir:
            raise HarnessError("working directory of %s is not behind a symbolic link" % s.name)
    # vacuity guard: three-digit exponents must really reach the outputs of every back-end
    for be in ("c", "python", "pynative"):
        fl = byname.get("i-floats-" + be)
        if fl is not None:
            n3 = len(re.findall(rb"\de[+-]?\d{3}\b", fl.ref["outs"]["oc"] + fl.ref["outs"]["od"]))
            ck.extra["three_digit_exponents_in_floats_" + be] = n3
            if n3 < 10:
                raise HarnessError("floats scenario (%s): only %d three-digit exponents reach the output" % (be, n3))
    ss = byname.get("i-statics-pynative")
    if ss is not None:
        nstat = ss.ref["outs"]["oc"].count(b"Dtool_NewStaticProperty")
        ck.extra["static_properties_in_statics_scenario"] = nstat
        if nstat < 8:
            raise HarnessError("statics scenario produces only %d static properties" % nstat)
    fs = byname.get("i-foreign-pynative")
    if fs is not None:
        names = re.findall(rb'^  \{"([^"]+)", nullptr\},$', fs.ref["outs"]["oc"], re.M)
        simple = [n.split(b"::")[-1] for n in names]
        homonyms = sorted({x.decode() for x in simple if simple.count(x) > 1})
        ck.extra["foreign_imports"] = len(names)
        ck.extra["foreign_import_homonyms"] = homonyms
        if len(names) < 10 or len(homonyms) < 3:
            raise HarnessError("foreign scenario does not exercise the imports table: %d imports, homonyms %s"
                               % (len(names), homonyms))
    sized_seen = 0
    for lname, devs in levels:
        if ck.expired(reserve=20):
            ck.cap("level %s not started: deadline" % lname)
            break
        total = 0
        for s, res in pmap(do_scen, [(s, devs) for s in scens]):
            total += len(res)
            if len(res) < len(devs):
                ck.cap("level %s: scenario %s stopped after %d of %d deviations (deadline)" % (lname, s.name, len(res), len(devs)))
            for dev, o, bad in res:
                key = "%s/%s" % (s.name, dev_key(dev))
                if o["sized"]:
                    sized_seen += 1
                # non-trivial: the deviation is one that can change internal order or embedded
                # values (everything except the plain re-run), and the scenario's output is
                # large enough to contain ordered material
                ck.note(key, nontrivial="rerun" not in dev, family=lname + ":" + "+".join(k for k in DIM_ORDER if k in dev),
                        outcome=("same" if not bad else "differs") + ":" + "+".join(k for k in DIM_ORDER if k in dev),
                        sample={"scenario": s.name, "dev": dev, "rc": o["rc"],
                                "sizes": {k: (len(v) if v is not None else None) for k, v in o["outs"].items()},
                                "blocks_of_remap_size": o["sized"]})
                if bad:
                    def confirm(s=s, dev=dev):
                        return bool(judge(s, dev, s.run(dev)))
                    ck.fail(key, "; ".join(bad)[:1500],
                            {"scenario": s.name, "dev": dev, "observed": "; ".join(bad)[:1500], "cmd": o["cmd"]},
                            confirm=confirm)
        if not ck.capped:
            completed = lname
    ck.extra["runs_with_permuted_remap_blocks"] = sized_seen
    if sized_seen == 0 and not ck.only:
        raise HarnessError("the permuting allocator never saw a block of sizeof(FunctionRemap)=%d" % seams.remap_size)
    return ck.finish(
        rule="one case = one execution of interrogate / interrogate_module for one (header set, back-end) "
             "under one environment deviation, compared byte for byte with the scenario's reference run; "
             "non-trivial = any deviation other than the plain re-run",
        exhaustive=True,
        bound="%d scenarios x (%d single deviations + %d runs without SOURCE_DATE_EPOCH + %d SOURCE_DATE_EPOCH "
              "values x 3 clocks%s)" % (
            len(scens), len(singles), len(nosde_deviations()), len(SDE_VALUES) + 1,
            " + %d pairs" % len(levels[1][1]) if thorough else ""),
        assumptions=["only the C/POSIX/C.UTF-8 locales exist in this image: other LC_* values change the "
                     "environment block but cannot change libc behaviour (see locale_axis)",
                     "address-space layout is varied through the allocator seam and ASLR on/off, not by "
                     "enumerating load addresses",
                     "the clock is varied at the libc boundary (time/gettimeofday/clock_gettime)"],
        states=len(scens))


def prepare(s, scens):
    """reference run + a different run's outputs to serve as stale files"""
    if s.ref is not None:
        return
    o = s.run({})
    if o["rc"] != 0 or any(v is None for k, v in o["outs"].items() if k != "oh"):
        raise HarnessError("reference run of %s failed: rc=%s %s" % (s.name, o["rc"], o["stderr"]))
    if o["outs"].get("oh") is None:
        o["outs"].pop("oh", None)
        s.outputs = lambda s=s: {k: v for k, v in Scenario.outputs(s).items() if k != "oh"}
    s.ref = o
    # stale content: something longer than and different from the real output
    s.stale = {ch: b"/* stale output of an earlier, different run */\n" + (v or b"")[::-1] + b"\nTRAILING STALE BYTES\n" * 50
               for ch, v in o["outs"].items()}


if __name__ == "__main__":
    run_main(main)
