"""Out-of-tree builds of the repository under test (current working tree).

Every check calls build('rel') / build('asan') first.  `cmake --build` is a
~0.3 s no-op when nothing changed and rebuilds exactly the touched unity TU
otherwise, so a check never trusts a stale binary.

VERIF_REPO      path of the source tree (default /repo)
VERIF_BUILD     where build dirs live (default /verif/.build)
"""
import fcntl
import hashlib
import os
import subprocess
import sys
import time

VERIF = os.path.dirname(os.path.dirname(os.path.abspath(__file__)))
GUARD = "INTERROGATE_VERIF"


def repo():
    return os.path.abspath(os.environ.get("VERIF_REPO", "/repo"))


def build_root():
    return os.environ.get("VERIF_BUILD", os.path.join(VERIF, ".build"))


FLAVOURS = {
    # the repository's own RelWithDebInfo flags + guard define
    "rel": dict(
        build_type="RelWithDebInfo",
        cxx="-Wno-error -D%s" % GUARD,
        ld="",
    ),
    "asan": dict(
        build_type="Debug",
        cxx="-Wno-error -O1 -g -fsanitize=address,undefined "
            "-fno-sanitize-recover=undefined -fno-omit-frame-pointer -D%s" % GUARD,
        ld="-fsanitize=address,undefined",
    ),
}


def flavour_dir(flavour):
    r = repo()
    tag = flavour
    if r != "/repo":
        tag += "-" + hashlib.sha1(r.encode()).hexdigest()[:8]
    return os.path.join(build_root(), tag)


class _Lock:
    def __init__(self, path):
        self.path = path

    def __enter__(self):
        os.makedirs(os.path.dirname(self.path), exist_ok=True)
        self.f = open(self.path, "w")
        fcntl.flock(self.f, fcntl.LOCK_EX)
        return self

    def __exit__(self, *a):
        fcntl.flock(self.f, fcntl.LOCK_UN)
        self.f.close()


def lock(name):
    return _Lock(os.path.join(build_root(), name + ".lock"))


def _run(cmd, log):
    p = subprocess.run(cmd, stdout=subprocess.PIPE, stderr=subprocess.STDOUT, text=True)
    with open(log, "a") as f:
        f.write("$ %s\n%s\n" % (" ".join(cmd), p.stdout))
    return p


_built = {}


def build(flavour="rel", quiet=True):
    """Configure (once) and build; returns dict of tool paths."""
    if flavour in _built:
        return _built[flavour]
    fl = FLAVOURS[flavour]
    d = flavour_dir(flavour)
    log = d + ".log"
    t0 = time.time()
    with lock(os.path.basename(d)):
        os.makedirs(d, exist_ok=True)
        if not os.path.exists(os.path.join(d, "build.ninja")):
            cmd = ["cmake", "-G", "Ninja", "-S", repo(), "-B", d,
                   "-DCMAKE_BUILD_TYPE=" + fl["build_type"],
                   "-DCMAKE_CXX_FLAGS=" + fl["cxx"],
                   "-DCMAKE_C_FLAGS=" + fl["cxx"]]
            if fl["ld"]:
                cmd += ["-DCMAKE_EXE_LINKER_FLAGS=" + fl["ld"],
                        "-DCMAKE_SHARED_LINKER_FLAGS=" + fl["ld"],
                        "-DCMAKE_MODULE_LINKER_FLAGS=" + fl["ld"]]
            p = _run(cmd, log)
            if p.returncode != 0:
                sys.stderr.write(p.stdout[-4000:])
                sys.stderr.write("HARNESS-ERROR: cmake configure failed (%s)" % flavour + "\n"); print("HARNESS-ERROR: cmake configure failed (%s)" % flavour, flush=True); sys.exit(2)
        p = _run(["cmake", "--build", d, "-j", "16"], log)
        if p.returncode != 0:
            sys.stderr.write(p.stdout[-6000:])
            msg = ("HARNESS-ERROR: build of %s failed (%s): the tree does not compile"
                   % (repo(), flavour))
            sys.stderr.write(msg + "\n")
            print(msg, flush=True)
            sys.exit(2)
    out = {
        "dir": d,
        "flavour": flavour,
        "interrogate": os.path.join(d, "bin", "interrogate"),
        "interrogate_module": os.path.join(d, "bin", "interrogate_module"),
        "parse_file": os.path.join(d, "bin", "parse_file"),
        "libdir": os.path.join(d, "lib"),
        "repo": repo(),
        "build_s": round(time.time() - t0, 2),
    }
    for k in ("interrogate", "interrogate_module", "parse_file"):
        if not os.path.exists(out[k]):
            sys.stderr.write("HARNESS-ERROR: %s missing after build" % out[k] + "\n"); print("HARNESS-ERROR: %s missing after build" % out[k], flush=True); sys.exit(2)
    _built[flavour] = out
    return out


def tool_env(b=None, extra=None):
    """Scrubbed, deterministic environment for running the tools."""
    env = {
        "PATH": "/usr/bin:/bin",
        "LC_ALL": "C",
        "TZ": "UTC",
        "SOURCE_DATE_EPOCH": "1000000000",
        "HOME": "/nonexistent",
        "ASAN_OPTIONS": "detect_leaks=0:abort_on_error=0:exitcode=99:allocator_may_return_null=1",
        "UBSAN_OPTIONS": "print_stacktrace=1:halt_on_error=1:exitcode=98",
    }
    if b is not None:
        env["LD_LIBRARY_PATH"] = b["libdir"]
    if extra:
        env.update(extra)
    return env


if __name__ == "__main__":
    for f in sys.argv[1:] or ["rel"]:
        print(build(f))
