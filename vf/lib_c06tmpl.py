"""C06 -- template-member family: types printed from INSIDE an instantiated class template.

One case = (template parameter list, instantiation arguments, role, element type, declarator
shape).  Each case is its own class template with one member, instantiated through a global
typedef:

    template<class T, int N> struct Tm7 { static void p7(const T (&a)[N]); };
    typedef Tm7<char, 4> I7;

and everything interrogate prints for the member of the instantiation (database prototype,
element type, typedef entry, every database type the wrappers refer to) as well as the template
as re-printed by parse_file (re-instantiated with the same arguments) must denote
decltype(I7::member) to g++.
"""

# parameter list id -> (text, has_T, has_N, instantiations [(argument text, T, N)])
PLS = {
    "T": ("class T", True, False, [("char", "char", None)]),
    "T,N": ("class T, int N", True, True,
            [("char, 4", "char", 4), ("S, 2", "::S", 2), ("Q<char, 2>, 3", "::Q<char, 2>", 3)]),
    "N": ("int N", False, True, [("4", None, 4)]),
    "T=int": ("class T = int", True, False, [("", "int", None), ("char", "char", None)]),
    "N=3": ("int N = 3", False, True, [("", None, 3), ("5", None, 5)]),
    "T,N=3": ("class T, int N = 3", True, True, [("char", "char", 3), ("long, 6", "long", 6)]),
}
# chained defaults: a default argument refers to an earlier parameter that may itself be
# defaulted; instantiated with 0..k explicit arguments.  (text, has type, has bound,
# [(arguments, concrete element type, concrete bound)]); the member is written over the LAST
# parameters of the chain, named in PL_NAMES (element type parameter, bound parameter)
PLS.update({
    "T,U=T": ("class T, class U = T", True, False,
              [("char", "char", None), ("char, long", "long", None)]),
    "T,U=T,V=Bx<U>": ("class T, class U = T, class V = Bx<U>", True, False,
                      [("char", "::Bx<char>", None), ("char, long", "::Bx<long>", None),
                       ("char, long, int", "int", None)]),
    "T,N=4,M=N*2": ("class T, int N = 4, int M = N * 2", True, True,
                    [("char", "char", 8), ("char, 3", "char", 6), ("char, 3, 5", "char", 5)]),
    "T,A=Al<T>,C=Cm<A>": ("class T, class A = Al<T>, class C = Cm<A>", True, False,
                          [("char", "::Cm< ::Al<char> >", None), ("char, long", "::Cm<long>", None),
                           ("char, long, int", "int", None)]),
    "N=2,M=N+1,T=Ar<int,M>": ("int N = 2, int M = N + 1, class T = Ar<int, M>", True, True,
                              [("", "::Ar<int, 3>", 3), ("5", "::Ar<int, 6>", 6),
                               ("5, 7", "::Ar<int, 7>", 7), ("5, 7, char", "char", 7)]),
})
PL_NAMES = {"T,U=T": ("U", None), "T,U=T,V=Bx<U>": ("V", None), "T,N=4,M=N*2": ("T", "M"),
            "T,A=Al<T>,C=Cm<A>": ("C", None), "N=2,M=N+1,T=Ar<int,M>": ("T", "M")}
PL_ORDER = list(PLS)
THOROUGH_EXTRA = {
    "T": [("S", "::S", None), ("Q<S, 3>", "::Q< ::S, 3>", None)],
    "T,N": [("unsigned long, 1", "unsigned long", 1), ("Q<Q<char, 2>, 2>, 2", "::Q< ::Q<char, 2>, 2>", 2)],
    "N": [("1", None, 1)],
    "T=int": [("Q<int, 2>", "::Q<int, 2>", None)],
}

PRELUDE = """\
struct S { int m; };
template<class X, int K> struct Q { X q[K]; };
template<class X> struct Bx { int z; };
template<class X> struct Al { int z; };
template<class X> struct Cm { int z; };
template<class X, int K> struct Ar { int z; };
"""

ELEMS = ("T", "int", "S")

# shape id -> (declarator format, usable as return type?, needs N?)
#   {E} element type, {n} declared name, {B} array bound, {A} the other parameter type
SHAPES = {
    "plain": ("{E} {n}", True, False),
    "ptr": ("{E} *{n}", True, False),
    "cptr": ("const {E} *{n}", True, False),
    "ref": ("{E} &{n}", True, False),
    "cref": ("const {E} &{n}", True, False),
    "arr": ("{E} {n}[{B}]", False, False),
    "arr2": ("{E} {n}[{B}][2]", False, False),
    "arrx": ("{E} {n}[{B} + 1]", False, True),
    "aptr": ("{E} *{n}[{B}]", False, False),
    "parr": ("{E} (*{n})[{B}]", True, False),
    "parr2": ("{E} (*{n})[{B}][2]", True, False),
    "rarr": ("{E} (&{n})[{B}]", True, False),
    "crarr": ("const {E} (&{n})[{B}]", True, False),
    "carr": ("const {E} {n}[{B}]", False, False),
    "fp": ("{E} (*{n})({A})", True, False),
    "fp2": ("{E} (*{n})(long, {A} *)", True, False),
    "fparr": ("void (*{n})({E} (&)[{B}])", True, False),
}
SHAPE_ORDER = list(SHAPES)
ROLES = ("data", "param", "ret", "typedef")
ROLE_PREFIX = {"data": "m", "param": "p", "ret": "r", "typedef": "t"}


class TCase:
    def __init__(self, pl, inst, role, elem, shape):
        self.pl, self.inst, self.role, self.elem, self.shape = pl, inst, role, elem, shape
        self.i = None
        self.reject = None
        self.term = ("b", "int")        # interface expected by the checker

    @property
    def key(self):
        return "tmember/%s/<%s>/%s/%s:%s" % (self.pl, self.inst[0], self.role, self.elem, self.shape)

    @property
    def name(self):
        return "%s%d" % (ROLE_PREFIX[self.role], self.i)

    def tmpl(self):
        return "Tm%d" % self.i

    def alias(self):
        return "I%d" % self.i

    def _fmt(self, name, E, B, A):
        return SHAPES[self.shape][0].format(E=E, n=name, B=B, A=A)

    def member(self):
        """The member declaration as written inside the template."""
        _, hasT, hasN, _ = PLS[self.pl]
        eP, bP = PL_NAMES.get(self.pl, ("T", "N"))
        B = (bP or "N") if hasN else "3"
        A = eP if hasT else "int"
        E = eP if self.elem == "T" else self.elem
        n = self.name
        if self.role == "data":
            return self._fmt(n, E, B, A) + ";"
        if self.role == "typedef":
            return "typedef " + self._fmt(n, E, B, A) + ";"
        if self.role == "param":
            return "static void %s(%s);" % (n, self._fmt("a", E, B, A))
        return "static " + self._fmt(n + "(void)", E, B, A) + ";"

    def render(self):
        text = PLS[self.pl][0]
        return ["template<%s> struct %s { %s };" % (text, self.tmpl(), self.member()),
                "typedef %s<%s> %s;" % (self.tmpl(), self.inst[0], self.alias())]

    def decl(self):
        return " ".join(self.render())

    def path(self):
        return "::%s::%s" % (self.alias(), self.name)

    def entity_type(self):
        if self.role == "typedef":
            return self.path()
        return "decltype(%s)" % self.path()

    def concrete(self, drop_const=False):
        """The member's type with the template arguments substituted, rendered by the
        generator (independent of interrogate)."""
        _, hasT, hasN, _ = PLS[self.pl]
        _, Tc, Nv = self.inst
        E = Tc if self.elem == "T" else {"int": "int", "S": "::S"}[self.elem]
        B = str(Nv) if hasN else "3"
        A = Tc if hasT else "int"
        txt = self._fmt("", E, B, A)
        if drop_const and txt.startswith("const "):
            txt = txt[6:]
        if self.role == "param":
            return "fn_param< %s >" % txt
        if self.role == "ret":
            return "fn_ret< %s >" % txt
        return txt

    def expected(self, term=None):
        return self.concrete()

    def paren_after_type_name(self):
        f = SHAPES[self.shape][0]
        return self.elem != "int" and (f.startswith("{E} (") or f.startswith("const {E} ("))

    def alts(self, chan):
        """Known-wrong renderings (see deviation:* known findings)."""
        f = SHAPES[self.shape][0]
        if self.paren_after_type_name() and f.startswith("const "):
            a = self.concrete(drop_const=True)
            if chan == "Dp":
                a = "std::add_pointer_t< %s >" % a
            return [("west-const-dropped", a)]
        return []

    def symbol_keys(self):
        ks = []
        if self.paren_after_type_name():
            role = {"data": "var", "param": "param", "ret": "ret", "typedef": "typedef"}[self.role]
            ks.append("symbol:type-name-then-parenthesised-declarator/" + role)
        return ks


def enumerate_cases(tier):
    out = []
    for pl in PL_ORDER:
        _, hasT, hasN, insts = PLS[pl]
        insts = list(insts)
        if tier == "thorough":
            insts += THOROUGH_EXTRA.get(pl, [])
        for inst in insts:
            for elem in ELEMS:
                if elem == "T" and not hasT:
                    continue
                for shape in SHAPE_ORDER:
                    _, ret_ok, needs_n = SHAPES[shape]
                    if needs_n and not hasN:
                        continue
                    for role in ROLES:
                        if role == "ret" and not ret_ok:
                            continue
                        out.append(TCase(pl, inst, role, elem, shape))
    out.sort(key=lambda c: (SHAPE_ORDER.index(c.shape), PL_ORDER.index(c.pl)))
    return out


def case_from_key(k):
    # tmember/<pl>/<args>/<role>/<elem>:<shape>
    rest = k[len("tmember/"):]
    pl, rest = rest.split("/<", 1)
    args, rest = rest.rsplit(">/", 1)
    role, es = rest.split("/", 1)
    elem, shape = es.split(":")
    for inst in PLS[pl][3] + THOROUGH_EXTRA.get(pl, []):
        if inst[0] == args:
            return TCase(pl, inst, role, elem, shape)
    raise ValueError("unknown instantiation in key " + k)
