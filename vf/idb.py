"""Independent reader / writer / model of the interrogate database text format (".in").

Written from the format description in InterrogateDatabase::write/read_new and the
output()/input() pairs of the record classes; it shares no code with the library and is
used as an oracle (C12) and as a generator of synthetic libraries (C12, C13, C16, C20).

API (everything else in this file is private)
---------------------------------------------
Model: a plain dict, same field names as the JSON printed by harness/idbdump.cxx `dump`:

    db = new_db(file_identifier=0, library_name="", library_hash_name="", module_name="",
                major=3, minor=3)
    db["functions"|"wrappers"|"types"|"manifests"|"elements"|"make_seqs"][index] = record
    function(**kw) wrapper(**kw) parameter(**kw) type_(**kw) derivation(**kw)
    enum_value(**kw) manifest(**kw) element(**kw) make_seq(**kw)    -> records with defaults

  Strings are Python str holding one character per *byte* (latin-1), so any byte string
  can be represented; indices are ints; vectors are lists.

write(db, minor=None) -> bytes      serialise (minor 0..3 selects the 3.<minor> layout)
parse(data: bytes) -> db            raises Truncated (data ends before the structure is
                                    complete), VersionError (major != 3 or minor > 3),
                                    FormatError (anything else).  A file that parses is
                                    *complete*: nothing but white space may follow.
from_dump(dump) -> db               model of what idbdump shows (header fields unknown)
load_defaults(db) -> db             copy with the documented load-time defaults applied:
                                    element fields absent from an older minor are 0 (done by
                                    parse already); functions named as constructor/destructor
                                    of a type get F_constructor / F_destructor
load_order(db, first=1) -> {old: new}   renumbering the loader performs: wrappers, functions,
                                    types, manifests, elements, make_seqs, each ascending
remap(db, mapping) -> db            copy with every index (keys and references) renamed;
                                    0 and unknown indices stay as they are
refs(db) -> iterator of (kind, index, field, target_kind, target_index)  all references
is_closed(db) -> list of dangling references
content(db) -> canonical, index-free description up to order-preserving renaming
isomorphic(a, b) -> None | str      None if equal up to index renaming, else a difference
empty_dump(dump) -> bool            the dump shows a database holding nothing
FLAGS                               flag names -> values, as documented in the headers
SIGMA                               the adversarial string alphabet of C12
"""
import copy

KINDS = ("functions", "wrappers", "types", "manifests", "elements", "make_seqs")

F_ARRAY = 0x400000

FLAGS = {
    "type": {
        "global": 0x1, "atomic": 0x2, "unsigned": 0x4, "signed": 0x8, "long": 0x10,
        "longlong": 0x20, "short": 0x40, "wrapped": 0x80, "pointer": 0x100, "const": 0x200,
        "struct": 0x400, "class": 0x800, "union": 0x1000, "fully_defined": 0x2000,
        "true_destructor": 0x4000, "private_destructor": 0x8000,
        "inherited_destructor": 0x10000, "implicit_destructor": 0x20000, "nested": 0x40000,
        "enum": 0x80000, "unpublished": 0x100000, "typedef": 0x200000, "array": 0x400000,
        "scoped_enum": 0x800000, "final": 0x1000000, "deprecated": 0x2000000,
    },
    "function": {
        "global": 0x1, "virtual": 0x2, "method": 0x4, "typecast": 0x8, "getter": 0x10,
        "setter": 0x20, "unary_op": 0x40, "operator_typecast": 0x80, "constructor": 0x100,
        "destructor": 0x200, "item_assignment": 0x400,
    },
    "wrapper": {
        "caller_manages": 0x1, "has_return": 0x2, "callable_by_name": 0x4,
        "copy_constructor": 0x8, "coerce_constructor": 0x10, "extension": 0x20,
        "deprecated": 0x40,
    },
    "parameter": {"has_name": 0x1, "is_this": 0x2, "is_optional": 0x4},
    "element": {
        "global": 0x1, "has_getter": 0x2, "has_setter": 0x4, "has_has_function": 0x8,
        "has_clear_function": 0x10, "has_del_function": 0x20, "sequence": 0x40,
        "mapping": 0x80, "has_insert_function": 0x100, "has_getkey_function": 0x200,
    },
    "manifest": {"has_type": 0x1, "has_getter": 0x2, "has_int_value": 0x4},
    "derivation": {"upcast": 0x1, "downcast": 0x2, "downcast_impossible": 0x4},
}

SIGMA = [
    ("empty", ""),
    ("blank", " "),
    ("newline", "\n"),
    ("a_b", "a b"),
    ("dquote", "\""),
    ("backslash", "\\"),
    ("hibytes", "\x80\xff\xc3\xa9"),
    ("digits", "12 34"),
    ("lead_trail", "  x  "),
    ("nl_inside", "a\nb\n"),
    ("tab_cr", "\t\r"),
    ("long3000", "".join(chr(33 + (i * 7) % 90) if i % 11 else " " for i in range(3000))),
]


class FormatError(Exception):
    pass


class Truncated(FormatError):
    pass


class VersionError(FormatError):
    pass


# ------------------------------------------------------------------------ model
def new_db(file_identifier=0, library_name="", library_hash_name="", module_name="",
           major=3, minor=3):
    d = {"file_identifier": file_identifier, "major": major, "minor": minor,
         "library_name": library_name, "library_hash_name": library_hash_name,
         "module_name": module_name}
    for k in KINDS:
        d[k] = {}
    return d


def _rec(defaults, kw):
    r = copy.deepcopy(defaults)
    for k, v in kw.items():
        if k not in r:
            raise KeyError(k)
        r[k] = v
    return r


_FUNCTION = {"name": "", "alt_names": [], "flags": 0, "class": 0, "scoped_name": "",
             "c_wrappers": [], "python_wrappers": [], "comment": "", "prototype": ""}
_WRAPPER = {"name": "", "alt_names": [], "flags": 0, "function": 0, "return_type": 0,
            "return_value_destructor": 0, "unique_name": "", "comment": "", "parameters": []}
_PARAMETER = {"name": "", "flags": 0, "type": 0}
_TYPE = {"name": "", "alt_names": [], "flags": 0, "scoped_name": "", "true_name": "",
         "outer_class": 0, "atomic_token": 0, "wrapped_type": 0, "array_size": 1,
         "constructors": [], "destructor": 0, "elements": [], "methods": [], "make_seqs": [],
         "casts": [], "derivations": [], "enum_values": [], "nested_types": [], "comment": ""}
_DERIVATION = {"flags": 0, "base": 0, "upcast": 0, "downcast": 0}
_ENUM_VALUE = {"name": "", "scoped_name": "", "comment": "", "value": 0}
_MANIFEST = {"name": "", "alt_names": [], "flags": 0, "int_value": 0, "type": 0, "getter": 0,
             "definition": ""}
_ELEMENT = {"name": "", "alt_names": [], "flags": 0, "type": 0, "getter": 0, "setter": 0,
            "has_function": 0, "clear_function": 0, "del_function": 0, "length_function": 0,
            "insert_function": 0, "getkey_function": 0, "scoped_name": "", "comment": ""}
_MAKE_SEQ = {"name": "", "alt_names": [], "length_getter": 0, "element_getter": 0,
             "scoped_name": "", "comment": ""}

_DEFAULTS = {"functions": _FUNCTION, "wrappers": _WRAPPER, "types": _TYPE,
             "manifests": _MANIFEST, "elements": _ELEMENT, "make_seqs": _MAKE_SEQ}


def function(**kw): return _rec(_FUNCTION, kw)
def wrapper(**kw): return _rec(_WRAPPER, kw)
def parameter(**kw): return _rec(_PARAMETER, kw)
def type_(**kw): return _rec(_TYPE, kw)
def derivation(**kw): return _rec(_DERIVATION, kw)
def enum_value(**kw): return _rec(_ENUM_VALUE, kw)
def manifest(**kw): return _rec(_MANIFEST, kw)
def element(**kw): return _rec(_ELEMENT, kw)
def make_seq(**kw): return _rec(_MAKE_SEQ, kw)


# where the index references are: kind -> [(field, target kind)]; vectors marked with "*",
# nested records as (field, [(subfield, target)])
_REFS = {
    "functions": [("class", "types"), ("c_wrappers*", "wrappers"), ("python_wrappers*", "wrappers")],
    "wrappers": [("function", "functions"), ("return_type", "types"),
                 ("return_value_destructor", "functions"),
                 ("parameters", [("type", "types")])],
    "types": [("outer_class", "types"), ("wrapped_type", "types"),
              ("constructors*", "functions"), ("destructor", "functions"),
              ("elements*", "elements"), ("methods*", "functions"),
              ("make_seqs*", "make_seqs"), ("casts*", "functions"),
              ("derivations", [("base", "types"), ("upcast", "functions"),
                               ("downcast", "functions")]),
              ("nested_types*", "types")],
    "manifests": [("type", "types"), ("getter", "functions")],
    "elements": [("type", "types"), ("getter", "functions"), ("setter", "functions"),
                 ("has_function", "functions"), ("clear_function", "functions"),
                 ("del_function", "functions"), ("length_function", "functions"),
                 ("insert_function", "functions"), ("getkey_function", "functions")],
    "make_seqs": [("length_getter", "functions"), ("element_getter", "functions")],
}


# ----------------------------------------------------------------------- writer
def _ostr(s, ws=" "):
    if s is None:
        s = ""
    return "%d%s" % (len(s), ws) + (s + ws if s else "")


def _ovec(v):
    return "%d " % len(v) + "".join("%d " % x for x in v)


def _comp(r):
    return _ostr(r["name"]) + "%d " % len(r["alt_names"]) + "".join(_ostr(a) for a in r["alt_names"])


def _w_function(r, minor):
    return (_comp(r) + "%d %d " % (r["flags"], r["class"]) + _ostr(r["scoped_name"])
            + _ovec(r["c_wrappers"]) + _ovec(r["python_wrappers"])
            + _ostr(r["comment"], "\n") + _ostr(r["prototype"], "\n"))


def _w_wrapper(r, minor):
    out = (_comp(r) + "%d %d %d %d " % (r["flags"], r["function"], r["return_type"],
                                        r["return_value_destructor"])
           + _ostr(r["unique_name"]) + _ostr(r["comment"]) + "%d " % len(r["parameters"]))
    for p in r["parameters"]:
        out += _ostr(p["name"]) + "%d %d " % (p["flags"], p["type"]) + " "
    return out


def _w_type(r, minor):
    out = (_comp(r) + "%d " % r["flags"] + _ostr(r["scoped_name"]) + _ostr(r["true_name"])
           + "%d %d %d " % (r["outer_class"], r["atomic_token"], r["wrapped_type"]))
    if r["flags"] & F_ARRAY:
        out += "%d " % r["array_size"]
    out += _ovec(r["constructors"]) + "%d " % r["destructor"]
    out += _ovec(r["elements"]) + _ovec(r["methods"]) + _ovec(r["make_seqs"]) + _ovec(r["casts"])
    out += "%d " % len(r["derivations"])
    for d in r["derivations"]:
        out += "%d %d %d %d" % (d["flags"], d["base"], d["upcast"], d["downcast"]) + " "
    out += "%d " % len(r["enum_values"])
    for e in r["enum_values"]:
        out += (_ostr(e["name"]) + _ostr(e["scoped_name"]) + _ostr(e["comment"], "\n")
                + "%d" % e["value"] + " ")
    out += _ovec(r["nested_types"]) + _ostr(r["comment"], "\n")
    return out


def _w_manifest(r, minor):
    return (_comp(r) + "%d %d %d %d " % (r["flags"], r["int_value"], r["type"], r["getter"])
            + _ostr(r["definition"]))


def _w_element(r, minor):
    out = _comp(r) + "%d %d %d %d " % (r["flags"], r["type"], r["getter"], r["setter"])
    if minor >= 1:
        out += "%d %d " % (r["has_function"], r["clear_function"])
    if minor >= 2:
        out += "%d %d " % (r["del_function"], r["length_function"])
    if minor >= 3:
        out += "%d %d " % (r["insert_function"], r["getkey_function"])
    return out + _ostr(r["scoped_name"]) + _ostr(r["comment"], "\n")


def _w_make_seq(r, minor):
    return (_comp(r) + "%d %d " % (r["length_getter"], r["element_getter"])
            + _ostr(r["scoped_name"]) + _ostr(r["comment"], "\n"))


_WRITERS = {"functions": _w_function, "wrappers": _w_wrapper, "types": _w_type,
            "manifests": _w_manifest, "elements": _w_element, "make_seqs": _w_make_seq}


def write(db, minor=None, major=None):
    """Serialise db in the 3.<minor> layout (default: db["minor"])."""
    minor = db.get("minor", 3) if minor is None else minor
    major = db.get("major", 3) if major is None else major
    out = ["%d\n%d %d\n" % (db.get("file_identifier", 0), major, minor)]
    out.append(_ostr(db.get("library_name")) + _ostr(db.get("library_hash_name"))
               + _ostr(db.get("module_name")) + "\n")
    for kind in KINDS:
        recs = db[kind]
        out.append("%d\n" % len(recs))
        for idx in sorted(recs):
            out.append("%d " % idx + _WRITERS[kind](recs[idx], minor) + "\n")
    return "".join(out).encode("latin-1")


# ----------------------------------------------------------------------- parser
_WS = " \t\n\r\v\f"


class _In:
    def __init__(self, data):
        self.s = data.decode("latin-1")
        self.p = 0

    def skip_ws(self):
        s, p, n = self.s, self.p, len(self.s)
        while p < n and s[p] in _WS:
            p += 1
        self.p = p

    def int(self):
        self.skip_ws()
        s, p, n = self.s, self.p, len(self.s)
        if p >= n:
            raise Truncated("number expected at end of data")
        q = p
        if s[q] in "+-":
            q += 1
        d = q
        while q < n and s[q].isdigit() and s[q] in "0123456789":
            q += 1
        if q == d:
            if q >= n:
                raise Truncated("sign without digits at end of data")
            raise FormatError("number expected at byte %d, found %r" % (p, s[p:p + 8]))
        self.p = q
        v = int(s[p:q])
        if not -2 ** 31 <= v < 2 ** 31:
            raise FormatError("number out of int range at byte %d" % p)
        return v

    def count(self, what):
        v = self.int()
        if v < 0:
            raise FormatError("negative %s" % what)
        return v

    def str(self):
        n = self.count("string length")
        if self.p >= len(self.s):
            raise Truncated("separator after string length missing")
        self.p += 1                       # exactly one separator character
        if self.p + n > len(self.s):
            raise Truncated("string of %d bytes cut short" % n)
        v = self.s[self.p:self.p + n]
        self.p += n
        return v

    def vec(self):
        return [self.int() for _ in range(self.count("vector length"))]


def _r_comp(i, r):
    r["name"] = i.str()
    r["alt_names"] = [i.str() for _ in range(i.count("alt_names"))]


def _r_function(i, minor):
    r = function()
    _r_comp(i, r)
    r["flags"] = i.int()
    r["class"] = i.int()
    r["scoped_name"] = i.str()
    r["c_wrappers"] = i.vec()
    r["python_wrappers"] = i.vec()
    r["comment"] = i.str()
    r["prototype"] = i.str()
    return r


def _r_wrapper(i, minor):
    r = wrapper()
    _r_comp(i, r)
    r["flags"] = i.int()
    r["function"] = i.int()
    r["return_type"] = i.int()
    r["return_value_destructor"] = i.int()
    r["unique_name"] = i.str()
    r["comment"] = i.str()
    for _ in range(i.count("parameters")):
        p = parameter()
        p["name"] = i.str()
        p["flags"] = i.int()
        p["type"] = i.int()
        r["parameters"].append(p)
    return r


def _r_type(i, minor):
    r = type_()
    _r_comp(i, r)
    r["flags"] = i.int()
    r["scoped_name"] = i.str()
    r["true_name"] = i.str()
    r["outer_class"] = i.int()
    r["atomic_token"] = i.int()
    r["wrapped_type"] = i.int()
    if r["flags"] & F_ARRAY:
        r["array_size"] = i.int()
    r["constructors"] = i.vec()
    r["destructor"] = i.int()
    r["elements"] = i.vec()
    r["methods"] = i.vec()
    r["make_seqs"] = i.vec()
    r["casts"] = i.vec()
    for _ in range(i.count("derivations")):
        d = derivation()
        d["flags"] = i.int()
        d["base"] = i.int()
        d["upcast"] = i.int()
        d["downcast"] = i.int()
        r["derivations"].append(d)
    for _ in range(i.count("enum_values")):
        e = enum_value()
        e["name"] = i.str()
        e["scoped_name"] = i.str()
        e["comment"] = i.str()
        e["value"] = i.int()
        r["enum_values"].append(e)
    r["nested_types"] = i.vec()
    r["comment"] = i.str()
    return r


def _r_manifest(i, minor):
    r = manifest()
    _r_comp(i, r)
    r["flags"] = i.int()
    r["int_value"] = i.int()
    r["type"] = i.int()
    r["getter"] = i.int()
    r["definition"] = i.str()
    return r


def _r_element(i, minor):
    r = element()
    _r_comp(i, r)
    r["flags"] = i.int()
    r["type"] = i.int()
    r["getter"] = i.int()
    r["setter"] = i.int()
    if minor >= 1:
        r["has_function"] = i.int()
        r["clear_function"] = i.int()
    if minor >= 2:
        r["del_function"] = i.int()
        r["length_function"] = i.int()
    if minor >= 3:
        r["insert_function"] = i.int()
        r["getkey_function"] = i.int()
    r["scoped_name"] = i.str()
    r["comment"] = i.str()
    return r


def _r_make_seq(i, minor):
    r = make_seq()
    _r_comp(i, r)
    r["length_getter"] = i.int()
    r["element_getter"] = i.int()
    r["scoped_name"] = i.str()
    r["comment"] = i.str()
    return r


_READERS = {"functions": _r_function, "wrappers": _r_wrapper, "types": _r_type,
            "manifests": _r_manifest, "elements": _r_element, "make_seqs": _r_make_seq}


def parse_header(data):
    """(file_identifier, major, minor) or raises Truncated/FormatError."""
    i = _In(data)
    return i.int(), i.int(), i.int()


def parse(data):
    i = _In(data)
    ident = i.int()
    major = i.int()
    minor = i.int()
    if major != 3 or minor > 3 or minor < 0:
        raise VersionError("version %d.%d" % (major, minor))
    db = new_db(ident, major=major, minor=minor)
    db["library_name"] = i.str()
    db["library_hash_name"] = i.str()
    db["module_name"] = i.str()
    for kind in KINDS:
        for _ in range(i.count(kind)):
            idx = i.int()
            rec = _READERS[kind](i, minor)
            if idx in db[kind]:
                raise FormatError("duplicate %s index %d" % (kind, idx))
            db[kind][idx] = rec
    i.skip_ws()
    if i.p != len(i.s):
        raise FormatError("trailing data at byte %d" % i.p)
    return db


# ------------------------------------------------------------------ conversions
def from_dump(dump):
    """Model of an idbdump `dump` value.  Per-record lib/mod are kept under "_lib"/"_mod"."""
    db = new_db()
    for kind in KINDS:
        for k, rec in dump[kind].items():
            r = copy.deepcopy(_DEFAULTS[kind])
            for f in r:
                if f in rec:
                    r[f] = copy.deepcopy(rec[f])
            db[kind][int(k)] = r
    return db


def load_defaults(db):
    out = copy.deepcopy(db)
    fl = FLAGS["function"]
    for t in out["types"].values():
        if t["destructor"] and t["destructor"] in out["functions"]:
            out["functions"][t["destructor"]]["flags"] |= fl["destructor"]
        for c in t["constructors"]:
            if c in out["functions"]:
                out["functions"][c]["flags"] |= fl["constructor"]
    return out


def load_order(db, first=1):
    m = {}
    n = first
    for kind in ("wrappers", "functions", "types", "manifests", "elements", "make_seqs"):
        for idx in sorted(db[kind]):
            m[idx] = n
            n += 1
    return m


def _map(m, x):
    return m.get(x, x) if x else x


def remap(db, mapping):
    out = copy.deepcopy(db)
    for kind in KINDS:
        recs = {}
        for idx, r in out[kind].items():
            for field, tgt in _REFS[kind]:
                if isinstance(tgt, list):
                    for sub in r[field]:
                        for sf, _t in tgt:
                            sub[sf] = _map(mapping, sub[sf])
                elif field.endswith("*"):
                    f = field[:-1]
                    r[f] = [_map(mapping, x) for x in r[f]]
                else:
                    r[field] = _map(mapping, r[field])
            recs[_map(mapping, idx)] = r
        if len(recs) != len(out[kind]):
            raise ValueError("mapping is not injective on " + kind)
        out[kind] = recs
    return out


def refs(db):
    for kind in KINDS:
        for idx, r in db[kind].items():
            for field, tgt in _REFS[kind]:
                if isinstance(tgt, list):
                    for n, sub in enumerate(r[field]):
                        for sf, t in tgt:
                            yield kind, idx, "%s[%d].%s" % (field, n, sf), t, sub[sf]
                elif field.endswith("*"):
                    for n, x in enumerate(r[field[:-1]]):
                        yield kind, idx, "%s[%d]" % (field[:-1], n), tgt, x
                else:
                    yield kind, idx, field, tgt, r[field]


def is_closed(db):
    bad = []
    for kind, idx, field, tgt, x in refs(db):
        if x != 0 and x not in db[tgt]:
            bad.append((kind, idx, field, tgt, x))
    return bad


def content(db):
    """Index-free canonical description: every index is replaced by (kind, rank of the index
    among the indices of that kind).  Equal contents <=> equal up to an order-preserving
    renaming (which is what the loader's renumbering is)."""
    m = {}
    for kind in KINDS:
        for rank, idx in enumerate(sorted(db[kind])):
            m[idx] = "%s#%d" % (kind, rank)
    # references to things that are not there keep a recognisable spelling
    class _M(dict):
        def get(self, k, d=None):
            return dict.get(self, k, "dangling:%s" % k)
    r = remap(db, _M(m))
    return {k: r[k] for k in KINDS}


def _diff(a, b, path=""):
    if type(a) != type(b):
        return "%s: %r != %r" % (path, a, b)
    if isinstance(a, dict):
        for k in sorted(set(a) | set(b), key=str):
            if k not in a:
                return "%s: unexpected %r" % (path, k)
            if k not in b:
                return "%s: missing %r" % (path, k)
            d = _diff(a[k], b[k], "%s/%s" % (path, k))
            if d:
                return d
        return None
    if isinstance(a, list):
        if len(a) != len(b):
            return "%s: length %d != %d" % (path, len(a), len(b))
        for n, (x, y) in enumerate(zip(a, b)):
            d = _diff(x, y, "%s[%d]" % (path, n))
            if d:
                return d
        return None
    if a != b:
        return "%s: %r != %r" % (path, _short(a), _short(b))
    return None


def _short(x):
    if isinstance(x, str) and len(x) > 60:
        return x[:40] + "...(%d bytes)" % len(x)
    return x


def diff(a, b):
    """First difference between two models compared index for index (None if equal)."""
    return _diff({k: a[k] for k in KINDS}, {k: b[k] for k in KINDS})


def _signature_mapping(a, b):
    """Candidate renaming a->b keyed on the string content of each record (only usable when
    that content is unique within its kind)."""
    m = {}
    for kind in KINDS:
        def sig(r):
            return repr(sorted((k, v) for k, v in r.items() if isinstance(v, str)))
        sa, sb = {}, {}
        for idx, r in a[kind].items():
            sa.setdefault(sig(r), []).append(idx)
        for idx, r in b[kind].items():
            sb.setdefault(sig(r), []).append(idx)
        for s, la in sa.items():
            lb = sb.get(s)
            if lb is None or len(lb) != len(la):
                return None
            for x, y in zip(sorted(la), sorted(lb)):
                m[x] = y
    return m


def isomorphic(a, b):
    """None if a and b are equal up to a renaming of indices, else a description of the
    first difference under the best candidate renaming.  Candidates: the order-preserving
    renaming, then a renaming keyed on record string content."""
    for kind in KINDS:
        if len(a[kind]) != len(b[kind]):
            return "%d %s != %d" % (len(a[kind]), kind, len(b[kind]))
    d = _diff(content(a), content(b))
    if d is None:
        return None
    m = _signature_mapping(a, b)
    if m is not None:
        try:
            if diff(remap(a, m), b) is None:
                return None
        except ValueError:
            pass
    return d


def empty_dump(dump):
    return (all(not dump[k] for k in KINDS)
            and not dump["global_types"] and not dump["all_types"]
            and not dump["global_functions"] and not dump["all_functions"]
            and not dump["global_manifests"] and not dump["global_elements"]
            and dump["next_index"] == 1)
