"""C01 driver -- runs in its own process (/usr/bin/python3 -S vf/c01_driver.py plan.json).

Calls every planned wrapper (through ctypes for -c, through the imported extension module
for -python) and the matching native oracle entry on identically constructed objects, and
compares return values, trace buffers and object states call by call.  Knows nothing about
interrogate: the wrapper's symbol / parameter / return types come from the plan, which the
check built from the database only.
"""
import ctypes
import json
import struct
import sys

C = ctypes


def main():
    plan = json.load(open(sys.argv[1]))
    backend = plan["backend"]
    lib = C.CDLL(plan["so"], mode=C.RTLD_GLOBAL)
    mod = None
    if backend == "python":
        import importlib.machinery
        import importlib.util
        loader = importlib.machinery.ExtensionFileLoader(plan["module"], plan["so"])
        spec = importlib.util.spec_from_loader(plan["module"], loader)
        mod = importlib.util.module_from_spec(spec)
        loader.exec_module(mod)
    sz = C.c_size_t()

    lib.vf_trace_take.restype = C.c_void_p
    lib.vf_state.restype = C.c_void_p
    lib.vf_r_s.restype = C.c_void_p
    lib.vf_r_p.restype = C.c_void_p
    lib.vf_r_i.restype = C.c_longlong
    lib.vf_r_u.restype = C.c_ulonglong
    lib.vf_r_f.restype = C.c_uint
    lib.vf_r_d.restype = C.c_ulonglong
    lib.vf_a.restype = C.c_void_p
    lib.vf_a.argtypes = [C.c_int]

    def take(fn):
        p = fn(C.byref(sz))
        return C.string_at(p, sz.value).decode("latin-1") if p else ""

    def fdec(v):
        return struct.unpack("<d", bytes.fromhex(v["f"]))[0]

    def objptr(v, ctx):
        if "t" in v:
            return ctx["this"][v["t"]]
        if v["o"] is None:
            return None
        return ctx["A"][v["o"]]

    def conv_ct(v, ct, ctx, keep):
        """value -> list of ctypes arguments for a parameter of ctypes type name ct"""
        if ct == "str":
            b = bytes.fromhex(v["s"])
            keep.append(b)
            return [C.c_char_p(b), C.c_size_t(len(b))]
        if ct == "c_char_p":
            b = bytes.fromhex(v["s"])
            keep.append(b)
            return [C.c_char_p(b)]
        if ct == "arr_int":
            buf = (C.c_int * len(v["arr"]))(*v["arr"])
            keep.append(buf)
            ctx["bufs"].append(buf)
            return [buf]
        if ct == "c_void_p":
            return [C.c_void_p(objptr(v, ctx))]
        if ct in ("c_float", "c_double"):
            return [getattr(C, ct)(fdec(v))]
        if ct == "c_bool":
            return [C.c_bool(bool(v))]
        return [getattr(C, ct)(v)]

    def cat_ct(cat):
        k = cat[0]
        if k == "bool":
            return "c_bool"
        if k == "char":
            return "c_ubyte" if cat[1] == "u" else "c_byte"
        if k == "int":
            base = {"short": "short", "int": "int", "long": "long", "longlong": "longlong"}[cat[1]]
            return "c_" + ("" if cat[2] else "u") + base
        if k == "float":
            return "c_float"
        if k == "double":
            return "c_double"
        if k == "enum":
            return "c_int"
        if k == "string":
            return "c_char_p"
        if k == "ptr":
            t = cat[1]
            while t[0] == "const":
                t = t[1]
            return "c_char_p" if t[0] == "char" else "c_void_p"
        if k == "void":
            return None
        if k == "array" and tuple(cat[1]) == ("int", "int", True):
            return "arr_int"
        raise ValueError("no ctypes type for database category %r" % (cat,))

    def conv_py(v, cat, ctx, keep):
        k = cat[0]
        if k == "bool":
            return bool(v)
        if k in ("char", "int", "enum"):
            return int(v)
        if k in ("float", "double"):
            return fdec(v)
        ct = cat_ct(cat)
        if ct == "arr_int":
            buf = conv_ct(v, ct, ctx, keep)[0]
            return C.addressof(buf)
        if ct == "c_char_p":
            s = bytes.fromhex(v["s"]).decode("utf-8")
            keep.append(s)
            return s
        p = objptr(v, ctx)
        return 0 if p is None else p

    def norm_c(r, cat):
        k = cat[0]
        if k == "void":
            return ["void"]
        if k == "bool":
            return ["i", int(bool(r))]
        if k in ("char", "int", "enum"):
            return ["i", int(r)]
        if k == "float":
            return ["f", struct.pack("<f", r).hex()]
        if k == "double":
            return ["d", struct.pack("<d", r).hex()]
        if cat_ct(cat) == "c_char_p":
            return ["s", None if r is None else r.hex()]
        return ["p", r or 0]

    def norm_py(r, cat):
        if r is None:
            return ["void"]
        if isinstance(r, bool):
            return ["i", int(r)]
        if isinstance(r, int):
            if cat[0] == "ptr":
                return ["p", r]
            return ["i", r]
        if isinstance(r, float):
            return ["pyf", struct.pack("<d", r).hex()]
        if isinstance(r, str):
            return ["s", r.encode("utf-8", "surrogatepass").hex()]
        if isinstance(r, bytes):
            return ["s", r.hex()]
        return ["other", repr(type(r))]

    def oracle_result():
        tag = lib.vf_r_tag()
        if tag == 0:
            return ["void"]
        if tag == 1:
            return ["i", lib.vf_r_i()]
        if tag == 2:
            return ["i", lib.vf_r_u()]
        if tag == 3:
            return ["f", struct.pack("<I", lib.vf_r_f()).hex()]
        if tag == 4:
            return ["d", struct.pack("<Q", lib.vf_r_d()).hex()]
        if tag == 5:
            p = lib.vf_r_s(C.byref(sz))
            return ["s", None if not p else C.string_at(p, sz.value).hex()]
        if tag == 6:
            return ["p", lib.vf_r_p() or 0]
        if tag == 7:
            return ["v", lib.vf_r_i()]
        return ["?", tag]

    def accessor(name, cls, restype):
        f = getattr(lib, "%s_%s" % (name, cls))
        f.restype = restype
        f.argtypes = [C.c_void_p]
        return f

    def canon(res, ret, ctx, this_ptr):
        """reduce a normalised result to the thing that must be equal on both sides"""
        if res[0] in ("exc", "other", "?"):
            return res
        if ret[0] == "void":
            return res
        if ret[0] == "k":
            kind = ret[1]
            if kind in ("Ap", "cAp", "Ar", "cAr"):
                if res[0] != "p":
                    return ["badtype"] + res
                return ["id", accessor("vf_id", "A", C.c_int)(res[1]) if res[1] else 0]
            if kind == "Av":
                if res[0] == "v":
                    return ["val", res[1]]
                if res[0] != "p" or not res[1]:
                    return ["badtype"] + res
                return ["val", accessor("vf_val", "A", C.c_longlong)(res[1])]
            if res[0] == "f":      # a float: as the double it converts to
                return ["pyf", struct.pack("<d", struct.unpack("<f", bytes.fromhex(res[1]))[0]).hex(), "float"]
            if res[0] == "d":
                return ["pyf", res[1], "double"]
            if res[0] == "pyf":
                return ["pyf", res[1], "py"]
            return res
        if ret[0] == "obj":
            cls, how = ret[1], ret[2]
            if res[0] != "p" or not res[1]:
                return ["badtype"] + res
            if how == "val":
                return ["val", accessor("vf_val", cls, C.c_longlong)(res[1])]
            if how == "id":
                return ["id", accessor("vf_id", cls, C.c_int)(res[1])]
            return ["idoff", accessor("vf_id", cls, C.c_int)(res[1]), res[1] - (this_ptr or 0)]
        return res

    def same(a, b):
        if a[0] == "pyf" and b[0] == "pyf":
            # width tags must agree unless one side is a Python float (always a double)
            if a[1] != b[1]:
                return False
            return "py" in (a[2], b[2]) or a[2] == b[2]
        return a == b

    out = open(plan["out"], "w")
    prog = open(plan["progress"], "w")
    for sp in plan["specs"]:
        prog.write("BEGIN %s\n" % sp["key"])
        prog.flush()
        keep = []
        try:
            res = run_spec(sp, backend, lib, mod, take, conv_ct, conv_py, cat_ct, norm_c, norm_py,
                           oracle_result, canon, same, keep)
        except Exception as e:       # a harness-side problem for this spec, reported as such
            res = {"ok": False, "harness": "%s: %s" % (type(e).__name__, e)}
        res["key"] = sp["key"]
        out.write(json.dumps(res) + "\n")
        out.flush()
    prog.write("END\n")
    prog.close()
    out.close()


def run_spec(sp, backend, lib, mod, take, conv_ct, conv_py, cat_ct, norm_c, norm_py, oracle_result,
             canon, same, keep):
    entry = getattr(lib, sp["entry"])
    entry.restype = None
    if backend == "c":
        wfn = getattr(lib, sp["wname"])
        rct = cat_ct(sp["dbr"])
        wfn.restype = getattr(C, rct) if rct else None
        pcts = [cat_ct(c) for c in sp["dbp"]]
        wfn.argtypes = [C.POINTER(C.c_int) if c == "arr_int" else getattr(C, c) for c in pcts]
    else:
        wfn = getattr(mod, sp["wname"])
    this = sp.get("this")

    def setup():
        lib.vf_reset()
        ctx = {"A": [lib.vf_a(i) for i in range(3)], "this": [], "bufs": []}
        if this:
            fac = getattr(lib, this["fac"])
            fac.restype = C.c_void_p
            fac.argtypes = [C.c_int]
            ctx["this"] = [fac(i) for i in range(this["n"])]
        take(lib.vf_trace_take)
        return ctx

    def prep(st, ctx):
        p = st.get("prep")
        if not p:
            return
        f = getattr(lib, p[0])
        f.restype = None
        octs = sp["prep_octypes"]
        args = []
        vals = ([{"t": p[1]}] if p[1] is not None else []) + p[2]
        for v, ct in zip(vals, octs):
            args += conv_ct(v, ct, ctx, keep)
        f(*args)
        take(lib.vf_trace_take)

    def full_args(st):
        return ([{"t": st["t"]}] if st["t"] is not None else []) + st["a"]

    def side(which):
        ctx = setup()
        rows = []
        for st in sp["steps"]:
            prep(st, ctx)
            ctx["bufs"] = []
            vals = full_args(st)
            this_ptr = ctx["this"][st["t"]] if st["t"] is not None else None
            if which == "o":
                args = []
                for v, ct in zip(vals, sp["octypes"]):
                    args += conv_ct(v, ct, ctx, keep)
                lib.vf_r_clear()
                entry(*args)
                r = oracle_result()
            elif backend == "c":
                args = []
                for v, ct in zip(vals, pcts):
                    args += conv_ct(v, ct, ctx, keep)
                r = norm_c(wfn(*args), sp["dbr"])
            else:
                args = [conv_py(v, c, ctx, keep) for v, c in zip(vals, sp["dbp"])]
                try:
                    r = norm_py(wfn(*args), sp["dbr"])
                except Exception as e:
                    r = ["exc", type(e).__name__, str(e)[:120]]
            r = canon(r, sp["ret"], ctx, this_ptr)
            tr = take(lib.vf_trace_take)
            stt = take(lib.vf_state)
            rows.append((r, tr, stt, [list(x) for x in ctx["bufs"]]))
        return rows

    w = side("w")
    o = side("o")
    ncalls = len(w)
    diff = None
    bodies = sp.get("body")
    distinct_r = set()
    ran = 0
    for i, ((wr, wt, ws, wb), (orr, ot, os_, ob)) in enumerate(zip(w, o)):
        distinct_r.add(json.dumps([orr, ot, os_]))
        st = sp["steps"][i]
        what = None
        if not same(wr, orr):
            what = "return"
        elif wt != ot:
            what = "trace"
        elif ws != os_:
            what = "state"
        elif wb != ob:
            what = "argument-buffer"
        elif bodies:
            exp = bodies[st["t"]] if (len(bodies) > 1 and st["t"] is not None) else bodies[0]
            lines = [l for l in wt.split("\n") if l]
            if not lines or not lines[-1].startswith(exp + "("):
                what = "body"
        if wt:
            ran += 1
        if what and diff is None:
            diff = {"call": i, "what": what, "step": st, "wrapper": {"ret": wr, "trace": wt[:400]},
                    "oracle": {"ret": orr, "trace": ot[:400]}}
            if what == "argument-buffer":
                diff["wrapper"]["buffers"], diff["oracle"]["buffers"] = wb, ob
            if what == "state":
                wl, ol = ws.split("\n"), os_.split("\n")
                dl = [(a, b) for a, b in zip(wl, ol) if a != b][:3]
                diff["wrapper"]["state"] = [a[:300] for a, b in dl]
                diff["oracle"]["state"] = [b[:300] for a, b in dl]
    kinds = sorted(set(row[0][0] for row in o))
    return {"ok": diff is None, "calls": ncalls, "diff": diff, "distinct_rows": len(distinct_r),
            "body_ran": ran, "rkind": "+".join(kinds)}


if __name__ == "__main__":
    main()
