"""Library families for C13: small header sets from which REAL interrogate runs produce
databases that share types in every way merge_from / merge_with distinguish.

A family is a list of LibSpec.  Every library lives in its own directory <root>/<dir>
and is interrogated with cwd = that directory and -I.., so that a header of ANOTHER
library, included as "otherdir/x.h", is a foreign (S_alternate) file: its classes are
recorded but not fully defined and not global -- unless a .N `forcetype` says otherwise.
A header copied into two directories is local in both: fully defined twice.

Every library carries a "unique block" (class U_<x> with a property, a nested enum, two
manifests, a global variable, a global function) used as lookup probe target.
"""
import os

from vf import tools
from vf.core import HarnessError


class LibSpec:
    def __init__(self, tag, files, args, backend=("-python-native",), defines=(), nfiles=None):
        self.tag = tag                  # short id: a, b, c, d  (also directory name l<tag>)
        self.dir = "l" + tag
        self.lib = "lib" + tag
        self.files = files              # {filename: text} written into the directory
        self.args = list(args)          # header names on the command line
        self.backend = list(backend)
        self.defines = list(defines)
        self.nfiles = nfiles or {}      # {stem.N: text}


def unique_block(x):
    return """
/// unique class of library %(x)s
class U_%(x)s {
__published:
  U_%(x)s();
  int get_u() const;
  void set_u(int v);
  __make_property(u_%(x)s, get_u, set_u);
  enum EU_%(x)s { eu_%(x)s_a, eu_%(x)s_b = 7 };
  EU_%(x)s mode() const;
};
__begin_publish
#define MU_%(x)s 11
#define MF_%(x)s 2.5
extern int gv_%(x)s;
int gf_%(x)s(U_%(x)s *p, const U_%(x)s &q);
__end_publish
""" % {"x": x}


def guard(name, body):
    g = name.upper().replace(".", "_").replace("/", "_")
    return "#ifndef %s\n#define %s\n%s\n#endif\n" % (g, g, body)


# ------------------------------------------------------------------ shared building blocks
S_H = guard("s.h", """
/// the shared class S
class S {
__published:
  S();
  S(int seed);
  int get_v() const;
  void set_v(int v);
  __make_property(v, get_v, set_v);
  enum Kind { K_a, K_b = 3, K_c };
  Kind kind() const;
  static S *make(Kind k);
  int n_items() const;
  int item(int i) const;
  __make_seq(get_items, n_items, item);
  class Inner {
  __published:
    Inner();
    int depth() const;
  };
  Inner *inner();
  int pub_field;
};
typedef S S_alias;
""")

C_H = guard("c.h", """
/// class C, present in more than one library
class C {
__published:
  C();
  int size() const;
  void resize(int n);
  __make_property(size, size, resize);
  enum Mode { M_x, M_y = 5 };
  Mode mode() const;
#ifdef EXTRA
  /// only with EXTRA
  double extra(double d) const;
  C *clone() const;
  int extra_field;
#endif
};
""")

TPL_H = guard("tpl.h", """
template<class T>
class Box {
__published:
  Box();
  T get() const;
  void set(T v);
};
typedef Box<int> BoxInt;
""")

E_H = guard("e.h", """
__begin_publish
/// shared enum
enum Color { C_red, C_green = 4, C_blue };
__end_publish
struct P {
__published:
  P();
  int x;
  int y;
};
""")


def uses_S(x, derive=True, typedef=False, element=True):
    out = ['#include "la/s.h"\n']
    if derive:
        out.append("class DS_%s : public S {\n__published:\n  DS_%s();\n  S::Kind other() const;\n};\n" % (x, x))
    if typedef:
        out.append("typedef S TS_%s;\n" % x)
    out.append("__begin_publish\n")
    out.append("int take_%s(S *p, const S &q, S::Inner *i);\n" % x)
    out.append("S ret_%s();\n" % x)
    if typedef:
        out.append("int viatd_%s(TS_%s *p);\n" % (x, x))
    if element:
        out.append("extern S *gs_%s;\n" % x)
    out.append("__end_publish\n")
    return "".join(out)


def fam_ref(k):
    """S defined in la, only referenced in the others (derivation, parameters, by-value
    return, global element, forced typedef)."""
    libs = [LibSpec("a", {"s.h": S_H, "ua.h": unique_block("a")}, ["s.h", "ua.h"])]
    for n, x in enumerate("bcd"[:k - 1]):
        td = n % 2 == 1
        libs.append(LibSpec(x, {"u%s.h" % x: unique_block(x) + uses_S(x, derive=(n != 1), typedef=td)},
                            ["u%s.h" % x],
                            nfiles={"u%s.N" % x: "forcetype TS_%s\n" % x} if td else None))
    return libs


def fam_fwd(k):
    """Fwd is forward-declared in every library and never defined; in the 4-library
    version the last one defines it."""
    libs = []
    for n, x in enumerate("abcd"[:k]):
        body = unique_block(x)
        if k == 4 and n == 3:
            body += "class Fwd {\n__published:\n  Fwd();\n  int weight() const;\n};\n"
        else:
            body += "class Fwd;\n"
        body += "__begin_publish\nint fwd_%s(Fwd *p);\nFwd *mk_%s(const Fwd *q);\n__end_publish\n" % (x, x)
        libs.append(LibSpec(x, {"u%s.h" % x: body}, ["u%s.h" % x]))
    return libs


def fam_same(k):
    """C fully defined (identical copies) in la and lb, referenced in lc (and ld)."""
    libs = []
    for x in "ab":
        libs.append(LibSpec(x, {"c.h": C_H, "u%s.h" % x: unique_block(x)}, ["c.h", "u%s.h" % x]))
    for x in "cd"[:k - 2]:
        body = unique_block(x) + '#include "la/c.h"\nclass DC_%s : public C {\n__published:\n  DC_%s();\n};\n' % (x, x)
        body += "__begin_publish\nC::Mode cm_%s(C *c);\n__end_publish\n" % x
        libs.append(LibSpec(x, {"u%s.h" % x: body}, ["u%s.h" % x]))
    return libs


def fam_diff(k):
    """C fully defined twice with different content (-DEXTRA in lb), referenced in lc;
    in the 4-library version ld defines the plain variant a third time."""
    libs = [LibSpec("a", {"c.h": C_H, "ua.h": unique_block("a")}, ["c.h", "ua.h"]),
            LibSpec("b", {"c.h": C_H, "ub.h": unique_block("b")}, ["c.h", "ub.h"], defines=["-DEXTRA"])]
    body = unique_block("c") + '#include "la/c.h"\n__begin_publish\nint usec_c(const C &c);\nextern C *gc_c;\n__end_publish\n'
    libs.append(LibSpec("c", {"uc.h": body}, ["uc.h"]))
    if k == 4:
        libs.append(LibSpec("d", {"c.h": C_H, "ud.h": unique_block("d")}, ["c.h", "ud.h"]))
    return libs


def fam_force(k):
    """S defined in la; lb sees it as a foreign file but forces it (forcetype S): fully
    defined and global a second time; lc (ld) only reference it."""
    libs = [LibSpec("a", {"s.h": S_H, "ua.h": unique_block("a")}, ["s.h", "ua.h"]),
            LibSpec("b", {"ub.h": unique_block("b") + uses_S("b", derive=False)}, ["ub.h"],
                    nfiles={"ub.N": "forcetype S\n"})]
    for x in "cd"[:k - 2]:
        libs.append(LibSpec(x, {"u%s.h" % x: unique_block(x) + uses_S(x, derive=True, element=False)},
                            ["u%s.h" % x]))
    return libs


def fam_global(k):
    """enum Color / struct P: global and fully defined in la (local file); in lb Color is
    fully defined but not global (foreign file, used in signatures); in lc it is ignored
    (`ignoretype`: neither fully defined nor global) and P is reached through a forced
    global typedef."""
    libs = [LibSpec("a", {"e.h": E_H, "ua.h": unique_block("a") +
                          '#include "e.h"\n__begin_publish\nColor next_a(Color c);\n__end_publish\n'},
                    ["e.h", "ua.h"])]
    libs.append(LibSpec("b", {"ub.h": unique_block("b") +
                              '#include "la/e.h"\n__begin_publish\nColor pick_b(const P &p);\nextern Color gcol_b;\n__end_publish\n'},
                        ["ub.h"]))
    libs.append(LibSpec("c", {"uc.h": unique_block("c") +
                              '#include "la/e.h"\ntypedef P PT_c;\n__begin_publish\nint area_c(PT_c *p, Color c = C_green);\n__end_publish\n'},
                        ["uc.h"], nfiles={"uc.N": "forcetype PT_c\nignoretype Color\n"}))
    if k == 4:
        libs.append(LibSpec("d", {"e.h": E_H, "ud.h": unique_block("d") + '#include "e.h"\n'}, ["e.h", "ud.h"]))
    return libs


def fam_tpl(k):
    """Box<int> instantiated (typedef + forcetype) in la and lb: the same template
    instance fully defined twice; lc mentions it through the foreign header."""
    libs = []
    for x in "ab":
        libs.append(LibSpec(x, {"tpl.h": TPL_H, "u%s.h" % x: unique_block(x) +
                                '#include "tpl.h"\n__begin_publish\nint unbox_%s(const BoxInt &b);\n__end_publish\n' % x},
                            ["tpl.h", "u%s.h" % x], nfiles={"tpl.N": "forcetype BoxInt\n"}))
    for x in "cd"[:k - 2]:
        libs.append(LibSpec(x, {"u%s.h" % x: unique_block(x) +
                                '#include "la/tpl.h"\n__begin_publish\nBoxInt *mkbox_%s();\n__end_publish\n' % x},
                            ["u%s.h" % x]))
    return libs


KINDS_H = guard("k.h", """
class Base1 {
__published:
  Base1();
  virtual int id1() const;
};
class Base2 {
__published:
  Base2();
  virtual int id2() const;
};
/// multiple + virtual inheritance: upcast/downcast functions
class Multi : public Base1, virtual public Base2 {
__published:
  Multi();
  operator int () const;
  int n_keys() const;
  int key(int i) const;
  bool has_val(int k) const;
  int get_val(int k) const;
  void set_val(int k, int v);
  void clear_val(int k);
  __make_map_property(vals, has_val, get_val, set_val, clear_val);
  __make_map_keys_seq(vals, n_keys, key);
  int n_seq() const;
  int get_seq(int i) const;
  void set_seq(int i, int v);
  void remove_seq(int i);
  void insert_seq(int i, int v);
  __make_seq_property(seq, n_seq, get_seq, set_seq, remove_seq, insert_seq);
  bool has_opt() const;
  int get_opt() const;
  void set_opt(int v);
  void clear_opt();
  __make_property2(opt, has_opt, get_opt, set_opt, clear_opt);
  __make_seq(get_keys, n_keys, key);
  int arr[4];
  Base1 by_value() const;
};
""")


def fam_kinds(k):
    """every record kind and every index-valued field, with la's classes used from lb/lc
    in each position (base, parameter, return by value, element, typedef)."""
    be = ("-c", "-python", "-fnames", "-unique-names")
    libs = [LibSpec("a", {"k.h": KINDS_H, "ua.h": unique_block("a")}, ["k.h", "ua.h"], backend=be)]
    libs.append(LibSpec("b", {"ub.h": unique_block("b") + '#include "la/k.h"\n'
                              "class MM_b : public Multi {\n__published:\n  MM_b();\n  Base2 *b2();\n};\n"
                              "__begin_publish\nextern Multi *gm_b;\nBase1 b1_b(const Multi &m);\n__end_publish\n"},
                        ["ub.h"], backend=be))
    libs.append(LibSpec("c", {"uc.h": unique_block("c") + '#include "la/k.h"\n#include "lb/ub.h"\n'
                              "typedef Multi MT_c;\n__begin_publish\nint mt_c(MT_c *m, MM_b *mm);\n__end_publish\n"},
                        ["uc.h"], nfiles={"uc.N": "forcetype MT_c\n"}))
    if k == 4:
        libs.append(LibSpec("d", {"k.h": KINDS_H, "ud.h": unique_block("d")}, ["k.h", "ud.h"]))
    return libs


def fam_chain(k):
    """A in la, B : A in lb, Cc : B in lc, all used in ld."""
    libs = [LibSpec("a", {"a.h": guard("a.h", "class A {\n__published:\n  A();\n  virtual int fa() const;\n};\n"),
                          "ua.h": unique_block("a")}, ["a.h", "ua.h"])]
    libs.append(LibSpec("b", {"b.h": guard("b.h", '#include "la/a.h"\nclass B : public A {\n__published:\n  B();\n  A *up();\n};\n'),
                              "ub.h": unique_block("b")}, ["b.h", "ub.h"]))
    libs.append(LibSpec("c", {"c.h": guard("cc.h", '#include "lb/b.h"\nclass Cc : public B {\n__published:\n  Cc();\n  B *upb();\n  A *upa();\n};\n'),
                              "uc.h": unique_block("c")}, ["c.h", "uc.h"]))
    if k == 4:
        libs.append(LibSpec("d", {"ud.h": unique_block("d") + '#include "lc/c.h"\n__begin_publish\n'
                                  "int all_d(A *a, B *b, Cc *c);\nextern Cc *gcc_d;\n__end_publish\n"}, ["ud.h"]))
    return libs


def fam_enumdiff(k):
    """the same enum / struct names with different content in la and lb."""
    e2 = guard("e.h", "__begin_publish\nenum Color { C_red = 10, C_black };\n__end_publish\n"
               "struct P {\n__published:\n  P();\n  int x;\n  int y;\n  int z;\n  int norm() const;\n};\n")
    libs = [LibSpec("a", {"e.h": E_H, "ua.h": unique_block("a") + '#include "e.h"\n__begin_publish\nColor ca(P *p);\n__end_publish\n'},
                    ["e.h", "ua.h"]),
            LibSpec("b", {"e.h": e2, "ub.h": unique_block("b") + '#include "e.h"\n__begin_publish\nColor cb(P *p);\n__end_publish\n'},
                    ["e.h", "ub.h"])]
    for x in "cd"[:k - 2]:
        libs.append(LibSpec(x, {"u%s.h" % x: unique_block(x) + '#include "lb/e.h"\n__begin_publish\nColor cc_%s(const P &p);\n__end_publish\n' % x},
                            ["u%s.h" % x]))
    return libs


def fam_two_shared(k):
    """two independent shared classes with opposite definers: S in la, C in lc; every
    other library references both."""
    libs = [LibSpec("a", {"s.h": S_H, "ua.h": unique_block("a") + '#include "lc/c.h"\n__begin_publish\nint ac(C *c);\n__end_publish\n'},
                    ["s.h", "ua.h"]),
            LibSpec("b", {"ub.h": unique_block("b") + uses_S("b") + '#include "lc/c.h"\n__begin_publish\nC *bc(S *s);\n__end_publish\n'},
                    ["ub.h"]),
            LibSpec("c", {"c.h": C_H, "uc.h": unique_block("c") + uses_S("c", derive=False)}, ["c.h", "uc.h"])]
    if k == 4:
        libs.append(LibSpec("d", {"ud.h": unique_block("d") + uses_S("d", derive=False, element=False) +
                                  '#include "lc/c.h"\nclass DC_d : public C {\n__published:\n  DC_d();\n};\n'}, ["ud.h"]))
    return libs


def fam_nested_twice(k):
    """S (with nested class, nested enum, make_seq, property) fully defined twice
    identically, plus referenced."""
    libs = []
    for x in "ab":
        libs.append(LibSpec(x, {"s.h": S_H, "u%s.h" % x: unique_block(x)}, ["s.h", "u%s.h" % x]))
    for x in "cd"[:k - 2]:
        libs.append(LibSpec(x, {"u%s.h" % x: unique_block(x) + uses_S(x)}, ["u%s.h" % x]))
    return libs


def anon_block(x):
    return """
/// class of library %(x)s with a nested anonymous enum
class N_%(x)s {
__published:
  N_%(x)s();
  enum { an_%(x)s_p, an_%(x)s_q = 5, an_%(x)s_r };
  int pick() const;
};
__begin_publish
enum { top_%(x)s_a = 3, top_%(x)s_b };
__end_publish
""" % {"x": x}


def fam_anon(k):
    """fam_ref plus, in every library, an anonymous enum nested in a class and an anonymous
    enum at namespace scope: types whose name and true name are empty must never be
    identified with one another across libraries."""
    libs = fam_ref(k)
    for n, L in enumerate(libs):
        fn = "u%s.h" % L.tag
        if n != 1:                       # one library without a nested anonymous type
            L.files[fn] += anon_block(L.tag)
        else:
            L.files[fn] += "__begin_publish\nenum { top_%s_a = 9 };\n__end_publish\n" % L.tag
    return libs


# ------------------------------------------------------------------ per-type record alphabet
# For ONE shared true name every library's own record is one of
#   absent | GF (global, fully defined) | G- (global, not fully defined)
#          | -F (not global, fully defined) | -- (neither)
# realised by real interrogate runs:
#   enum Color   GF: published in a local header          G-: the same + `ignoretype Color`
#                -F: only in a foreign header, used in a published signature
#                --: the same + `ignoretype Color`
#   class T      GF: defined in a local header            G-: the same + `ignoretype T`
#                --: forward declaration, used through a pointer
#                (-F does not exist for classes: a class that gets fully defined is global)
REC_STATES = {"enum": ("absent", "GF", "G-", "-F", "--"), "class": ("absent", "GF", "G-", "--")}
REC_SHARED = {"enum": "Color", "class": "T"}
REC_ENUM_H = guard("e.h", "__begin_publish\n/// shared enum\nenum Color { C_red, C_green = 4, C_blue };\n__end_publish\n")
REC_CLASS_H = guard("t.h", "/// shared class\nclass T {\n__published:\n  T();\n  int weight() const;\n};\n")


def rec_tag(letter, kind, state):
    return "%s%d" % (letter, REC_STATES[kind].index(state))


def fam_records(kind):
    """one library per (letter a/b/c, record state); any triple (a?, b?, c?) is a library
    set in which the shared name has exactly the chosen records."""
    libs = []
    for letter in "abc":
        for state in REC_STATES[kind]:
            x = rec_tag(letter, kind, state)
            body = unique_block(x)
            files, args, nfiles = {}, [], None
            if kind == "enum":
                use = "__begin_publish\nColor pick_%s(Color c);\n__end_publish\n" % x
                if state in ("GF", "G-"):
                    files["e.h"] = REC_ENUM_H
                    args.append("e.h")
                    body += '#include "e.h"\n' + use
                elif state in ("-F", "--"):
                    files["../inc/e.h"] = REC_ENUM_H
                    body += '#include "inc/e.h"\n' + use
                if state in ("G-", "--"):
                    nfiles = {"u%s.N" % x: "ignoretype Color\n"}
            else:
                use = "__begin_publish\nint use_%s(T *p);\n__end_publish\n" % x
                if state in ("GF", "G-"):
                    files["t.h"] = REC_CLASS_H
                    args.append("t.h")
                    body += '#include "t.h"\n' + use
                elif state == "--":
                    body += "class T;\n" + use
                if state == "G-":
                    nfiles = {"u%s.N" % x: "ignoretype T\n"}
            files["u%s.h" % x] = body
            libs.append(LibSpec(x, files, args + ["u%s.h" % x], nfiles=nfiles))
    return libs


FAMILIES = [
    ("ref", fam_ref), ("fwd", fam_fwd), ("same", fam_same), ("diff", fam_diff),
    ("force", fam_force), ("global", fam_global), ("tpl", fam_tpl), ("kinds", fam_kinds),
    ("anon", fam_anon),
    ("chain", fam_chain), ("enumdiff", fam_enumdiff), ("twoshared", fam_two_shared),
    ("nestedtwice", fam_nested_twice),
]

SHARED_PROBE = {"ref": "S", "fwd": "Fwd", "same": "C", "diff": "C", "force": "S", "global": "P",
                "tpl": "Box< int >", "kinds": "Multi", "chain": "A", "enumdiff": "Color",
                "twoshared": "C", "anon": "S", "nestedtwice": "S::Inner",
                "rec-enum": "Color", "rec-class": "T"}


def build_family(b, root, name, libs):
    """Write the files and run real interrogate once per library.  Returns
    {tag: path of .in}."""
    out = {}
    froot = os.path.join(root, name)
    for L in libs:
        d = os.path.join(froot, L.dir)
        os.makedirs(d, exist_ok=True)
        for fn, text in list(L.files.items()) + list(L.nfiles.items()):
            path = os.path.normpath(os.path.join(d, fn))
            os.makedirs(os.path.dirname(path), exist_ok=True)
            with open(path, "w") as f:
                f.write(text)
    for L in libs:
        d = os.path.join(froot, L.dir)
        db = os.path.join(froot, L.lib + ".in")
        r = tools.interrogate(b, ["-oc", "out.cxx", "-od", db, "-module", "m_" + name, "-library", L.lib,
                                  "-I.."] + L.backend + L.defines + L.args, cwd=d)
        if r.rc != 0 or not os.path.exists(db):
            raise HarnessError("interrogate failed for family %s library %s: %s" % (name, L.lib, r.brief()))
        try:
            os.remove(os.path.join(d, "out.cxx"))
        except OSError:
            pass
        out[L.tag] = db
    return out
