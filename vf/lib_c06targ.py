"""C06 -- template-ARGUMENT family: template-ids whose arguments are themselves composite.

Argument alphabet
  type arguments       int, int *, const int &, const S, int[3], function pointer, function type
                       R(A, B) with R/A/B in {int, template-id}, another template-id, pointer /
                       reference / array of a template-id
  non-type arguments   3, -1, (2 > 1), (1 < 2), (1, 2), (4 > 2 ? 4 : 8), nested ternary, enum
                       constant, qualified constant N::k, template-id::value, sizeof(template-id),
                       (sizeof(template-id) > 2 ? 4 : 8), (template-id::value > 2)
at argument positions 1-2 of the 1- and 2-parameter class templates Box Fn Pair Arr Num Two and
of the alias templates AB AA, nested to depth 2.  Every template-id is used as variable,
parameter, return type and typedef (the declarator machinery of lib_c06 is reused: the
template-id is the base type of the declaration).
"""

PRELUDE = """\
enum TE { te0, te1 = 5 };
namespace TN { const int k = 4; }
template<class T> struct Box { int z; };
template<class T> struct Fn { int z; };
template<class A, class B> struct Pair { int z; };
template<class T, int N> struct Arr { int z; };
template<int N> struct Num { static const int value = N; };
template<int A, int B> struct Two { int z; };
template<class T> using AB = Box<T>;
template<class T, int N> using AA = Arr<T, N>;
"""

TA0 = ["int", "int *", "const int &", "const S", "int[3]", "int (*)(int, long)", "void(int)",
       "int(int, long)"]
NA0 = ["3", "-1", "(2 > 1)", "(1 < 2)", "(1, 2)", "(4 > 2 ? 4 : 8)", "(1 ? (2 ? 3 : 4) : 5)",
       "te1", "TN::k"]
# template-ids used as arguments of other template-ids
INNER = ["Box<int>", "Pair<int, long>", "Arr<int, 3>", "Num<3>", "Fn<void(int)>", "AB<int>"]
INNER_THOROUGH = ["Arr<int, (2 > 1)>", "Pair<int *, const int &>", "Two<3, -1>", "AA<int, 3>",
                  "Box<int[3]>", "Num<TN::k>"]


def ta1(inner):
    """Type arguments built from a template-id."""
    I = inner
    return [I, I + " *", "const " + I + " &", I + "[2]", "void(" + I + ", long)", "int(" + I + ")",
            I + "(int, " + I + ")", "void (*)(" + I + ", long)", I + " (*)(int)"]


def na1(inner):
    I = inner
    out = ["sizeof(" + I + ")", "(sizeof(" + I + ") > 2 ? 4 : 8)", "(sizeof(" + I + ") < 9)",
           "(1 ? sizeof(" + I + ") : 2)"]
    if I.startswith("Num<"):
        out += [I + "::value", "(" + I + "::value > 2)", "(" + I + "::value, 2)"]
    return out


def wrap(tas, nas, quick_second=True):
    """Template-ids with the given arguments at position 1 or 2 (the other one simple)."""
    out = []
    for t in tas:
        out.append("Box<%s>" % t)
        out.append("AB<%s>" % t)
        out.append("Pair<%s, long>" % t)
        out.append("Pair<int, %s>" % t)
        out.append("Arr<%s, 3>" % t)
        out.append("AA<%s, 3>" % t)
        if "(" in t and not t.startswith("("):
            out.append("Fn<%s>" % t)
    for n in nas:
        out.append("Num<%s>" % n)
        out.append("Arr<int, %s>" % n)
        out.append("AA<int, %s>" % n)
        out.append("Two<%s, 3>" % n)
        out.append("Two<3, %s>" % n)
    return out


def template_ids(tier):
    seen, out = set(), []

    def add(lst):
        for x in lst:
            if x not in seen:
                seen.add(x)
                out.append(x)
    add(wrap(TA0, NA0))
    inner = INNER + (INNER_THOROUGH if tier == "thorough" else [])
    for I in inner:
        add(wrap(ta1(I), na1(I)))
    if tier == "thorough":
        # two composite arguments at once
        for I in INNER:
            for a in ta1(I)[:5]:
                for n in na1(I)[:2]:
                    add(["Arr<%s, %s>" % (a, n), "AA<%s, %s>" % (a, n)])
                for a2 in ta1(INNER[0])[4:7]:
                    add(["Pair<%s, %s>" % (a, a2)])
            for n in na1(I):
                for n2 in ("(2 > 1)", "-1"):
                    add(["Two<%s, %s>" % (n, n2)])
    return out
