"""pp-token comparer for preprocessor output (DESIGN 3.4).

Both `gcc -E -P` and `parse_file -E` print a token stream as text.  tokenize() splits
such text into preprocessing tokens and canonicalises each one so that two streams
can be compared token by token:

    identifiers / punctuators   by spelling
    numbers                     by value (and int-ness):  017 == 15, 0x10 == 16, 1.50 == 1.5
    string / char literals      by prefix + decoded content:  "\x41" == "A"

A token is a tuple whose first element is the kind:
    ("id", "foo")  ("p", "<<")  ("int", 15)  ("flt", 1.5)  ("num?", "1b")
    ("str", prefix, bytes)  ("chr", prefix, bytes)  ("bad", text)

split_cases() cuts a stream at marker declarations `int __<tag>_<n>__ ;` so that one
tool run over a batched file decides many cases.
"""
import re

# longest first
_PUNCT = [
    "%:%:", "...", "<<=", ">>=", "->*", "<=>",
    "##", "::", "++", "--", "->", ".*", "<<", ">>", "<=", ">=", "==", "!=", "&&", "||",
    "+=", "-=", "*=", "/=", "%=", "&=", "|=", "^=", "<:", ":>", "<%", "%>", "%:",
]
_DIGRAPH = {"<:": "[", ":>": "]", "<%": "{", "%>": "}", "%:": "#", "%:%:": "##"}
_ALT = {"and": "&&", "or": "||", "not": "!", "bitand": "&", "bitor": "|", "xor": "^",
        "compl": "~", "and_eq": "&=", "or_eq": "|=", "xor_eq": "^=", "not_eq": "!="}

_IDSTART = set("abcdefghijklmnopqrstuvwxyzABCDEFGHIJKLMNOPQRSTUVWXYZ_$")
_IDCHAR = _IDSTART | set("0123456789")
_DIGIT = set("0123456789")
_STRPREFIX = ("u8R", "LR", "uR", "UR", "u8", "L", "u", "U", "R", "")

_SIMPLE_ESC = {"n": 10, "t": 9, "r": 13, "a": 7, "b": 8, "v": 11, "f": 12, "\\": 92,
               "'": 39, '"': 34, "?": 63, "0": 0}


class TokError(Exception):
    pass


def _decode(body):
    """Decode the escape sequences of a (non-raw) literal body to a tuple of code points."""
    out = []
    i, n = 0, len(body)
    while i < n:
        c = body[i]
        if c != "\\":
            out.append(ord(c))
            i += 1
            continue
        i += 1
        if i >= n:
            out.append(92)
            break
        c = body[i]
        if c in "01234567":
            j = i
            while j < n and j < i + 3 and body[j] in "01234567":
                j += 1
            out.append(int(body[i:j], 8))
            i = j
        elif c == "x":
            j = i + 1
            while j < n and body[j] in "0123456789abcdefABCDEF":
                j += 1
            out.append(int(body[i + 1:j] or "0", 16))
            i = j
        elif c in "uU":
            k = 4 if c == "u" else 8
            out.append(int(body[i + 1:i + 1 + k] or "0", 16))
            i += 1 + k
        elif c in _SIMPLE_ESC:
            out.append(_SIMPLE_ESC[c])
            i += 1
        else:
            out.append(92)
            out.append(ord(c))
            i += 1
    return tuple(out)


_INT_SUFFIX = re.compile(r"(?:[uU](?:ll|LL|l|L|z|Z)?|(?:ll|LL|l|L|z|Z)[uU]?)?$")


def number(sp):
    """Canonical value of a pp-number spelling."""
    s = sp.replace("'", "")
    low = s.lower()
    try:
        if low.startswith("0x") and ("p" in low or "." in low):
            t = low.rstrip("fl")
            return ("flt", float.fromhex(t))
        if low.startswith("0x"):
            m = _INT_SUFFIX.search(s)
            return ("int", int(s[2:m.start()], 16))
        if low.startswith("0b"):
            m = _INT_SUFFIX.search(s)
            return ("int", int(s[2:m.start()], 2))
        if "." in s or "e" in low:
            t = low.rstrip("fl")
            return ("flt", float(t))
        m = _INT_SUFFIX.search(s)
        body = s[:m.start()]
        if not body.isdigit():
            raise ValueError(sp)
        if len(body) > 1 and body[0] == "0":
            return ("int", int(body, 8))
        return ("int", int(body, 10))
    except ValueError:
        return ("num?", sp)


def tokenize(text):
    """Split text (output of a preprocessor: no comments, no directives) into
    canonical pp-tokens."""
    toks = []
    i, n = 0, len(text)
    while i < n:
        c = text[i]
        if c in " \t\r\n\f\v":
            i += 1
            continue
        # string / char literal, possibly prefixed
        lit = False
        for pre in _STRPREFIX:
            if text.startswith(pre, i):
                j = i + len(pre)
                if j < n and text[j] in "\"'":
                    q = text[j]
                    if pre.endswith("R") and q == '"':
                        m = re.compile(r'"([^()\\ ]{0,16})\(').match(text, j)
                        if not m:
                            break
                        end = text.find(")" + m.group(1) + '"', m.end())
                        if end < 0:
                            toks.append(("bad", text[i:]))
                            return toks
                        body = tuple(ord(ch) for ch in text[m.end():end])
                        toks.append(("str", pre[:-1], body))
                        i = end + len(m.group(1)) + 2
                        lit = True
                        break
                    if pre.endswith("R"):
                        break
                    k = j + 1
                    while k < n and text[k] != q and text[k] != "\n":
                        if text[k] == "\\":
                            k += 1
                        k += 1
                    if k >= n or text[k] != q:
                        toks.append(("bad", text[i:k]))
                        i = k
                        lit = True
                        break
                    toks.append(("str" if q == '"' else "chr", pre, _decode(text[j + 1:k])))
                    i = k + 1
                    # an identifier glued to the literal is a user-defined-literal suffix:
                    # one pp-token (a preprocessor printing two tokens separates them)
                    if i < n and text[i] in _IDSTART:
                        j = i
                        while j < n and text[j] in _IDCHAR:
                            j += 1
                        toks[-1] = ("udl",) + toks[-1] + (text[i:j],)
                        i = j
                    lit = True
                    break
        if lit:
            continue
        if c in _IDSTART:
            j = i + 1
            while j < n and text[j] in _IDCHAR:
                j += 1
            w = text[i:j]
            if w in _ALT:
                toks.append(("p", _ALT[w]))
            else:
                toks.append(("id", w))
            i = j
            continue
        if c in _DIGIT or (c == "." and i + 1 < n and text[i + 1] in _DIGIT):
            j = i + 1
            while j < n:
                d = text[j]
                if d in "eEpP" and j + 1 < n and text[j + 1] in "+-":
                    j += 2
                elif d in _IDCHAR or d == ".":
                    j += 1
                elif d == "'" and j + 1 < n and text[j + 1] in _IDCHAR:
                    j += 2
                else:
                    break
            toks.append(number(text[i:j]))
            i = j
            continue
        for p in _PUNCT:
            if text.startswith(p, i):
                toks.append(("p", _DIGRAPH.get(p, p)))
                i += len(p)
                break
        else:
            toks.append(("p", c))
            i += 1
    return toks


def show(toks):
    """Human-readable rendering of a canonical token list."""
    out = []
    for t in toks:
        k = t[0]
        if k in ("id", "p"):
            out.append(t[1])
        elif k in ("int", "flt", "num?"):
            out.append(repr(t[1]) if k == "flt" else str(t[1]))
        elif k in ("str", "chr"):
            q = '"' if k == "str" else "'"
            s = "".join(chr(x) if 32 <= x < 127 and chr(x) not in '\\"\'' else "\\x%02x" % x
                        for x in t[2])
            out.append(t[1] + q + s + q)
        elif k == "udl":
            out.append(show([t[1:4]]) + t[4])
        else:
            out.append("<bad:%s>" % (t[1][:20],))
    return " ".join(out)


def split_cases(toks, tag="case"):
    """Cut a token list at `int __<tag>_<n>__ ;`.  Returns (prefix_tokens, {n: tokens},
    order) where order is the list of n in order of appearance (duplicates kept)."""
    rx = re.compile(r"^__%s_(\d+)__$" % re.escape(tag))
    cases = {}
    order = []
    prefix = []
    cur = prefix
    i, n = 0, len(toks)
    while i < n:
        t = toks[i]
        if (t == ("id", "int") and i + 2 < n and toks[i + 1][0] == "id"
                and toks[i + 2] == ("p", ";")):
            m = rx.match(toks[i + 1][1])
            if m:
                k = int(m.group(1))
                order.append(k)
                cur = cases.setdefault(k, [])
                i += 3
                continue
        cur.append(t)
        i += 1
    return prefix, cases, order


def first_diff(a, b):
    """Index of the first differing token, or -1 if equal."""
    for i, (x, y) in enumerate(zip(a, b)):
        if x != y:
            return i
    if len(a) != len(b):
        return min(len(a), len(b))
    return -1


if __name__ == "__main__":
    import sys
    print(show(tokenize(sys.stdin.read())))
