"""Shared explorer plumbing: tiers, deadline, counters, violations, known findings,
replay artefacts and evidence files.  See DESIGN.md section 3.6.

A property module does:

    from vf.core import Check
    def main():
        ck = Check("C19", level="fault_enumeration")
        if ck.replay: return ck.replay_case(run_case)
        ...
        ck.note(key, nontrivial=True, outcome="exit1", sample={...})   # one explored case
        ck.fail(key, what, detail, confirm=lambda: rerun_fails())       # one failing case
        ck.finish(rule="...", exhaustive=True, bound="k<=3")
"""
import argparse
import concurrent.futures as cf
import hashlib
import json
import os
import shutil
import sys
import threading
import time

VERIF = os.path.dirname(os.path.dirname(os.path.abspath(__file__)))
KNOWN = os.path.join(VERIF, "known_findings.jsonl")

LEVELS = ("exploration", "fault_enumeration", "model_checking", "proof",
          "translation_validation", "other")


class HarnessError(Exception):
    pass


def load_known(pid):
    out = []
    if os.path.exists(KNOWN):
        for line in open(KNOWN):
            line = line.strip()
            if not line or line.startswith("#"):
                continue
            e = json.loads(line)
            if e.get("property") == pid:
                out.append(e)
    return out


class Check:
    def __init__(self, pid, level="model_checking", argv=None):
        ap = argparse.ArgumentParser(prog="check " + pid)
        ap.add_argument("--tier", default=os.environ.get("VERIF_TIER", "quick"),
                        choices=["quick", "thorough"])
        ap.add_argument("--replay", default=None)
        ap.add_argument("--only", default=None,
                        help="restrict to sub-families (comma separated), for development")
        ap.add_argument("--keep", action="store_true", help="keep scratch directory")
        a = ap.parse_args(argv if argv is not None else sys.argv[1:])
        assert level in LEVELS
        self.pid = pid
        self.level = level
        self.tier = a.tier
        self.replay = a.replay
        self.only = set(a.only.split(",")) if a.only else None
        self.keep = a.keep
        try:
            self.seed = int(os.environ.get("VERIF_SEED", "0"))
        except ValueError:
            self.seed = 0
        dflt = 900 if self.tier == "quick" else 5400
        self.deadline_s = float(os.environ.get("VERIF_DEADLINE_S", dflt))
        self.t0 = time.time()
        self.lock = threading.Lock()
        self.evaluations = 0
        self.transitions = 0
        self.keys = set()
        self.nontrivial = set()
        self.outcomes = {}
        self.samples = []
        self._sample_marks = 1
        self.violations = []
        self.known_hit = {}
        self.known = [e for e in load_known(pid) if e.get("status") == "open"]
        self.extra = {}
        self.families = {}
        self._scratch = None
        self.capped = []

    # ------------------------------------------------------------------ scratch
    def scratch(self, sub=None):
        with self.lock:
            if self._scratch is None:
                from vf import build
                d = os.path.join(build.build_root(), "scratch",
                                 "%s-%d" % (self.pid, os.getpid()))
                shutil.rmtree(d, ignore_errors=True)
                os.makedirs(d)
                self._scratch = d
        if sub:
            d = os.path.join(self._scratch, sub)
            os.makedirs(d, exist_ok=True)
            return d
        return self._scratch

    def cleanup(self):
        if self._scratch and not self.keep:
            shutil.rmtree(self._scratch, ignore_errors=True)

    # ----------------------------------------------------------------- deadline
    def elapsed(self):
        return time.time() - self.t0

    def expired(self, reserve=0.0):
        return self.elapsed() + reserve > self.deadline_s

    def cap(self, what):
        """Record that a bound/family was cut short (deadline or explicit cap)."""
        with self.lock:
            self.capped.append(what)

    # ----------------------------------------------------------------- counting
    def note(self, key, nontrivial=True, outcome=None, sample=None, family=None,
             transitions=1):
        """Record one explored case (one execution on the real code)."""
        with self.lock:
            self.evaluations += 1
            self.transitions += transitions
            self.keys.add(key)
            if nontrivial:
                self.nontrivial.add(key)
            if outcome is not None:
                self.outcomes[outcome] = self.outcomes.get(outcome, 0) + 1
            if family is not None:
                self.families[family] = self.families.get(family, 0) + 1
            n = self.evaluations
            if sample is not None and (n <= 2 or n == self._sample_marks):
                if len(self.samples) < 24:
                    self.samples.append({"n": n, "key": key, "case": sample})
            if n >= self._sample_marks:
                self._sample_marks *= 10
            self._last_sample = (key, sample)

    # --------------------------------------------------------------- violations
    def _match_known(self, key, detail):
        for e in self.known:
            if e.get("key") != key:
                continue
            if "observed" in e and e["observed"] != (detail or {}).get("observed"):
                continue
            return e
        return None

    def fail(self, key, what, detail=None, confirm=None):
        """Report a failing case.  confirm() re-runs the case in isolation and
        returns True if it fails again; it is called twice."""
        if confirm is not None:
            r1 = bool(confirm())
            r2 = bool(confirm())
            if r1 != r2:
                raise HarnessError("nondeterminism not captured: replays of %s disagree" % key)
            if not r1:
                raise HarnessError("failure of %s did not reproduce in isolation "
                                   "(batching/harness artefact): %s" % (key, what))
        e = self._match_known(key, detail)
        with self.lock:
            if e is not None:
                if key not in self.known_hit:
                    self.known_hit[key] = e
                    print("KNOWN-FINDING: property=%s %s [%s]" % (self.pid, e.get("what", what), key),
                          flush=True)
                return "known"
            path = self._write_replay(key, what, detail)
            self.violations.append({"key": key, "what": what, "replay": path})
            print("VIOLATION property=%s replay=%s" % (self.pid, path), flush=True)
            print("  case: %s\n  what: %s" % (key, what), flush=True)
            return "violation"

    def _write_replay(self, key, what, detail):
        d = os.path.join(VERIF, "replays", self.pid)
        os.makedirs(d, exist_ok=True)
        h = hashlib.sha1(key.encode("utf-8", "replace")).hexdigest()[:12]
        path = os.path.join(d, h + ".json")
        with open(path, "w") as f:
            json.dump({"property": self.pid, "key": key, "what": what,
                       "tier": self.tier, "detail": detail}, f, indent=1, default=repr)
        return path

    def load_replay(self):
        return json.load(open(self.replay))

    # ----------------------------------------------------------------- evidence
    def finish(self, rule, exhaustive=True, bound=None, assumptions=None,
               states=None, min_nontrivial=2, extra=None):
        if self.capped:
            exhaustive = False
        cov = {
            "evaluations": self.evaluations,
            "distinct_nontrivial": len(self.nontrivial),
            "rule": rule,
            "samples": self.samples or [],
            "states": states if states is not None else len(self.keys),
            "transitions": self.transitions,
            "traces_validated_against_impl": self.evaluations,
            "exhaustive": bool(exhaustive),
            "bound_completed": bound,
            "distinct_outcomes": len(self.outcomes),
            "outcome_histogram": dict(sorted(self.outcomes.items(), key=lambda kv: -kv[1])[:40]),
            "families": self.families,
            "known_findings_hit": sorted(self.known_hit),
            "capped": self.capped,
        }
        if getattr(self, "_last_sample", None) and self._last_sample[1] is not None:
            cov["samples"] = cov["samples"] + [{"n": self.evaluations, "key": self._last_sample[0],
                                               "case": self._last_sample[1]}]
        cov.update(self.extra)
        if extra:
            cov.update(extra)
        ev = {
            "property_id": self.pid,
            "tier": self.tier,
            "seed": self.seed,
            "level": self.level,
            "coverage": cov,
            "assumptions": assumptions or [],
            "wall_s": round(self.elapsed(), 2),
            "violations": len(self.violations),
        }
        problems = validate_evidence(ev)
        self.cleanup()
        if not self.violations:
            if problems:
                raise HarnessError("evidence invalid / vacuous exploration: %s" % problems)
            if len(self.nontrivial) < min_nontrivial:
                raise HarnessError("vacuous exploration: only %d non-trivial cases (floor %d)"
                                   % (len(self.nontrivial), min_nontrivial))
        # VERIF_EVIDENCE_DIR: used only by vf/seedtest.py so that runs against seeded
        # (deliberately broken) trees do not overwrite the committed evidence
        evdir = os.environ.get("VERIF_EVIDENCE_DIR") or os.path.join(VERIF, "evidence")
        os.makedirs(evdir, exist_ok=True)
        with open(os.path.join(evdir, self.pid + ".json"), "w") as f:
            json.dump(ev, f, indent=1, sort_keys=True, default=repr)
            f.write("\n")
        print("%s tier=%s evaluations=%d states=%d transitions=%d nontrivial=%d outcomes=%d "
              "known=%d violations=%d exhaustive=%s bound=%s wall=%.1fs"
              % (self.pid, self.tier, self.evaluations, cov["states"], self.transitions,
                 len(self.nontrivial), len(self.outcomes), len(self.known_hit),
                 len(self.violations), cov["exhaustive"], bound, self.elapsed()), flush=True)
        return 1 if self.violations else 0


def validate_evidence(ev):
    """Minimal re-implementation of the parts of EVIDENCE.schema.json that matter."""
    p = []
    for k in ("property_id", "tier", "seed", "level", "coverage", "wall_s"):
        if k not in ev:
            p.append("missing " + k)
    c = ev.get("coverage", {})
    if ev.get("level") in ("exploration", "fault_enumeration"):
        if c.get("evaluations", 0) < 1:
            p.append("evaluations<1")
        if c.get("distinct_nontrivial", 0) < 2:
            p.append("distinct_nontrivial<2")
        if not isinstance(c.get("rule"), str):
            p.append("rule")
        if not c.get("samples"):
            p.append("samples empty")
    if ev.get("level") == "model_checking":
        if c.get("states", 0) < 1:
            p.append("states<1")
        if c.get("transitions", 0) < 1:
            p.append("transitions<1")
        if not c.get("samples"):
            p.append("samples empty")
    return p


# -------------------------------------------------------------------- parallel
def pmap(fn, items, workers=16):
    """Ordered parallel map with threads (work is subprocess-bound)."""
    items = list(items)
    if not items:
        return []
    with cf.ThreadPoolExecutor(max_workers=workers) as ex:
        return list(ex.map(fn, items))


def pmap_proc(fn, items, workers=16, chunksize=1):
    items = list(items)
    if not items:
        return []
    with cf.ProcessPoolExecutor(max_workers=workers) as ex:
        return list(ex.map(fn, items, chunksize=chunksize))


def run_main(main):
    try:
        rc = main()
    except HarnessError as e:
        print("HARNESS-ERROR: %s" % e, flush=True)
        sys.exit(2)
    sys.exit(rc or 0)
