"""Shared by C03 and C11: the header atoms, the option lattice, and the mechanics of one
case = (header built from atoms) x (option set): interrogate run, g++ oracle, nm, module
glue, link and import.

A header is the concatenation of *atoms*: small self-contained declaration clusters with
globally unique names.  Everything an atom declares is defined inline (or in the atom's
`defs`, which go to a companion .cxx), so that the generated code can be linked and
imported without a separately written native library.
"""
import os
import re
import shutil
import subprocess

from vf import build, pynative, tools

# --------------------------------------------------------------------------- atoms


class Atom:
    def __init__(self, name, group, text, defs="", needs=(), noimport=False, pre=""):
        self.name, self.group, self.text, self.defs = name, group, text.strip("\n") + "\n", defs
        self.needs = frozenset(needs)     # option names that must be on for the atom to be used
        self.noimport = noimport          # initialisation depends on a foreign Python module
        self.pre = pre                    # #include lines needed


ATOMS = []


def atom(*a, **k):
    ATOMS.append(Atom(*a, **k))


# ---- plain atoms: between them every index-valued field of the database is non-zero ----
atom("simple", "plain", r"""
/// A plain class.
class PaSimple {
__published:
  PaSimple() : _v(3) {}
  explicit PaSimple(int v) : _v(v) {}
  PaSimple(const PaSimple &o) : _v(o._v) {}
  ~PaSimple() {}
  int get_v() const { return _v; }
  void set_v(int v) { _v = v; }
  int add(int a, int b = 10) const { return _v + a + b; }
  static int twice(int a) { return 2 * a; }
  double scale(double d, float f) const { return d * f + _v; }
  bool is_pos() const { return _v > 0; }
  PaSimple *self_ptr() { return this; }
  const PaSimple &self_ref() const { return *this; }
  PaSimple copy_plus(int n) const { return PaSimple(_v + n); }
  int _v;
  static int counter;
public:
  int not_published() const { return -1; }
};
""", defs="int PaSimple::counter = 7;\n")

atom("inherit", "plain", r"""
class PbBase {
__published:
  PbBase() : _b(1) {}
  virtual ~PbBase() {}
  virtual int vm(int a) { return a + _b; }
  int base_only() const { return 11; }
  int _b;
};
class PbOther {
__published:
  PbOther() : _o(2) {}
  int om() const { return _o; }
  int _o;
};
class PbDerived : public PbOther, public PbBase {
__published:
  PbDerived() : _d(5) {}
  virtual int vm(int a) { return a * 2 + _d; }
  int dm() const { return _d; }
  int _d;
};
class PbLeaf : public PbDerived {
__published:
  PbLeaf() {}
  int lm() const { return 9; }
};
class PbVBase {
__published:
  PbVBase() : _x(4) {}
  virtual ~PbVBase() {}
  int vb() const { return _x; }
  int _x;
};
class PbVMid1 : virtual public PbVBase {
__published:
  PbVMid1() {}
  int m1() const { return 1; }
};
class PbVMid2 : virtual public PbVBase {
__published:
  PbVMid2() {}
  int m2() const { return 2; }
};
class PbVLeaf : public PbVMid1, public PbVMid2 {
__published:
  PbVLeaf() {}
  int leaf() const { return 3; }
};
class PbHidden : protected PbOther {
__published:
  PbHidden() {}
  int hm() const { return 6; }
};
""")

atom("props", "plain", r"""
class PcProps {
__published:
  PcProps() : _x(0), _has(false) { for (int i = 0; i < 8; ++i) _items[i] = i * i; _n = 3; }
  int get_x() const { return _x; }
  void set_x(int x) { _x = x; _has = true; }
  bool has_x() const { return _has; }
  void clear_x() { _has = false; _x = 0; }
  int get_ro() const { return 17; }
  __make_property(ro, get_ro);
  __make_property(x_rw, get_x, set_x);
  __make_property2(x_opt, has_x, get_x, set_x, clear_x);
  int get_num_items() const { return _n; }
  int get_item(int i) const { return _items[i & 7]; }
  void set_item(int i, int v) { _items[i & 7] = v; }
  void remove_item(int i) { if (_n > 0) --_n; }
  void insert_item(int i, int v) { if (_n < 8) { _items[_n++] = v; } }
  __make_seq(get_items, get_num_items, get_item);
  __make_seq_property(items, get_num_items, get_item, set_item, remove_item, insert_item);
  bool has_key(int k) const { return k >= 0 && k < _n; }
  int get_val(int k) const { return _items[k & 7]; }
  void set_val(int k, int v) { _items[k & 7] = v; }
  void clear_val(int k) { _items[k & 7] = 0; }
  int get_num_keys() const { return _n; }
  int get_key(int i) const { return i; }
  __make_map_property(vals, has_key, get_val, set_val, clear_val);
  __make_map_keys_seq(vals, get_num_keys, get_key);
private:
  int _x; bool _has; int _items[8]; int _n;
};
""")

atom("nested", "plain", r"""
class PdOuter {
__published:
  PdOuter() {}
  enum Mode { M_off, M_on = 3, M_neg = -2 };
  typedef int Count;
  class Mid {
  __published:
    Mid() {}
    class Inner {
    __published:
      Inner() : _i(21) {}
      int get_i() const { return _i; }
      enum Deep { D_a = 1, D_b };
      int _i;
    };
    Inner make_inner() const { return Inner(); }
    int mid_m(Inner::Deep d) const { return (int)d; }
  };
  Mode get_mode() const { return M_on; }
  int use_mid(const Mid &m, Mode mode = M_on) const { return (int)mode; }
  Count count() const { return 2; }
  Mid::Inner *new_inner() const { return new Mid::Inner; }
  Mode mode_field;
};
""")

atom("namespace", "plain", r"""
namespace PeNs {
  enum Color { C_red, C_green = 5 };
  class Thing {
  __published:
    Thing() : _c(C_green) {}
    Color color() const { return _c; }
    int paint(Color c = C_red) { _c = c; return (int)c; }
    Color _c;
  };
  namespace Inner {
    class Deep {
    __published:
      Deep() {}
      int depth() const { return 2; }
      Thing make_thing() const { return Thing(); }
    };
  }
__begin_publish
  inline int ns_func(int a, Color c = C_green) { return a + (int)c; }
  inline Inner::Deep *ns_make_deep() { return new Inner::Deep; }
__end_publish
}
""")

atom("enums", "plain", r"""
__begin_publish
enum PfPlain { PF_zero, PF_one, PF_ten = 10, PF_neg = -4, PF_expr = (1 << 4) | 3 };
enum class PfScoped { alpha, beta = 7, gamma };
enum class PfSmall : unsigned char { lo = 1, hi = 200 };
__end_publish
enum PfHiddenPlain { PFH_a, PFH_b };
enum class PfHidden { a1, b1 };
enum class PfHiddenU : unsigned short { a2, b2 = 65535 };
class PfHolder {
__published:
  PfHolder() : _p(PF_one), _s(PfScoped::beta) {}
  enum { Anon_a = 1, Anon_b = 2 };
  enum class Inner { i1, i2 = 9 };
  PfPlain get_p() const { return _p; }
  void set_p(PfPlain p) { _p = p; }
  PfScoped get_s() const { return _s; }
  void set_s(PfScoped s = PfScoped::gamma) { _s = s; }
  int small(PfSmall v) const { return (int)v; }
  PfSmall get_small() const { return PfSmall::hi; }
  PfHiddenPlain get_hp() const { return PFH_b; }
  PfHidden get_h() const { return PfHidden::b1; }
  PfHiddenU get_hu() const { return PfHiddenU::b2; }
  int take_h(PfHidden h, PfHiddenPlain p = PFH_a) const { return (int)h + (int)p; }
  Inner get_i() const { return Inner::i2; }
  void set_i(Inner i = Inner::i1) {}
public:
  enum class InnerPub { j1, j2 };
__published:
  InnerPub get_j() const { return InnerPub::j2; }
private:
  PfPlain _p; PfScoped _s;
};
__begin_publish
inline int pf_value(PfPlain p) { return (int)p; }
inline PfScoped pf_scoped(PfScoped s = PfScoped::alpha) { return s; }
__end_publish
""")

atom("operators", "plain", r"""
class PgVec {
__published:
  PgVec() : _a(0), _b(0) {}
  PgVec(int a, int b) : _a(a), _b(b) {}
  bool operator == (const PgVec &o) const { return _a == o._a && _b == o._b; }
  bool operator != (const PgVec &o) const { return !(*this == o); }
  bool operator < (const PgVec &o) const { return _a < o._a; }
  PgVec operator + (const PgVec &o) const { return PgVec(_a + o._a, _b + o._b); }
  PgVec operator - () const { return PgVec(-_a, -_b); }
  PgVec &operator += (const PgVec &o) { _a += o._a; _b += o._b; return *this; }
  PgVec &operator = (const PgVec &o) { _a = o._a; _b = o._b; return *this; }
  int operator [] (int i) const { return i ? _b : _a; }
  int &operator [] (int i) { return i ? _b : _a; }
  int operator () (int x) const { return _a * x + _b; }
  operator int () const { return _a + _b; }
  explicit operator bool () const { return _a != 0; }
  int get_a() const { return _a; }
private:
  int _a, _b;
};
""")

atom("typedefs", "plain", r"""
template<class T>
class PhTpl {
__published:
  PhTpl() : _t() {}
  T get() const { return _t; }
  void set(T t) { _t = t; }
private:
  T _t;
};
typedef PhTpl<int> PhTplInt;
typedef PhTpl<double> PhTplDouble;
typedef int PhInt;
typedef PhTplInt PhAlias;
class PhUser {
__published:
  PhUser() {}
  PhInt plus(PhInt a) const { return a + 1; }
  int take(const PhTplInt &t) const { return t.get(); }
  PhTplDouble make() const { return PhTplDouble(); }
  int alias(const PhAlias *a) const { return a ? a->get() : -1; }
};
""")

atom("globals", "plain", r"""
class PiObj {
__published:
  PiObj() : _v(1) {}
  PiObj(const PiObj &o) : _v(o._v + 100) {}
  int v() const { return _v; }
  int _v;
};
__begin_publish
inline int pi_add(int a, int b = 2, int c = 3) { return a + b + c; }
inline double pi_over(double d) { return d / 2; }
inline int pi_over(int i) { return i / 2; }
inline int pi_over(int i, int j) { return i / j; }
inline PiObj pi_by_value() { return PiObj(); }
inline PiObj *pi_new() { return new PiObj; }
inline const PiObj &pi_static_ref() { static PiObj o; return o; }
inline int pi_take(PiObj o) { return o.v(); }
inline int pi_take_ref(PiObj &o) { return o.v(); }
inline int pi_take_cref(const PiObj &o) { return o.v(); }
inline int pi_take_ptr(PiObj *o) { return o ? o->v() : -1; }
inline int pi_take_cptr(const PiObj *o) { return o ? o->v() : -1; }
inline void pi_nothing() {}
extern int pi_global;
extern const int pi_const_global;
__end_publish
""", defs="int pi_global = 12;\nextern const int pi_const_global = 13;\n")

atom("manifests", "plain", r"""
__begin_publish
#define PJ_INT 42
#define PJ_NEG (-5)
#define PJ_HEX 0xff
#define PJ_EXPR ((1 << 4) + 2)
#define PJ_FLOAT 1.5
#define PJ_STR "abc"
#define PJ_CHAR 'c'
#define PJ_REF PJ_INT
#define PJ_EMPTY
#define PJ_FN(x) ((x) + 1)
__end_publish
""")

atom("scalars", "plain", r"""
class PkScalars {
__published:
  PkScalars() {}
  bool f_bool(bool v) const { return !v; }
  char f_char(char v) const { return v; }
  signed char f_schar(signed char v) const { return v; }
  unsigned char f_uchar(unsigned char v) const { return v; }
  short f_short(short v) const { return v; }
  unsigned short f_ushort(unsigned short v) const { return v; }
  int f_int(int v) const { return v; }
  unsigned int f_uint(unsigned int v) const { return v; }
  long f_long(long v) const { return v; }
  unsigned long f_ulong(unsigned long v) const { return v; }
  long long f_llong(long long v) const { return v; }
  unsigned long long f_ullong(unsigned long long v) const { return v; }
  float f_float(float v) const { return v; }
  double f_double(double v) const { return v; }
  int f_cref(const int &v) const { return v; }
  void f_ref(int &v) const { v = 5; }
  int f_ptr(int *v) const { return v ? *v : 0; }
  const int *f_cptr(const int *v) const { return v; }
  void *f_void(void *p) const { return p; }
  int f_unnamed(int, double) const { return 1; }
};
""")

atom("structs", "plain", r"""
struct PlPoint {
__published:
  PlPoint() : x(1), y(2.5) {}
  int x;
  double y;
  int sum() const { return x + (int)y; }
};
union PlUnion {
__published:
  int i;
  float f;
};
class PlAbstract {
__published:
  virtual ~PlAbstract() {}
  virtual int pure() const = 0;
  int concrete() const { return 8; }
};
class PlImpl final : public PlAbstract {
__published:
  PlImpl() {}
  virtual int pure() const { return 4; }
};
class PlNoCopy {
__published:
  PlNoCopy() {}
  int m() const { return 1; }
private:
  PlNoCopy(const PlNoCopy &) = delete;
  PlNoCopy &operator = (const PlNoCopy &) = delete;
};
class PlPrivDtor {
__published:
  static PlPrivDtor *make() { return new PlPrivDtor; }
  int m() const { return 2; }
private:
  PlPrivDtor() {}
  ~PlPrivDtor() {}
};
""")

atom("array", "plain", r"""
class PmArr {
__published:
  PmArr() { for (int i = 0; i < 4; ++i) arr[i] = i; }
  int arr[4];
  int at(int i) const { return arr[i & 3]; }
};
""")

atom("fnptr", "plain", r"""
typedef int (*PnCallback)(int);
class PnFn {
__published:
  PnFn() : cb_field(0), _cb(0) {}
  void set_cb(PnCallback cb) { _cb = cb; }
  PnCallback get_cb() const { return _cb; }
  int call(int v) const { return _cb ? _cb(v) : v; }
  PnCallback cb_field;
private:
  PnCallback _cb;
};
""")

atom("cstrings", "plain", r"""
class PoStr {
__published:
  PoStr() {}
  const char *hello() const { return "hello"; }
  int len(const char *s) const { int n = 0; while (s && s[n]) ++n; return n; }
  const char *pick(const char *a, const char *b = "dflt") const { return (a && a[0]) ? a : b; }
};
__begin_publish
inline const char *po_name() { return "po"; }
inline int po_first(const char *s) { return s ? s[0] : -1; }
__end_publish
""")

atom("stdstring", "plain", r"""
class PpStr {
__published:
  PpStr() : _s("init") {}
  std::string get() const { return _s; }
  void set(const std::string &s) { _s = s; }
  const std::string &ref() const { return _s; }
  std::string cat(std::string a, const std::string &b = "tail") const { return a + b; }
  int size() const { return (int)_s.size(); }
private:
  std::string _s;
};
__begin_publish
inline std::string pp_greet(const std::string &who) { return "hi " + who; }
__end_publish
""", needs=("string",), pre="#include <string>\n")

# ---- nasty atoms (C03): names, constants, defaults, macros, qualification ----
atom("kwnames", "nasty", r"""
class QaKw {
__published:
  QaKw() {}
  int def() const { return 1; }
  int del() const { return 2; }
  int from() const { return 3; }
  int global() const { return 4; }
  int import() const { return 5; }
  int in() const { return 6; }
  int is() const { return 7; }
  int lambda() const { return 8; }
  int pass() const { return 9; }
  int print() const { return 10; }
  int raise() const { return 11; }
  int with() const { return 12; }
  int yield() const { return 13; }
  int None() const { return 14; }
  int True() const { return 15; }
  int as() const { return 16; }
  int async() const { return 17; }
  int await() const { return 18; }
  int nonlocal() const { return 19; }
  int except() const { return 20; }
  int finally() const { return 21; }
  int elif() const { return 22; }
  int exec() const { return 23; }
  int kwargs(int def, int in = 1, int lambda = 2, int None = 3) const { return def + in + lambda + None; }
  int type;
  int object;
};
enum QaKwEnum { None_ = 0, pass = 1, lambda = 2 };
__begin_publish
inline int yield(int from) { return from; }
inline int print(int is, int in) { return is + in; }
__end_publish
""")

atom("localnames", "nasty", r"""
class QbLocals {
__published:
  QbLocals() {}
  int m1(int self, int args, int kwds) const { return self + args + kwds; }
  int m2(int return_value, int local_this, int result) const { return return_value + local_this + result; }
  int m3(int param0, int param1, int arg) const { return param0 + param1 + arg; }
  int m4(int coerced, int parameter_list, int keyword_list) const { return coerced + parameter_list + keyword_list; }
  int m5(int module, int name, int value) const { return module + name + value; }
  int m6(int index, int key, int item, int obj) const { return index + key + item + obj; }
  int m7(int size, int len, int i, int n) const { return size + len + i + n; }
  int m8(int Dtool_QbLocals, int PyObject_, int Py_None_) const { return Dtool_QbLocals + PyObject_ + Py_None_; }
  static int s1(int self, int cls) { return self + cls; }
  int self;
  int args;
  int result;
  int return_value;
  int param0;
};
__begin_publish
inline int qb_free(int self, int args, int kwds, int param0) { return self + args + kwds + param0; }
__end_publish
""")

atom("strconsts", "nasty", r"""
__begin_publish
#define QC_SPACE "a b"
#define QC_QUOTE "q\"uote"
#define QC_BSLASH "back\\slash"
#define QC_NEWLINE "new\nline"
#define QC_TRIGRAPH "what??/"
#define QC_COMMENT "*/"
#define QC_SLASHES "//"
#define QC_SLASH2 "a // b"
#define QC_BLOCK "x /* y */ z"
#define QC_EMPTY ""
#define QC_CONCAT "con" "cat"
#define QC_PCT "100%s%d"
#define QC_CH_QUOTE '\''
#define QC_CH_DQUOTE '"'
#define QC_CH_BSLASH '\\'
#define QC_CH_NL '\n'
#define QC_CH_NUL '\0'
__end_publish
class QcConsts {
__published:
  QcConsts() {}
  const char *quote() const { return "q\"uote"; }
  char ch(char c = '\'') const { return c; }
  char ch2(char c = '"') const { return c; }
  char ch3(char c = '\\') const { return c; }
  char ch4(char c = '\n') const { return c; }
  int s1(const char *s = "q\"uote") const { return s[0]; }
  int s2(const char *s = "back\\slash") const { return s[0]; }
  int s3(const char *s = "new\nline") const { return s[0]; }
  int s4(const char *s = "what??/") const { return s[0]; }
  int s5(const char *s = "*/") const { return s[0]; }
  int s6(const char *s = "/*") const { return s[0]; }
  int s7(const char *s = "") const { return s[0]; }
  int s8(const char *s = "100%s%d") const { return s[0]; }
};
""")

atom("comments", "nasty", r"""
/// Class comment with "double quotes", 'single', a back\slash, percent %s %d,
/// a trigraph ??/ in the middle, a comment terminator */ plus opener /* here,
/// and non-ASCII text: café über — done.
class QdCom {
__published:
  /// Constructor comment: */ and "quoted" and \n literally.
  QdCom() {}
  // Plain comment with */ inside.
  int m1() const { return 1; }
  /* block comment with "quotes" and a back\slash */
  int m2() const { return 2; }
  /**
   * Javadoc "style" with 'quotes'
   * and \escapes and %formats and ??/ trigraph
   */
  int m3(int a = 1) const { return a; }
  /// property comment "x" */
  int get_p() const { return 1; }
  __make_property(p, get_p);
  /// enum comment */ "e"
  enum E {
    /// value comment */ "v"
    E_a,
    E_b, ///< trailing "comment" */
  };
  /// member comment */ "m"
  int field;
};
__begin_publish
/// free function comment */ with "quotes" \ and ??/
inline int qd_free() { return 0; }
/// macro comment */ "q"
#define QD_MACRO 5
__end_publish
""")

atom("defaults", "nasty", r"""
namespace QeNs { enum Kind { K_a = 1, K_b = 2 }; const int kLimit = 9; struct V2 { V2(int a = 0, int b = 0) : a(a), b(b) {} int a, b; }; inline int helper(int x = 3) { return x; } }
class QeDef {
__published:
  QeDef() {}
  enum Flag { F_none = 0, F_a = 1, F_b = 2 };
  static const int kMax = 64;
  int d_neg(int a = -1) const { return a; }
  int d_negf(double a = -1.5e-3) const { return (int)a; }
  int d_enum(Flag f = F_b) const { return (int)f; }
  int d_scoped(QeNs::Kind k = QeNs::K_b) const { return (int)k; }
  int d_or(int f = F_a | F_b) const { return f; }
  int d_const(int a = kMax) const { return a; }
  int d_nsconst(int a = QeNs::kLimit) const { return a; }
  int d_str(const char *s = "str") const { return s[0]; }
  int d_null(QeDef *p = nullptr) const { return p != 0; }
  int d_null0(QeDef *p = 0) const { return p != 0; }
  int d_NULL(const QeDef *p = 0L) const { return p != 0; }
  int d_cast(int a = (int)2.5) const { return a; }
  int d_scast(float a = static_cast<float>(2)) const { return (int)a; }
  int d_flt(float a = 1.5f, double b = .5, double c = 2., double d = 1e10) const { return (int)(a + b + c) + (d > 0); }
  int d_char(char c = 'x') const { return c; }
  int d_bool(bool a = true, bool b = false) const { return a + b; }
  int d_sizeof(int a = sizeof(int)) const { return a; }
  int d_call(int a = QeNs::helper()) const { return a; }
  int d_call2(int a = QeNs::helper(4)) const { return a; }
  int d_ctor(QeNs::V2 v = QeNs::V2(1, 2)) const { return v.a + v.b; }
  int d_ctor0(QeNs::V2 v = QeNs::V2()) const { return v.a + v.b; }
  int d_tern(int a = (1 < 2) ? 3 : 4) const { return a; }
  int d_hex(unsigned a = 0xffu, long b = 10L, unsigned long long c = 1ULL << 40) const { return (int)a + (int)b + (c != 0); }
  int d_not(int a = ~0, bool b = !true) const { return a + b; }
  int d_arith(int a = 2 * 3 + 4 / 2 - 1 % 2) const { return a; }
  int d_multi(int a, int b = -2, QeNs::Kind k = QeNs::K_a, const char *s = "z") const { return a + b + (int)k + s[0]; }
};
__begin_publish
inline int qe_free(int a = -7, QeDef::Flag f = QeDef::F_a, QeNs::Kind k = QeNs::K_b) { return a + (int)f + (int)k; }
__end_publish
""")

atom("macros", "nasty", r"""
__begin_publish
#define QF_ZERO 0
#define QF_BIG 2147483647
#define QF_NEGBIG (-2147483647 - 1)
#define QF_UNS 4000000000u
#define QF_LL 10000000000LL
#define QF_OCT 0777
#define QF_SHIFT (1 << 20)
#define QF_FLOAT 2.5
#define QF_FLOATF 2.5f
#define QF_EXP 1e-5
#define QF_NEGF -0.25
#define QF_STR "text"
#define QF_CHAR 'z'
#define QF_BOOL true
#define QF_OTHER QF_SHIFT
#define QF_SUM (QF_ZERO + 3)
#define QF_CAST ((unsigned char)300)
#define QF_TYPE int
#define QF_KEYWORD const
#define QF_PAREN (
#define QF_IDENT some_identifier
#define QF_NULLPTR nullptr
#define QF_SIZEOF sizeof(long)
#define lambda 3
#define pass_ 4
__end_publish
#undef lambda
""")

atom("qualify", "nasty", r"""
namespace QgA { namespace B { class Cn { __published: Cn() {} enum En { E1, E2 }; class In { __published: In() {} int v() const { return 1; } }; typedef In InAlias; In mk() const { return In(); } }; enum Free { F1 = 4, F2 }; } }
namespace QgOther { class Dn : public QgA::B::Cn { __published: Dn() {} QgA::B::Cn::In in() const { return QgA::B::Cn::In(); } int take(QgA::B::Cn::En e = QgA::B::Cn::E2) const { return (int)e; } int free(QgA::B::Free f = QgA::B::F2) const { return (int)f; } }; }
template<class T, int N> class QgArr { __published: QgArr() {} T at(int i) const { return T(); } int n() const { return N; }};
typedef QgArr<int, 4> QgArrI4;
typedef QgArr<QgA::B::Cn::In, 2> QgArrIn2;
class QgUser {
__published:
  QgUser() {}
  typedef QgA::B::Cn::In Local;
  Local mk() const { return Local(); }
  QgArrI4 arr() const { return QgArrI4(); }
  QgArrIn2 arr2() const { return QgArrIn2(); }
  int take(const QgA::B::Cn::InAlias &a, const QgOther::Dn *d = 0) const { return a.v(); }
  QgA::B::Cn::En en() const { return QgA::B::Cn::E1; }
  QgA::B::Free fr() const { return QgA::B::F1; }
};
__begin_publish
inline QgA::B::Cn::In qg_free(QgA::B::Cn::En e, QgA::B::Free f = QgA::B::F1) { return QgA::B::Cn::In(); }
__end_publish
""")

atom("mangle", "nasty", r"""
class QhNames {
__published:
  QhNames() {}
  int get_value() const { return 1; }
  int getValue() const { return 2; }
  int _leading() const { return 3; }
  int trailing_() const { return 4; }
  int dbl__under() const { return 5; }
  int ALLCAPS() const { return 6; }
  int CamelCase() const { return 7; }
  int x1_y2() const { return 8; }
  int __len__() const { return 9; }
  int __dunder__() const { return 10; }
  int get_a_b_c(int a_b, int aB) const { return a_b + aB; }
  static int make() { return 0; }
  int size() const { return 3; }
  int operator [] (int i) const { return i; }
  int some_field;
  int someField;
};
class qh_lower_class { __published: qh_lower_class() {} int m() const { return 1; } };
class QhLowerClass { __published: QhLowerClass() {} int m() const { return 2; } };
enum QhEnum { qh_enum_value, QhEnumValue, QH_ENUM_VALUE };
""")

atom("overloads", "nasty", r"""
class QiA { __published: QiA() {} };
class QiB : public QiA { __published: QiB() {} };
class QiOver {
__published:
  QiOver() {}
  QiOver(int a) {}
  QiOver(double a) {}
  QiOver(const QiA &a) {}
  QiOver(const QiOver &o) {}
  int f() const { return 0; }
  int f() { return 1; }
  int f(int a) const { return 2; }
  int f(double a) const { return 3; }
  int f(const char *s) const { return 4; }
  int f(QiA *a) const { return 5; }
  int f(const QiA *a) const { return 6; }
  int f(QiB *b) const { return 7; }
  int f(int a, int b, int c = 0, int d = 1) const { return 8; }
  static int g(int a) { return 9; }
  int g() const { return 10; }
  int h(bool b) const { return 11; }
  int h(int i) const { return 12; }
  int h(unsigned char c) const { return 13; }
  int h(long long l) const { return 14; }
  int h(float f) const { return 15; }
};
""")

atom("shadow", "adversarial", r"""
class param0 {
__published:
  param0() {}
  int param1() const { return 1; }
};
class result {
__published:
  result() {}
  result *return_value() { return this; }
};
__begin_publish
inline int qk_free2(result *result, param0 *param1) { return (result != 0) + (param1 != 0); }
__end_publish
""")

atom("tplnested", "adversarial", r"""
template<class T, int N> class QjArr { __published: QjArr() {} int n() const { return N; } class Iter { __published: Iter() {} int pos() const { return 0; } }; Iter begin() const { return Iter(); } };
typedef QjArr<int, 4> QjArrI4;
class QjUser {
__published:
  QjUser() {}
  QjArrI4::Iter it() const { return QjArrI4::Iter(); }
};
""")

atom("forcedvoid", "nasty", r"""
class QlHop {
__published:
  QlHop() {}
  operator const char * () const { return "hop"; }
  const char *name() const { return "n"; }
  int take(const char *s) const { return s ? s[0] : 0; }
  const char *field;
};
__begin_publish
inline const char *ql_free() { return "f"; }
__end_publish
""")

atom("widestring", "adversarial", r"""
class QmWide {
__published:
  QmWide() {}
  const wchar_t *wname() const { return L"w"; }
  int wtake(const wchar_t *s) const { return s ? (int)s[0] : 0; }
  int take_ws(std::wstring w) const { return (int)w.size(); }
  int take_wr(const std::wstring &w) const { return (int)w.size(); }
  int take_wp(const std::wstring *w) const { return w ? (int)w->size() : -1; }
  std::wstring make_w() const { return std::wstring(L"wide"); }
};
""", pre="#include <string>\n")

# ------------------------------------------------------- constructed hash collisions
def hash_string(name, shift_offset):
    """Transcription of InterrogateBuilder::hash_string (interrogateBuilder.cxx).  Used only to
    CHOOSE inputs; whether a constructed group really collides is read off the wrapper names
    the real tool produces."""
    h = 0
    shift = 0
    for c in name.encode("latin-1"):
        sc = (c << shift) & 0xffffff
        if shift > 16:
            sc |= (c >> (24 - shift)) & 0xff
        h = (h + sc) & 0xffffff
        shift = (shift + shift_offset) % 24
    prod = h * 4999
    h = (prod ^ (prod >> 24)) & 0xffffff
    out = ""
    for _ in range(4):
        v = h & 0x3f
        h >>= 6
        out += chr(65 + v) if v < 26 else chr(97 + v - 26) if v < 52 else chr(48 + v - 52) if v < 62 else "_"
    return out


class CGroup:
    """A set of functions whose signatures share the primary 24-bit hash.
    members: [(identifier, signature text, declaration text)] in canonical order."""

    def __init__(self, name, form, members, prelude="", open="", close="", eqsec=False):
        self.name, self.form, self.members = name, form, members
        self.prelude, self.open, self.close, self.eqsec = prelude, open, close, eqsec

    def render(self, order=None):
        idx = list(order) if order is not None else list(range(len(self.members)))
        return self.prelude + self.open + "".join(self.members[i][2] for i in idx) + self.close

    def header(self, order=None):
        return "#ifndef VF_GROUP_H\n#define VF_GROUP_H\n" + self.render(order) + "#endif\n"

    def predicted(self):
        return [(hash_string(m[1], 5), hash_string(m[1], 11)) for m in self.members]


def _pairs5(n, c0="a", c1="p"):
    # +2 on a character whose shift is s, -1 on the character five positions later (shift s+1)
    return [(chr(ord(c0) + 2 * t), chr(ord(c1) - t)) for t in range(n)]


def collision_groups():
    """The additive structure of the hash solved directly: the character at position i is
    added rotated by 5*i mod 24 bits, so (+2 at i, -1 at i+5) keeps the primary sum and
    changes the secondary one (rotation 11*i), while (+1 at i, -1 at i+24) keeps both."""
    gs = []
    mem = []
    for a, b in _pairs5(5):
        n = "zq_%sxxxx%s" % (a, b)
        mem.append((n, n + "(int)", "inline int %s(int a) { return a + %d; }\n" % (n, len(mem))))
    gs.append(CGroup("free5", "free functions", mem, open="__begin_publish\n", close="__end_publish\n"))
    # equal secondary hash as well: first, third and fourth member agree in both hashes
    mem = []
    for a, b, c in (("a", "p", "m"), ("c", "o", "m"), ("b", "p", "l"), ("c", "p", "k")):
        n = "zr_%sxxxx%s%s%s_end" % (a, b, "y" * 18, c)
        mem.append((n, n + "(int)", "inline int %s(int a) { return a + %d; }\n" % (n, len(mem))))
    gs.append(CGroup("eqsec4", "free functions, three with equal secondary hash", mem,
                     open="__begin_publish\n", close="__end_publish\n", eqsec=True))
    mem = []
    for a, b in _pairs5(4):
        n = "zs_%sxxxx%s" % (a, b)
        mem.append((n, "ZsCls::%s() const" % n, "  int %s() const { return %d; }\n" % (n, len(mem))))
    gs.append(CGroup("meth4", "methods of one class", mem,
                     open="class ZsCls {\n__published:\n  ZsCls() {}\n", close="};\n"))
    mem = []
    pre = ""
    for a, b in _pairs5(3):
        n = "Zt_%sxxxx%s" % (a, b)
        pre += "class %s {\n__published:\n  %s() {}\n};\n" % (n, n)
        mem.append((n, "ZtOv::ov(%s *) const" % n, "  int ov(%s *p) const { return %d; }\n" % (n, len(mem))))
    gs.append(CGroup("ovl3", "overloads of one name", mem, prelude=pre,
                     open="class ZtOv {\n__published:\n  ZtOv() {}\n", close="};\n"))
    for g in gs:
        pr = g.predicted()
        assert len(set(x[0] for x in pr)) == 1, (g.name, pr)
    return gs


def group_orders(g):
    """(k, order) for every prefix size k >= 2: all permutations for k <= 4, rotations for k = 5."""
    import itertools
    out = []
    for k in range(2, len(g.members) + 1):
        if k <= 4:
            out += [(k, p) for p in itertools.permutations(range(k))]
        else:
            out += [(k, tuple((i + r) % k for i in range(k))) for r in range(k)]
    return out


for _g in collision_groups():
    atom("collide_" + _g.name, "nasty", _g.render())

# ---- string-ish parameters / returns / data members: element x cv-placement x role ----
_STR_ELEMS = (("c", "char"), ("w", "wchar_t"), ("u", "unsigned char"), ("s", "signed char"))
# (tag, type with %s for the element, parameter declarator, can be returned, initialiser of a member)
_STR_DECLS = (
    ("p", "%s *", "%s *v", "buf()", "buf()"),
    ("cp", "const %s *", "const %s *v", "buf()", "buf()"),
    ("pc", "%s *const", "%s *const v", "buf()", "buf()"),
    ("cpc", "const %s *const", "const %s *const v", "buf()", "buf()"),
    ("pr", "%s *&", "%s *&v", "pref()", "pref()"),
    ("cpr", "const %s *&", "const %s *&v", "cpref()", "cpref()"),
    ("a", "%s [8]", "%s v[8]", None, None),
    ("ca", "const %s [8]", "const %s v[8]", None, "{}"),
)


def _string_atoms():
    for et, elem in _STR_ELEMS:
        for dt, ty, pdecl, rexpr, minit in _STR_DECLS:
            n = "Sx_%s_%s" % (et, dt)
            t = ty % elem
            if dt in ("a", "ca"):
                tdef = "typedef %s %s_t[8];\n" % (t[:-4], n)
                mdecl = "  %s m[8];\n" % t[:-4]
            else:
                tdef = "typedef %s%s_t;\n" % (t if t.endswith(("*", "&")) else t + " ", n)
                mdecl = "  %s%sm;\n" % (t, "" if t.endswith(("*", "&")) else " ")
            inits = []
            if minit == "{}":
                inits = ["m{}", "mt{}"]
            elif minit and (dt in ("pc", "cpc", "pr", "cpr")):
                inits = ["m(%s)" % minit, "mt(%s)" % minit]
            elif minit:
                inits = ["m(%s)" % minit, "mt(%s)" % minit]
            body = [tdef, "class %s {\n" % n, "public:\n",
                    "  static %s *buf() { static %s b[8] = {0}; return b; }\n" % (elem, elem),
                    "  static %s *&pref() { static %s *p = buf(); return p; }\n" % (elem, elem),
                    "  static const %s *&cpref() { static const %s *p = buf(); return p; }\n" % (elem, elem),
                    "__published:\n",
                    "  %s()%s {}\n" % (n, (" : " + ", ".join(inits)) if inits else ""),
                    "  int p(%s) const { return v != 0; }\n" % (pdecl % elem),
                    "  int pt(%s_t v) const { return v != 0; }\n" % n,
                    "  int p2(int a, %s, int b = 3) const { return a + b + (v != 0); }\n" % (pdecl % elem)]
            if rexpr:
                body += ["  %s r() const { return %s; }\n" % (t, rexpr),
                         "  %s_t rt() const { return %s; }\n" % (n, rexpr)]
            body += [mdecl, "  %s_t mt;\n" % n, "};\n"]
            free = ["__begin_publish\n", "inline int %s_f(%s) { return v != 0; }\n" % (n, pdecl % elem)]
            if rexpr:
                free.append("inline %s %s_g() { return %s::%s; }\n" % (t, n, n, rexpr))
            free.append("__end_publish\n")
            atom("str_%s_%s" % (et, dt), "strings", "".join(body + free))


_string_atoms()

# ---- atoms that exist to instantiate the remaining ParameterRemap classes (C11) ----
atom("handles", "remaps", r"""
class ButtonHandle {
__published:
  ButtonHandle() : _i(0) {}
  ButtonHandle(int i) : _i(i) {}
  int get_index() const { return _i; }
private:
  int _i;
};
class RhUser {
__published:
  RhUser() {}
  ButtonHandle get_button(int i) const { return ButtonHandle(i + 1); }
  int take_button(ButtonHandle h) const { return h.get_index(); }
  int take_cbutton(const ButtonHandle h) const { return h.get_index(); }
};
""")

atom("refcount", "remaps", r"""
class ReferenceCount {
public:
  ReferenceCount() : _rc(0) {}
  virtual ~ReferenceCount() {}
  void ref() const { ++_rc; }
  bool unref() const { return --_rc != 0; }
  int get_ref_count() const { return _rc; }
private:
  mutable int _rc;
};
template<class T> inline void unref_delete(T *ptr) { if (!ptr->unref()) { delete ptr; } }
template<class T>
class PointerTo {
public:
  PointerTo(T *ptr = 0) : _p(ptr) { if (_p) _p->ref(); }
  PointerTo(const PointerTo<T> &copy) : _p(copy._p) { if (_p) _p->ref(); }
  ~PointerTo() { if (_p) unref_delete(_p); }
  T *p() const { return _p; }
  T *operator -> () const { return _p; }
  operator T * () const { return _p; }
private:
  T *_p;
};
template<class T>
class ConstPointerTo {
public:
  ConstPointerTo(const T *ptr = 0) : _p(ptr) { if (_p) _p->ref(); }
  ConstPointerTo(const ConstPointerTo<T> &copy) : _p(copy._p) { if (_p) _p->ref(); }
  ~ConstPointerTo() { if (_p) unref_delete((T *)_p); }
  const T *p() const { return _p; }
  const T *operator -> () const { return _p; }
  operator const T * () const { return _p; }
private:
  const T *_p;
};
class RrNode : public ReferenceCount {
__published:
  RrNode() : _value(5), _child(0) {}
  int get_value() const { return _value; }
  void set_value(int value, int scale = 1) { _value = value * scale; }
  PointerTo<RrNode> get_child(int n) const { return _child; }
  ConstPointerTo<RrNode> get_const_child() const { return (const RrNode *)_child; }
  void add_child(PointerTo<RrNode> child) { _child = child.p(); if (_child) _child->ref(); }
  int take_cref(const PointerTo<RrNode> &c) const { return c.p() != 0; }
  int take_const(ConstPointerTo<RrNode> c) const { return c.p() != 0; }
  RrNode *get_parent() const { return 0; }
  static PointerTo<RrNode> make_root(int id) { PointerTo<RrNode> r = new RrNode; r->set_value(id); return r; }
private:
  int _value;
  RrNode *_child;
};
""")

atom("bytevector", "remaps", r"""
template<class T>
class pvector {
public:
  pvector() : _b(0), _n(0) {}
  pvector(const T *b, const T *e) : _b(b), _n((int)(e - b)) {}
  int size() const { return _n; }
  bool empty() const { return _n == 0; }
  const T *data() const { return _b; }
  const T &operator [] (int i) const { return _b[i]; }
private:
  const T *_b;
  int _n;
};
class RvBytes {
__published:
  RvBytes() {}
  int take_v(pvector<unsigned char> v) const { return v.size(); }
  int take_cv(const pvector<unsigned char> v) const { return v.size(); }
  int take_rv(const pvector<unsigned char> &v) const { return v.size(); }
};
""", needs=("string",))

atom("stringptrs", "remaps", r"""
class RsStrings {
__published:
  RsStrings() {}
  int take_sp(const std::string *s) const { return s ? (int)s->size() : -1; }
};
""", needs=("string",), pre="#include <string>\n")

# ---- typedef depth 0..3 in front of array / char pointer / enum / class value / class pointer ----
def _tdepth_atoms():
    kinds = (
        # tag, base type, array suffix, value expression, can be returned
        ("arr", "float", "[3]", None, False),
        ("cstr", "const char *", "", '"td"', True),
        ("enum", "TdEnum_e", "", "TDE_b", True),
        ("cls", "TdCls_v", "", "TdCls_v()", True),
        ("ptr", "TdCls_p *", "", "0", True),
    )
    for tag, base, arr, val, ret in kinds:
        n = "Td_%s" % tag
        pre = ""
        if tag == "enum":
            pre = "enum TdEnum_e { TDE_a, TDE_b = 4 };\n"
        elif tag == "cls":
            pre = "class TdCls_v {\n__published:\n  TdCls_v() : v(2) {}\n  int v;\n};\n"
        elif tag == "ptr":
            pre = "class TdCls_p {\n__published:\n  TdCls_p() {}\n};\n"
        names = ["%s_t%d" % (n, d) for d in range(4)]
        tds = "typedef %s%s%s%s;\n" % (base, "" if base.endswith("*") else " ", names[1], arr)
        tds += "typedef %s %s;\ntypedef %s %s;\n" % (names[1], names[2], names[2], names[3])
        body = [pre, tds, "class %s {\n__published:\n  %s() {}\n" % (n, n)]
        for d in range(4):
            if d == 0:
                pdecl = "%s%sv%s" % (base, "" if base.endswith("*") else " ", arr)
                mdecl = "%s%sm0%s" % (base, "" if base.endswith("*") else " ", arr)
                rtype = base
            else:
                pdecl = "%s v" % names[d]
                mdecl = "%s m%d" % (names[d], d)
                rtype = names[d]
            body.append("  int p%d(%s) const { return 1; }\n" % (d, pdecl))
            body.append("  int q%d(int a, %s, int b = 2) const { return a + b; }\n" % (d, pdecl))
            if ret:
                body.append("  %s r%d() const { return %s; }\n" % (rtype, d, val))
            body.append("  %s;\n" % mdecl)
        body.append("};\n__begin_publish\n")
        for d in range(1, 4):
            body.append("inline int %s_f%d(%s v) { return 1; }\n" % (n, d, names[d]))
            if ret:
                body.append("inline %s %s_g%d() { return %s; }\n" % (names[d], n, d, val))
        body.append("__end_publish\n")
        atom("tdepth_" + tag, "tdepth", "".join(body))


_tdepth_atoms()

# ---- class templates with properties / sequences, instantiated for several argument lists ----
def _template_atoms():
    def tpl(name):
        return ("template<class T>\nclass %s {\n__published:\n"
                "  %s() : field(), _v(), _n(2) { for (int i = 0; i < 4; ++i) _items[i] = T(); }\n"
                "  T get_value() const { return _v; }\n"
                "  void set_value(T v) { _v = v; }\n"
                "  __make_property(value, get_value, set_value);\n"
                "  int get_num_items() const { return _n; }\n"
                "  T get_item(int i) const { return _items[i & 3]; }\n"
                "  void set_item(int i, T v) { _items[i & 3] = v; }\n"
                "  __make_seq(get_items, get_num_items, get_item);\n"
                "  __make_seq_property(items, get_num_items, get_item, set_item);\n"
                "  bool has_key(int k) const { return k >= 0 && k < _n; }\n"
                "  T get_val(int k) const { return _items[k & 3]; }\n"
                "  void set_val(int k, T v) { _items[k & 3] = v; }\n"
                "  void clear_val(int k) { _items[k & 3] = T(); }\n"
                "  __make_map_property(vals, has_key, get_val, set_val, clear_val);\n"
                "  int plain_method(int a) const { return a + _n; }\n"
                "  T field;\n"
                "private:\n  T _v;\n  T _items[4];\n  int _n;\n};\n") % (name, name)
    atom("tpl_twice", "plain", tpl("TwBox") + "typedef TwBox<int> TwBoxI;\ntypedef TwBox<float> TwBoxF;\n"
         "typedef TwBox<double> TwBoxD;\n" + tpl("TwOnce") + "typedef TwOnce<int> TwOnceI;\n"
         "class TwUser {\n__published:\n  TwUser() {}\n"
         "  float use_f(const TwBoxF &b) const { return b.get_value(); }\n"
         "  int use_i(const TwBoxI &b) const { return b.get_value(); }\n"
         "  TwBoxD make_d() const { return TwBoxD(); }\n};\n")


_template_atoms()

# ---- class-scope constants of every access level used where their text is copied into the code ----
def _classconst_atom():
    levels = (("pri", "private"), ("pro", "protected"), ("pub", "public"))
    kinds = (("c", "static const int %s = %d;"), ("x", "static constexpr int %s = %d;"), ("e", "enum { %s = %d };"))
    out = ["template<int N>\nclass VcBuf {\n__published:\n  VcBuf() {}\n  int n() const { return N; }\n};\n",
           "class VcRing {\n"]
    names = []
    v = 3
    for lt, lk in levels:
        out.append("%s:\n" % lk)
        for kt, decl in kinds:
            n = "%s_%s" % (lt, kt)
            out.append("  " + decl % (n, v) + "\n")
            names.append(n)
            v += 1
    out.append("__published:\n  VcRing() {}\n")
    for n in names:
        out.append("  int a_%s[%s];\n" % (n, n))                                   # array bound of a member
        out.append("  int b_%s[%s + 2 * %s];\n" % (n, n, n))
        out.append("  int d_%s(int v = %s) const { return v; }\n" % (n, n))        # default argument
        out.append("  int e_%s(int a, int v = %s * 2 + 1) const { return a + v; }\n" % (n, n))
        out.append("  VcBuf<%s> t_%s() const { return VcBuf<%s>(); }\n" % (n, n, n))   # template argument
        out.append("  int u_%s(const VcBuf<%s> &b) const { return b.n(); }\n" % (n, n))
    out.append("};\n")
    atom("classconsts", "nasty", "".join(out))


_classconst_atom()

ATOM_BY_NAME = {a.name: a for a in ATOMS}
GROUPS = {}
for _a in ATOMS:
    GROUPS.setdefault(_a.group, []).append(_a.name)


def header_text(names):
    pre = []
    for n in names:
        for l in ATOM_BY_NAME[n].pre.splitlines():
            if l not in pre:
                pre.append(l)
    out = ["// header made of atoms: " + " ".join(names), "#ifndef VF_HDR_H", "#define VF_HDR_H"] + pre
    for n in names:
        out.append("// ---- atom %s" % n)
        out.append(ATOM_BY_NAME[n].text)
    out.append("#endif")
    return "\n".join(out) + "\n"


def defs_text(names, header="h.h"):
    return '#include "%s"\n' % header + "".join(ATOM_BY_NAME[n].defs for n in names)


# ----------------------------------------------------------------- option lattice
BACKENDS = ("c", "python", "python-native")
NAMING = ("none", "fnames", "fptrs")
BOOLS = ("string", "true-names", "unique-names", "nodb", "do-module", "promiscuous",
         "nomangle", "assert")


class Opt:
    """One option set; canonical and hashable."""
    __slots__ = ("backend", "naming", "flags")

    def __init__(self, backend, naming="none", flags=()):
        self.backend, self.naming = backend, naming
        self.flags = tuple(f for f in BOOLS if f in flags)

    def has(self, f):
        return f in self.flags

    @property
    def key(self):
        parts = [self.backend]
        if self.naming != "none":
            parts.append(self.naming)
        return "+".join(parts + list(self.flags))

    def argv(self):
        a = ["-" + self.backend]
        if self.naming != "none":
            a.append("-" + self.naming)
        return a + ["-" + f for f in self.flags]

    def deviations(self):
        return (self.naming != "none") + len(self.flags)

    def rejected(self):
        """the one combination interrogate refuses (exit 1 with a message)"""
        return self.naming == "fnames" and self.has("true-names")

    @staticmethod
    def from_key(k):
        p = k.split("+")
        nm = "none"
        fl = []
        for x in p[1:]:
            if x in NAMING:
                nm = x
            else:
                fl.append(x)
        return Opt(p[0], nm, fl)


class LibOpt:
    """Option set of ONE library of a mixed module: any subset of the naming flags (so that
    -fnames -fptrs together is expressible) plus -string / -nodb.  Duck-types Opt for Case."""
    NAMING = (("fnames",), ("fptrs",), ("fnames", "fptrs"), (), ("unique-names",), ("true-names",))

    def __init__(self, backend, flags=()):
        order = ("fnames", "fptrs", "string", "true-names", "unique-names", "nodb")
        self.backend = backend
        self.flags = tuple(f for f in order if f in flags)
        self.naming = "mixed"

    def has(self, f):
        return f in self.flags

    @property
    def key(self):
        return "+".join(self.flags) or "none"

    def argv(self):
        return ["-" + self.backend] + ["-" + f for f in self.flags]

    def deviations(self):
        return len(self.flags)

    def rejected(self):
        return self.has("fnames") and self.has("true-names")

    @staticmethod
    def all(backend):
        out = []
        for nm in LibOpt.NAMING:
            for st in ((), ("string",)):
                for nd in ((), ("nodb",)):
                    out.append(LibOpt(backend, nm + st + nd))
        out.sort(key=lambda o: (o.deviations(), o.key))
        return out


def lattice(max_dev=None, backends=BACKENDS, bools=BOOLS, naming=NAMING):
    """All option sets (canonical order: fewest deviations first), optionally only those
    within max_dev deviations of the back-end's default."""
    import itertools
    out = []
    for be in backends:
        for nm in naming:
            for r in range(len(bools) + 1):
                for fl in itertools.combinations(bools, r):
                    o = Opt(be, nm, fl)
                    if max_dev is not None and o.deviations() > max_dev:
                        continue
                    out.append(o)
    out.sort(key=lambda o: (o.deviations(), BACKENDS.index(o.backend), NAMING.index(o.naming),
                            [BOOLS.index(f) for f in o.flags]))
    return out


# ------------------------------------------------------------------------ one case
def atoms_for(names, opt):
    return [n for n in names if ATOM_BY_NAME[n].needs <= set(opt.flags)]


class Case:
    """(atoms, option set) materialised in a directory."""

    def __init__(self, b, root, names, opt, tag=None, library="l", module="m"):
        self.b, self.opt = b, opt
        self.names = atoms_for(names, opt)
        self.tag = tag or opt.key
        self.dir = os.path.join(root, self.tag)
        self.library, self.module = library, module
        self.oc = os.path.join(self.dir, "%s_igate.cxx" % library)
        self.od = os.path.join(self.dir, "%s.in" % library)
        self.r = None

    def write(self):
        os.makedirs(self.dir, exist_ok=True)
        with open(os.path.join(self.dir, "h.h"), "w") as f:
            f.write(header_text(self.names))
        with open(os.path.join(self.dir, "defs.cxx"), "w") as f:
            f.write(defs_text(self.names))

    def cmd(self):
        a = ["-oc", self.oc, "-module", self.module, "-library", self.library,
             "-S" + os.path.join(self.b["repo"], "parser-inc"), "-D__cplusplus"]
        if not self.opt.has("nodb"):
            a += ["-od", self.od]
        return a + self.opt.argv() + ["h.h"]

    def interrogate(self, timeout=120):
        self.write()
        for p in (self.oc, self.od):
            if os.path.exists(p):
                os.unlink(p)
        self.r = tools.interrogate(self.b, self.cmd(), cwd=self.dir, timeout=timeout)
        return self.r

    def cleanup(self):
        shutil.rmtree(self.dir, ignore_errors=True)


SHIM_C03 = os.path.join(build.VERIF, "harness", "shim_c03")


def cxx_flags(b, dirs, std="gnu++17", opt="-O0"):
    # shim_c03/pnotify.h (class Notify of the Panda3D runtime, needed by -assert) goes first
    fl = pynative.cxx_flags(b, list(dirs), std=std, opt=opt)
    i = next(k for k, f in enumerate(fl) if f.startswith("-I"))
    return fl[:i] + ["-I" + SHIM_C03] + fl[i:]


def gxx(args, cwd, timeout=600):
    try:
        p = subprocess.run(["g++"] + list(args), cwd=cwd, stdout=subprocess.PIPE,
                           stderr=subprocess.STDOUT, text=True, errors="replace", timeout=timeout,
                           env=build.tool_env())
        return p.returncode, p.stdout
    except subprocess.TimeoutExpired:
        return None, "g++ timed out after %ss" % timeout


def first_error(text):
    for l in text.splitlines():
        if "error:" in l or "Error" in l or "undefined reference" in l:
            l = re.sub(r"^\S*?([^/\s:]+):\d+:\d+:\s*", r"\1: ", l.strip())
            return l[:240]
    return text.strip().splitlines()[-1][:240] if text.strip() else ""


def header_ok(b, d):
    """The header itself must be accepted by g++ (precondition: 'accepted headers')."""
    rc, out = gxx(cxx_flags(b, [d]) + ["-fsyntax-only", "-x", "c++", "h.h"], d)
    return rc == 0, out


def syntax_only(b, d, src):
    return gxx(cxx_flags(b, [d]) + ["-fsyntax-only", src], d)


def compile_obj(b, d, src, obj):
    return gxx(cxx_flags(b, [d]) + ["-c", src, "-o", obj], d)


_NM = re.compile(r"^(?:[0-9a-f]+)?\s+([A-Za-z])\s+(\S+)$")


def nm_defined(obj):
    """[(letter, symbol)] of symbols defined in an object/so (no demangling)."""
    p = subprocess.run(["nm", obj], stdout=subprocess.PIPE, stderr=subprocess.STDOUT, text=True)
    out = []
    for l in p.stdout.splitlines():
        m = _NM.match(l)
        if m and m.group(1) not in "Uwv":
            out.append((m.group(1), m.group(2)))
    return out


def module_cmd(b, case, infiles, oc):
    be = case.opt.backend
    return [b["interrogate_module"], "-" + be, "-module", case.module, "-library", case.module,
            "-oc", oc] + list(infiles)


def init_names(path):
    txt = open(path, errors="replace").read()
    return sorted(set(re.findall(r"\bPyInit_(\w+)", txt)))
